"""C09, stream `clients` -- the store as its clients reach it: the REAL cascade.shm.client functions (allocate / get / purge / status /
get_free_space, AllocatedBuffer.view / close -> close_callback, _send_command, api.ser / api.deser) run by SEVERAL THREADS OF ONE
PROCESS (what the ThreadPoolExecutor of cascade.executor.data_server.DataServer does) against the REAL LocalServer.start loop /
dataset.Manager / disk.Disk of harness/shm_common.py, with a datagram network in between that is ours:

  * every socket.socket(AF_INET, SOCK_DGRAM) the client code makes is a ClientSock with an identity of its own (its source port)
    and a receive buffer of its own.  A datagram sent goes to the server's queue together with the socket it came from; the
    server (ONE thread, arrival order, one answer per request) answers to THAT socket: the answer is appended to its receive
    buffer, or lost when the socket has been closed meanwhile.  Whoever calls recv on a socket takes the oldest datagram in its
    buffer -- a socket does not know about threads.  Nothing is lost, duplicated or reordered otherwise, and no recv times out
    (the server always answers; a recv with nothing under way for its socket is a call that never returns: reported);
  * the threads are real threads (thread-local state of the implementation is per thread), run ONE AT A TIME from yield point to
    yield point: after a datagram was sent, before one is received, in time.sleep (the busy-wait on `wait`), before a segment is
    created / attached.  A schedule (part of the case) says who takes the next leg: a client thread, the server (takes the oldest
    request), a disk job; when it is used up everything is completed fairly.  A thread that blocks in a primitive of the
    implementation (a lock around the socket, say) is left alone until it comes back;
  * segments, page files, disk pools, clock: as in shm_common (shared with the other streams).

Oracle (direct reading of the property on what the client threads and the server see; nothing here knows how the client pairs
requests and answers):
  * bytes: the content of a key is a function of the key; whenever client.get(key) returns, the view holds exactly that, with
    the size and deser_fun the writer gave (`client-bytes-differ`);
  * a call fails iff the store refused it: a call raises exactly when the server answered one of the requests OF THAT CALL with an
    error (TimeoutError: when its last answer was `wait`), and never with TypeError (`client-call-failed-without-refusal`,
    `client-call-succeeded-despite-refusal`, `client-got-answer-of-another-command`);
  * reader bookkeeping: every close of a reader that reaches the server names a reader the server granted for THAT key and that
    is still open (`close-of-a-reader-never-granted`); while a granted reader is open its dataset is in memory with its segment
    (`unlinked-under-fresh-reader`); a purge requested during a read takes effect at the close of the last reader
    (`delayed-purge-not-executed`); when every thread is done and every buffer closed no dataset has a reader left
    (`reader-never-closed`);
  * reachability: every call returns (`client-call-never-returns`), the serve loop survives (`server-crash`).
Correspondence: the datagram events of a history (send / handle / recv / close, with the thread and the socket) are run through
Shm/ClientRpc.v: the log must be a run of the model network, every socket must carry at most one unanswered request at any time
(the discipline under which C09_client_call_gets_its_own_answer holds) and every datagram a thread received must be the answer to
the request it sent last."""
import contextlib
import hashlib
import os
import socket as _socket
import threading
import time as _time
import types

import shm_common as S
from common import cN, cbool, clist
from fakes import shm_fakes as F

HEADER = """From Coq Require Import List NArith Bool String.
From EKW Require Import Shm.ClientRpc.
Import ListNotations.
"""

PARK_AT = ("sock:send", "sock:recv", "sleep", "shm:create", "shm:attach")
PORT = 45123
BLOCK_WAIT = 0.4          # how long a leg may take before its thread is taken to be blocked in a primitive of the implementation
BLOCK_BUDGET = {"left": 12.0}


def content(key, size):
    h = hashlib.md5(key.encode()).digest()
    return bytes((h[i % 16] + 13 * i) % 255 + 1 for i in range(size))


# ----------------------------------------------------------------------------- client threads
class CThread:
    """one client thread of the process, run from yield point to yield point (duck-typed as a fakes.shm_fakes Task for SCHED.point)"""

    def __init__(self, net, tid, actions):
        self.net, self.tid, self.actions = net, tid, actions
        self.cv = threading.Condition()
        self.state = "new"        # new | running | parked | done
        self.label = None
        self.go = False
        self.loose = False        # did not come back to a yield point in time: blocked in a primitive of the implementation
        self.waiting_on = None    # the socket whose receive buffer it waits for
        self.action = -1
        self.out = []             # per action: ["ok"|"got"|"status"|"free"|"raise", ...]
        self.handles = {}
        self.thread = None
        self.abort = False
        self.locks_held = 0
        self.fault = False
        self.legs = 0

    # --- in the thread
    def at_point(self, label):
        if label not in PARK_AT:
            return
        with self.cv:
            if self.abort:
                raise F.TaskAbort()
            self.state, self.label = "parked", label
            self.cv.notify_all()
            while not self.go:
                self.cv.wait()
            self.go = False
            if self.abort:
                raise F.TaskAbort()
            self.state, self.label = "running", None

    def _main(self):
        F.SCHED.tasks[threading.get_ident()] = self
        try:
            self.at_point("sock:send")      # parked before its first instruction
            run_script(self)
        except F.TaskAbort:
            pass
        except BaseException as e:           # nothing of the script may escape
            self.out.append(["raise", "!" + type(e).__name__, repr(e)[:120]])
        finally:
            F.SCHED.tasks.pop(threading.get_ident(), None)
            with self.cv:
                self.state = "done"
                self.cv.notify_all()

    # --- in the scheduler
    def start(self):
        self.thread = threading.Thread(target=self._main, daemon=True, name=f"verif-c09-client-{self.tid}")
        self.thread.start()
        with self.cv:
            self.cv.wait_for(lambda: self.state in ("parked", "done"), 10)

    def settled(self):
        return self.state in ("parked", "done") and not self.go

    def resume(self):
        """one leg; False when the thread did not reach a yield point in time (it is blocked, or the machine is slow)"""
        with self.cv:
            if self.state != "parked" or self.go:
                return self.settled()
            self.legs += 1
            self.go = True
            self.cv.notify_all()
            ok = self.cv.wait_for(self.settled, 0.004)
        if not ok:
            # slow, or blocked in a primitive of the implementation?  asleep in the kernel at the same instruction several times in a row = blocked
            t0, last, same = _time.monotonic(), None, 0
            while _time.monotonic() - t0 < BLOCK_WAIT:
                with self.cv:
                    if self.cv.wait_for(self.settled, 0.003):
                        ok = True
                        break
                st, pos = F._thread_state(self.thread)
                same = same + 1 if (st == "S" and pos == last) else 0
                last = pos if st == "S" else None
                if same >= 3:
                    break
            BLOCK_BUDGET["left"] -= _time.monotonic() - t0
        if not ok:
            self.loose = True
        return ok

    def kill(self):
        with self.cv:
            self.abort = True
            self.go = True
            self.cv.notify_all()
        if self.thread is not None:
            self.thread.join(2)

    def idle_wait(self):
        """parked in recv with nothing to receive: a leg would change nothing"""
        return self.state == "parked" and self.label == "sock:recv" and self.waiting_on is not None and not self.waiting_on.rx


def run_script(th):
    net = th.net
    client = net.client
    for idx, a in enumerate(th.actions):
        th.action = idx
        k = a[0]
        try:
            if k == "alloc":
                size = net.sizes[a[1]]
                buf = client.allocate(a[1], size, "d:" + a[1], timeout_sec=net.patience)
                mv = buf.view()
                mv[:] = content(a[1], size)
                del mv
                buf.close()
                out = ["ok"]
            elif k in ("get", "read"):
                buf = client.get(a[1], timeout_sec=net.patience)
                out = ["got", bytes(buf.view()).hex(), buf.l, buf.deser_fun]
                if k == "get":
                    th.handles[a[2]] = buf
                else:
                    buf.close()
            elif k == "close":
                buf = th.handles.pop(a[1], None)
                if buf is not None:
                    buf.close()
                out = ["ok"]
            elif k == "purge":
                client.purge(a[1])
                out = ["ok"]
            elif k == "status":
                out = ["status", client.status(a[1]).name]
            elif k == "free":
                out = ["free", int(client.get_free_space())]
            else:
                raise ValueError(k)
        except F.TaskAbort:
            raise
        except Exception as e:
            out = ["raise", type(e).__name__, str(e)[:100]]
        th.out.append(out)
    th.action = len(th.actions)


# ----------------------------------------------------------------------------- the network
class ClientSock:
    """socket.socket(AF_INET, SOCK_DGRAM) as far as a client of the shm server uses it"""

    def __init__(self, family=-1, type=-1, proto=-1, fileno=None):
        net = NET.cur
        self.net = net
        self.sid = net.new_sid() if net is not None else 0
        self.rx = []              # [(number of the request this answers, datagram)]
        self.closed = False
        self.timeout = None
        self.peer = None

    def _net(self):
        net = NET.cur
        if self.net is not net:   # a socket kept in a module-level place outlives the history it was made in
            self.net, self.rx = net, []
            self.sid = net.new_sid()
            net.events.append(("adopt", self.sid))
        return net

    def connect(self, address, *a, **k):
        self.peer = address

    def connect_ex(self, address, *a, **k):
        self.peer = address
        return 0

    def bind(self, *a, **k):
        pass

    def settimeout(self, t):
        self.timeout = t

    def gettimeout(self):
        return self.timeout

    def setblocking(self, flag):
        self.timeout = None if flag else 0.0

    def setsockopt(self, *a, **k):
        pass

    def getsockopt(self, *a, **k):
        return 0

    def getsockname(self):
        return ("127.0.0.1", 30000 + self.sid)

    def getpeername(self):
        return self.peer

    def fileno(self):
        return -1 if self.closed else 1000 + self.sid

    def shutdown(self, *a, **k):
        pass

    def __enter__(self):
        return self

    def __exit__(self, *a):
        self.close()

    def close(self):
        if not self.closed:
            self.closed = True
            net = NET.cur
            if net is not None and self.net is net:
                with net.lock:
                    net.events.append(("close", self.sid))

    def send(self, data, *a, **k):
        if self.closed:
            raise OSError(9, "Bad file descriptor")
        net = self._net()
        th = F.SCHED.current()
        with net.lock:
            q = net.nreq
            net.nreq += 1
            tid = th.tid if isinstance(th, CThread) else -1
            act = (tid, th.action) if isinstance(th, CThread) else None
            net.queue.append((q, self, bytes(data), tid, act))
            net.sent[q] = (tid, act, bytes(data))
            net.events.append(("send", tid, self.sid, q))
            if isinstance(th, CThread):
                net.last_sent[tid] = q
        F.SCHED.point("sock:send")
        return len(data)

    def sendto(self, data, *rest):
        return self.send(data)

    sendall = send

    def recv(self, bufsize=65536, *a, **k):
        if self.closed:
            raise OSError(9, "Bad file descriptor")
        net = self._net()
        th = F.SCHED.current()
        while True:
            if isinstance(th, CThread):
                th.waiting_on = self
            F.SCHED.point("sock:recv")
            if self.closed:
                raise OSError(9, "Bad file descriptor")
            with net.lock:
                if self.rx:
                    q, data = self.rx.pop(0)
                    tid = th.tid if isinstance(th, CThread) else -1
                    net.events.append(("recv", tid, self.sid, q))
                    if isinstance(th, CThread):
                        th.waiting_on = None
                        net.received.append((tid, th.action, q))
                    return data[:bufsize]
            if not isinstance(th, CThread):
                raise F.Hang("recv outside a client thread with nothing to receive")

    def recvfrom(self, bufsize=65536, *a, **k):
        return self.recv(bufsize), ("127.0.0.1", PORT)

    def recv_into(self, buffer, nbytes=0, *a, **k):
        data = self.recv(nbytes or len(buffer))
        buffer[:len(data)] = data
        return len(data)


class SocketModule:
    """the `socket` module as seen by cascade.shm.client"""
    socket = ClientSock
    timeout = _socket.timeout

    def __getattr__(self, name):
        return getattr(_socket, name)


class TimeModule:
    """the `time` module as seen by cascade.shm.client: sleep is a yield point and takes no time"""

    def sleep(self, sec):
        net = NET.cur
        if net is not None:
            net.sleeps += 1
        F.SCHED.point("sleep")

    def __getattr__(self, name):
        return getattr(_time, name)


NET = types.SimpleNamespace(cur=None)


class ServerSock:
    def __init__(self, net):
        self.net = net

    def recvfrom(self, n):
        return self.net.next_datagram()

    def sendto(self, b, addr):
        self.net.answer(b, addr)

    def close(self):
        pass


@contextlib.contextmanager
def client_patched():
    import cascade.shm.api as api
    import cascade.shm.client as client
    missing = object()
    saved = []

    def put(name, value):
        saved.append((name, client.__dict__.get(name, missing)))
        setattr(client, name, value)
    put("socket", SocketModule())
    put("SharedMemory", F.FakeSharedMemory)
    put("time", TimeModule())
    put("multiprocessing", types.SimpleNamespace(resource_tracker=types.SimpleNamespace(unregister=lambda *a, **k: None)))
    old_port = os.environ.get(api.client_port_envvar)
    api.publish_client_port(PORT)
    try:
        yield client
    finally:
        for name, old in reversed(saved):
            if old is missing:
                delattr(client, name)
            else:
                setattr(client, name, old)
        if old_port is None:
            os.environ.pop(api.client_port_envvar, None)
        else:
            os.environ[api.client_port_envvar] = old_port


class Net:
    """one history: server, network, client threads, scheduler, oracle"""

    def __init__(self, env, client, case):
        import cascade.shm.api as api
        import cascade.shm.server as server
        self.env, self.client, self.api, self.case = env, client, api, case
        self.sizes = dict(case["sizes"])
        self.patience = 6.0
        self.lock = threading.RLock()
        self.nsid = 0
        self.nreq = 0
        self.queue = []            # (q, socket, datagram, tid, action)
        self.sent = {}
        self.last_sent = {}
        self.received = []         # (tid, action index, q)
        self.events = []
        self.sleeps = 0
        self.lost = 0
        self.bad = []              # (signature, what)
        self.handling = None
        self.refused = {}          # (tid, action) -> [error strings other than wait]
        self.last_answer = {}      # (tid, action) -> error string of the last answer
        self.open = {}             # (key, rdid) -> tid : readers granted and not yet closed, by what the SERVER said and was told
        self.delayed = set()
        self.stats = {}
        self.steps = 0
        self.crash = None
        capacity = case["capacity"]
        self.configured, self.avail, self.effective = S.cfg_of(capacity)
        F.WORLD.avail = self.avail
        F.WORLD.reg = F.Registry()
        F.BOARD.board = F.JobBoard()
        self.board, self.reg = F.BOARD.board, F.WORLD.reg
        self.srv = object.__new__(server.LocalServer)
        self.srv.sock = ServerSock(self)
        self.srv.manager = env.dataset.Manager(S.PREFIX, self.configured)
        self.m = self.srv.manager
        self.lock_log = []
        F.watch_locks(self.m, self.lock_log)
        self.prelude = CThread(self, 99, [list(a) for a in case.get("prelude", [])])
        self.threads = [CThread(self, i, [list(a) for a in acts]) for i, acts in enumerate(case["threads"])]
        self.schedule = list(case.get("schedule", []))
        self.phase = "prelude"
        env.clock.now = 1000
        env.uuids.script = []
        self.beat = 0
        self.overlap = 0

    def new_sid(self):
        with self.lock:
            self.nsid += 1
            return self.nsid

    def flag(self, sig, what):
        self.bad.append((sig, what))

    def stat(self, k):
        self.stats[k] = self.stats.get(k, 0) + 1

    # ---- the server side of the network
    def answer(self, b, addr):
        api = self.api
        h = self.handling
        self.handling = None
        if h is None:
            return
        q, sock, data, tid, act = h
        resp = api.deser(b)
        req = api.deser(data)
        err = getattr(resp, "error", "") or ""
        if act is not None:
            self.last_answer[act] = err
            if err and err != "wait":
                self.refused.setdefault(act, []).append(err)
        with self.lock:
            self.events.append(("handle", q, sock.sid))
            if sock.closed or sock.net is not self:
                self.lost += 1
                self.events.append(("lost", q))
            else:
                sock.rx.append((q, bytes(b)))
        # the oracle's books, from what the server was asked and what it said
        if isinstance(req, api.GetRequest) and isinstance(resp, api.GetResponse) and not err:
            self.open[(req.key, resp.rdid)] = tid
            self.stat("reads-granted")
            if len({k for k, _ in self.open}) >= 2 or len(self.open) >= 2:
                self.stat("readers-open-together")
        elif isinstance(req, api.CloseCallback) and req.rdid:
            if (req.key, req.rdid) in self.open:
                if not err:
                    del self.open[(req.key, req.rdid)]
                    if req.key in self.delayed and not any(k == req.key for k, _ in self.open):
                        self.delayed.discard(req.key)
                        if req.key in self.m.datasets:
                            self.flag("delayed-purge-not-executed", f"the last reader of {req.key} closed, a purge was requested during the read, the dataset is "
                                      f"still registered: {S.snapshot(self.m).get(req.key)}")
                        else:
                            self.stat("delayed-purge-done")
            elif not err:
                granted_for = sorted(k for k, r in self.open if r == req.rdid)
                self.flag("close-of-a-reader-never-granted", f"thread {tid} closed reader {req.rdid!r} of {req.key}: the store has no open reader with that id "
                          f"for that key" + (f" (it granted this id for {granted_for})" if granted_for else "") + f"; open: {sorted(self.open)}")
        elif isinstance(req, api.PurgeRequest):
            if any(k == req.key for k, _ in self.open):
                self.delayed.add(req.key)
                self.stat("purge-during-read")
        # while a granted reader is open its dataset is in memory with its segment (every reader here is fresh: the clock barely moves)
        for (key, rdid), t in self.open.items():
            ds = self.m.datasets.get(key)
            if ds is None or ds.status.name != "in_memory" or ds.shmid not in self.reg.segs:
                self.flag("unlinked-under-fresh-reader", f"{key} is held by reader {rdid!r} of thread {t} but is {None if ds is None else ds.status.name}, "
                          f"segment present: {ds is not None and ds.shmid in self.reg.segs}")
                break

    def pending_jobs(self):
        return [j for j in self.board.jobs if j.phase in ("io", "unlink", "cb")]

    def job_step(self):
        for j in self.board.jobs:
            if j.phase == "io":
                self.board.run_io(j.jid, False)
                return True
            if j.phase == "unlink":
                self.board.run_unlink(j.jid)
                return True
            if j.phase == "cb":
                self.board.run_cb(j.jid)
                self.stat("disk-jobs")
                return True
        return False

    def take(self):
        """the server takes the oldest request"""
        with self.lock:
            if not self.queue:
                return None
            h = self.queue.pop(0)
            if len({x[3] for x in self.queue} | {h[3]}) >= 2:
                self.overlap += 1
        self.handling = h
        self.env.clock.now += 1
        return h[2], ("client", h[1].sid)

    def live(self):
        ths = [self.prelude] if self.phase == "prelude" else self.threads
        return [t for t in ths if t.state != "done"]

    def leg(self, t):
        if t.state == "new":
            t.start()
            return
        if t.loose:
            if t.settled():
                t.loose = False
            else:
                return
        if t.state == "parked":
            t.resume()

    def next_datagram(self):
        """the scheduler: runs inside the server's recvfrom, returns when the server is to take a request"""
        while True:
            self.beat += 1
            self.steps += 1
            if self.steps > 20000:
                self.flag("client-call-never-returns", "the history did not end within 20000 scheduler steps")
                return self.api.ser(self.api.ShutdownCommand()), ("harness", 0)
            if self.phase == "prelude":
                if self.prelude.state == "done":
                    self.phase = "scheduled"
                    for t in self.threads:
                        t.start()
                    continue
                r = self.fair_step()
                if r is not None:
                    return r
                continue
            if self.phase == "scheduled":
                if not self.schedule:
                    self.phase = "completion"
                    continue
                s = self.schedule.pop(0)
                if s == -1:
                    r = self.take()
                    if r is not None:
                        return r
                elif s == -2:
                    self.job_step()
                elif 0 <= s < len(self.threads):
                    self.leg(self.threads[s])
                continue
            # completion
            if not self.live():
                return self.api.ser(self.api.ShutdownCommand()), ("harness", 0)
            r = self.fair_step()
            if r is not None:
                return r
            if self.stuck:
                return self.api.ser(self.api.ShutdownCommand()), ("harness", 0)

    stuck = False

    def fair_step(self):
        """serve what is queued; else let every thread that can move take a leg; a thread asleep on `wait`: the disk jobs first"""
        r = self.take()
        if r is not None:
            return r
        live = self.live()
        if any(t.state == "parked" and t.label == "sleep" for t in live):
            while self.job_step():
                pass
        moved = False
        for t in live:
            if t.loose and not t.settled():
                continue
            if t.idle_wait():
                continue
            self.leg(t)
            moved = True
        if moved or self.queue:
            return None
        loose = [t for t in live if t.loose and not t.settled()]
        if loose and BLOCK_BUDGET["left"] > 0:
            # every thread that is left is blocked inside the implementation or waits for an answer: give them time to come back
            t0 = _time.monotonic()
            while _time.monotonic() - t0 < 3.0 and not self.queue and not any(t.settled() for t in loose):
                self.beat += 1
                _time.sleep(0.005)
            BLOCK_BUDGET["left"] -= _time.monotonic() - t0
            if self.queue or any(t.settled() for t in loose):
                return None
        if self.job_step():
            return None
        waiting = [(t.tid, t.action, t.actions[t.action] if 0 <= t.action < len(t.actions) else None, t.label) for t in self.live()]
        if waiting:
            self.stuck = True
            self.flag("client-call-never-returns", f"threads (tid, action, yield point) {waiting} wait for a datagram that nobody will send: nothing is queued at the "
                      f"server, nothing is under way for their sockets ({self.lost} answers were lost to closed sockets)")
            if self.phase == "prelude":
                self.phase = "completion"
        return None

    # ---- run
    def run(self):
        done = threading.Event()
        NET.cur = self
        hang = [None]

        def body():
            try:
                self.prelude.start()
                self.srv.start()
            except F.Hang as h:
                hang[0] = str(h)
            except Exception as e:
                self.crash = [type(e).__name__, repr(e)[:200]]
            finally:
                done.set()
        t = threading.Thread(target=body, daemon=True, name="verif-c09-clients-history")
        t.start()
        try:
            stuck = F.wait_or_hang(done, lambda: self.beat, lambda: [t] + self.board.busy_threads())
            if stuck is not None and not done.is_set():
                hang[0] = hang[0] or stuck
        finally:
            for th in [self.prelude] + self.threads:
                if th.state != "done":
                    th.kill()
            self.board.abort_all()
            try:
                self.m.disk.root.cleanup()
            except Exception:
                pass
            NET.cur = None
        if hang[0] is not None:
            self.bad.insert(0, ("hang-clients", f"the store blocked for ever: {hang[0]}"))
        elif self.crash:
            self.flag("server-crash", f"{self.crash[0]} left LocalServer.start ({self.crash[1]})")
        self.judge()
        # what the property speaks of first
        rank = {"hang-clients": 0, "client-bytes-differ": 1, "client-got-answer-of-another-command": 2}
        self.bad.sort(key=lambda b: rank.get(b[0], 5))
        return self

    # ---- the oracle on what the client threads saw
    def judge(self):
        finished = all(t.state == "done" for t in [self.prelude] + self.threads) and not self.stuck
        for t in [self.prelude] + self.threads:
            for idx, out in enumerate(t.out):
                a = t.actions[idx] if idx < len(t.actions) else ["?"]
                act = (t.tid, idx)
                refused = self.refused.get(act, [])
                where = f"thread {t.tid} action {idx} {a}"
                if out[0] == "raise":
                    if out[1] == "TypeError" or out[1].startswith("!"):
                        self.flag("client-got-answer-of-another-command", f"{where} raised {out[1]}({out[2]}): the datagram it received was not an answer to its request")
                    elif out[1] == "TimeoutError" and self.last_answer.get(act) == "wait":
                        self.stat("patience-exhausted")
                    elif not refused:
                        self.flag("client-call-failed-without-refusal", f"{where} raised {out[1]}({out[2]}) although the store answered none of the requests of this call "
                                  f"with an error (answers to its requests: last {self.last_answer.get(act)!r})")
                    else:
                        self.stat("refused-calls")
                else:
                    if refused:
                        self.flag("client-call-succeeded-despite-refusal", f"{where} returned {out[:1]} although the store refused a request of this call: {refused[:2]}")
                    if out[0] == "got":
                        key = a[1]
                        want = content(key, self.sizes[key])
                        if out[1] != want.hex() or out[2] != len(want) or out[3] != "d:" + key:
                            self.flag("client-bytes-differ", f"{where} read {out[1]} (l={out[2]}, deser_fun={out[3]!r}) under {key}; the writer left {want.hex()} "
                                      f"(l={len(want)}, deser_fun={'d:' + key!r})")
                        else:
                            self.stat("reads-compared")
                    elif out[0] == "status" and out[1] not in ("ready", "not_present"):
                        self.flag("client-got-answer-of-another-command", f"{where} returned {out}")
        if finished and not self.crash:
            # (every buffer a script holds is closed by its last actions)
            left = {k: dict(ds.ongoing_reads) for k, ds in self.m.datasets.items() if ds.ongoing_reads}
            if left and not self.bad:
                self.flag("reader-never-closed", f"every thread is done and every buffer it got is closed, yet the store still has open readers {left}: these datasets "
                          "cannot be evicted or purged")
            elif left:
                self.flag("reader-never-closed", f"open readers left at the end: {left}")

    # ---- Coq term
    def term(self):
        evs = []
        for e in self.events:
            if e[0] == "send":
                evs.append(f"CSend {cN(e[1])} {cN(e[2])} {cN(e[3])}")
            elif e[0] == "handle":
                evs.append(f"CHandle {cN(e[1])} {cN(e[2])}")
            elif e[0] == "recv":
                evs.append(f"CRecv {cN(e[1])} {cN(e[2])} {cN(e[3])}")
            elif e[0] == "close":
                evs.append(f"CClose {cN(e[1])}")
        return clist(evs)


# ----------------------------------------------------------------------------- generator
def client_history(rng):
    nthreads = rng.choice([2, 2, 3, 3, 4, 5])
    npre = rng.choice([1, 2, 3, 4])
    pre_keys = [f"p{i}" for i in range(npre)]
    sizes = {k: rng.choice([1, 2, 3, 5, 8]) for k in pre_keys}
    prelude = [["alloc", k] for k in pre_keys]
    if rng.random() < 0.3:
        prelude.append(["read", rng.choice(pre_keys)])
    threads = []
    realloc_left = set(pre_keys)
    style = rng.choice(["readers", "readers", "mixed", "mixed", "writers", "hold"])
    for t in range(nthreads):
        acts, own, held = [], [], []
        nh = 0
        for _ in range(rng.choice([1, 2, 3, 4, 6])):
            r = rng.random()
            if style == "readers" or (style == "mixed" and r < 0.45) or (style == "hold" and r < 0.6):
                key = rng.choice(pre_keys + own) if rng.random() < 0.85 else rng.choice(pre_keys + [f"n{u}_0" for u in range(nthreads)])
                if rng.random() < (0.7 if style == "hold" else 0.35):
                    nh += 1
                    acts.append(["get", key, nh])
                    held.append(nh)
                else:
                    acts.append(["read", key])
            elif r < 0.6:
                key = f"n{t}_{len(own)}"
                sizes[key] = rng.choice([1, 2, 4, 7])
                own.append(key)
                acts.append(["alloc", key])
            elif r < 0.7 and held:
                acts.append(["close", held.pop(rng.randrange(len(held)))])
            elif r < 0.8:
                acts.append(["purge", rng.choice(pre_keys)])
            elif r < 0.85 and own:
                acts.append(["purge", own[-1]])
            elif r < 0.9:
                acts.append(["status", rng.choice(pre_keys + own)])
            elif r < 0.95:
                acts.append(["free"])
            elif realloc_left:
                key = rng.choice(sorted(realloc_left))
                realloc_left.discard(key)
                acts.append(["alloc", key])
            else:
                acts.append(["read", rng.choice(pre_keys)])
        for h in held:
            acts.append(["close", h])
        threads.append(acts)
    for k in list(sizes):
        sizes.setdefault(k, 1)
    for t in range(nthreads):          # keys a reader may name before their writer exists
        sizes.setdefault(f"n{t}_0", 1)
    total = sum(sizes.values())
    cap = rng.choice([1000, 1000, 1000, max(8, total // 2 + 1), max(8, (2 * total) // 3)])
    # who takes the next leg
    kind = rng.choice(["random", "random", "volley", "volley", "lockstep", "sequential", "none"])
    n = nthreads
    sched = []
    if kind == "random":
        for _ in range(rng.choice([10, 25, 60])):
            r = rng.random()
            sched.append(-1 if r < 0.3 else -2 if r < 0.33 else rng.randrange(n))
    elif kind == "volley":
        # everybody sends, the server answers all, everybody receives -- in several orders
        for _ in range(rng.choice([2, 4, 8])):
            order = rng.sample(range(n), n)
            sched += order
            sched += [-1] * rng.choice([1, n, n, n + 1])
            sched += rng.choice([order, order[::-1], rng.sample(range(n), n)])
            sched += [-1] * rng.choice([0, 1, n])
    elif kind == "lockstep":
        for _ in range(rng.choice([5, 15, 30])):
            sched += list(range(n))
            if rng.random() < 0.5:
                sched.append(-1)
    elif kind == "sequential":
        for t in range(n):
            sched += [t, -1, t, t, -1, t] * rng.choice([1, 3])
    return {"stream": "clients", "capacity": cap, "sizes": sizes, "prelude": prelude, "threads": threads, "schedule": sched, "schedule_kind": kind}


def corpus():
    # two readers of two keys in one volley: both send, the server answers both, both receive
    two = {"stream": "clients", "capacity": 1000, "sizes": {"p0": 3, "p1": 3}, "prelude": [["alloc", "p0"], ["alloc", "p1"]],
           "threads": [[["read", "p0"], ["read", "p0"]], [["read", "p1"], ["read", "p1"]]], "schedule": [0, 1, -1, -1, 1, 0, 1, 0, -1, -1, 0, 1]}
    # a purge during a read by another thread, a writer and a status inquiry at the same time
    mix = {"stream": "clients", "capacity": 1000, "sizes": {"p0": 5, "n1_0": 2}, "prelude": [["alloc", "p0"]],
           "threads": [[["get", "p0", 1], ["close", 1]], [["alloc", "n1_0"], ["purge", "p0"]], [["status", "p0"], ["free"], ["read", "n1_0"]]],
           "schedule": [0, 1, 2, -1, -1, -1, 2, 1, 0, 0, 1, 2, -1, -1, -1]}
    # memory pressure: the second allocation waits for the page-out of the first dataset, a reader brings it back
    tight = {"stream": "clients", "capacity": 8, "sizes": {"p0": 5, "n0_0": 7}, "prelude": [["alloc", "p0"]],
             "threads": [[["alloc", "n0_0"], ["purge", "n0_0"]], [["read", "p0"], ["read", "p0"]]], "schedule": [0, 1, -1, -1, 0, 1]}
    return [two, mix, tight]


def evaluate(env, client, case):
    net = Net(env, client, case)
    net.run()
    return net


def fingerprint(case):
    import json
    return hashlib.sha1(json.dumps([case["capacity"], case["prelude"], case["threads"], case["schedule"]], sort_keys=True).encode()).hexdigest()


def run_stream(ctx, res, env, n_cases, budget_s):
    """-> (terms, metas) for the correspondence"""
    rng = ctx.sub_rng("clients")
    cases = corpus() + [client_history(rng) for _ in range(n_cases)]
    terms, metas = [], []
    t0 = _time.time()
    BLOCK_BUDGET["left"] = 12.0
    failed = 0
    with client_patched() as client:
        for case in cases:
            if _time.time() - t0 > budget_s or BLOCK_BUDGET["left"] <= 0 or failed >= 3:
                res.count("clients:not-run:" + ("time-budget" if failed < 3 else "after-three-failures"))
                continue
            net = evaluate(env, client, case)
            res.evaluations += 1
            res.count("stream:clients")
            res.count("clients:schedule:" + case.get("schedule_kind", "corpus"))
            for k, v in net.stats.items():
                res.count("clients:histories-with-" + k)
            if net.overlap:
                res.count("clients:histories-with-requests-of-two-threads-queued-together")
            if any(t.loose for t in net.threads):
                res.count("clients:histories-with-a-thread-blocked-inside-the-client")
            if net.overlap and net.stats.get("reads-compared"):
                res.nontrivial_keys.add(fingerprint(case))
            if net.bad:
                failed += 1
                sig, what = net.bad[0]
                res.fail(sig, what, case)
                continue
            terms.append(net.term())
            metas.append(case)
    return terms, metas


def correspond(res, terms, metas):
    from common import coq_results
    if not terms:
        return
    results, logs = coq_results("C09", HEADER, terms, "check_client_log", tag="clients", shard=150, case_type="list cev")
    res.corr_checked += len(results)
    res.count("compared:client-datagram-logs", len(results))
    for r, case in zip(results, metas):
        if r is not True:
            res.disagree("the datagram events between the client threads and the shm server are not a run of Shm/ClientRpc.v under its discipline (one "
                         "unanswered request per socket at any time; a thread receives the answer to the request it sent)" +
                         ("" if r is False else " (cases file did not compile: " + (logs[0][-400:] if logs else "") + ")"), case)
            break


def search(ctx, env, n=600):
    rng = ctx.sub_rng("clients-search")
    with client_patched() as client:
        for case in corpus() + [client_history(rng) for _ in range(n)]:
            net = evaluate(env, client, case)
            if net.bad:
                return {"signature": net.bad[0][0], "what": net.bad[0][1], "case": case}
    return None


def shrink(ctx, f):
    import copy
    case, sig = copy.deepcopy(f["case"]), f["signature"]
    with S.patched() as env, client_patched() as client:
        def still(c):
            try:
                net = evaluate(env, client, c)
            except Exception:
                return None
            for s, w in net.bad:
                if s == sig:
                    return w
            return None
        # the same case must fail again (schedules are deterministic as long as no thread blocks inside the implementation)
        what = still(case)
        if what is None:
            return f
        changed, rounds = True, 0
        while changed and rounds < 6:
            changed, rounds = False, rounds + 1
            for ti in range(len(case["threads"]) - 1, -1, -1):
                for ai in range(len(case["threads"][ti]) - 1, -1, -1):
                    trial = copy.deepcopy(case)
                    a = trial["threads"][ti].pop(ai)
                    if a[0] == "get":      # with its close
                        trial["threads"][ti] = [x for x in trial["threads"][ti] if not (x[0] == "close" and x[1] == a[2])]
                    w = still(trial)
                    if w is not None:
                        case, what, changed = trial, w, True
            for cut in (len(case["schedule"]) // 2, len(case["schedule"]) - 1):
                if 0 <= cut < len(case["schedule"]):
                    trial = copy.deepcopy(case)
                    trial["schedule"] = trial["schedule"][:cut]
                    w = still(trial)
                    if w is not None:
                        case, what, changed = trial, w, True
    case["stream"] = "clients+shrunk"
    return {"signature": sig, "what": what, "case": case}


def replay(ctx, case):
    with S.patched() as env, client_patched() as client:
        net = evaluate(env, client, case)
    return {"fails": bool(net.bad), "failures": [{"signature": s, "what": w} for s, w in net.bad[:5]],
            "outcomes": {t.tid: t.out for t in [net.prelude] + net.threads}, "events": net.events[:400], "stats": net.stats}
