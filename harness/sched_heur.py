"""Correspondence between the assignment heuristic of the real controller
(cascade.scheduler.api.assign / cascade.scheduler.assign.*) and coq/theories/Sched/Heur.v.

The real controller loop runs against sched_common.FakeCluster as for C01-C04; in addition the
names the loop resolves in cascade.controller.impl (`has_computable`, `assign`, `plan`,
`initialize`) and `cascade.scheduler.assign._assignment_heuristic` are wrapped FROM OUTSIDE (no
edit of the repository) to record, per loop iteration,

  * the scheduling state at the loop guard: every component's computable keys (dict order) and
    weight, host2component, idle_workers (set iteration order);
  * at every call of _assignment_heuristic the oracle values the real State holds for the
    (worker, task) pairs of that call: distance == optimum, (overhead, value).

Sched/HeurCheck.v then recomputes the assignment sequence of every round with the Coq model of
the heuristic (oracle = the recorded orders/values, tie-break = the observed order), demands
that it equals the observed sequence, replays the round on Sched/Model.v, and demands that the
model's scheduling state equals the recorded one at every loop guard."""
from __future__ import annotations

import contextlib

import sched_common as sc
from common import cN, cZ, cnat, clist, copt

HEADER = """From stdpp Require Import gmap.
From Coq Require Import NArith ZArith String.
From EKW Require Import Sched.Model Sched.Lit Sched.Replay Sched.Heur Sched.HeurCheck.
Local Open Scope N_scope.
"""


def tnum(t):
    return int(t[1:])


class Recorder:
    def __init__(self, spec):
        self.spec = spec
        self.widx = {}
        per_host = {}
        for i, w in enumerate(spec["workers"]):
            j = per_host.get(w["host"], 0)
            per_host[w["host"]] = j + 1
            self.widx[(sc.hname(w["host"]), f"w{j}")] = i
        self.iters = []          # one per evaluation of the loop guard
        self.expect_guard = True
        self.state = None
        self.K = None            # node sets of the preschedule's components, in list order
        self.problems = []

    def w(self, worker):
        return self.widx[(worker.host, worker.worker)]

    def snapshot(self, state):
        return {
            "cs": [([tnum(t) for t in c.computable.keys()], int(c.weight)) for c in state.components],
            "h2c": sorted((int(h[1:]), (None if c is None else int(c))) for h, c in state.host2component.items()),
            "idle": [self.w(x) for x in state.idle_workers],
            "computable": int(state.computable),
        }

    # --- wrappers
    def on_guard(self, state):
        if self.expect_guard:
            self.expect_guard = False
            self.iters.append({"snap": self.snapshot(state), "match": {}, "key": {}, "calls": 0, "assign_called": False})

    def on_heur_call(self, state, tasks, workers, component_id):
        it = self.iters[-1]
        it["calls"] += 1
        comp = state.components[component_id]
        for wk in workers:
            dist = comp.worker2task_distance.get(wk)
            ovs = state.worker2task_overhead.get(wk, {})
            for t in tasks:
                pair = (self.w(wk), tnum(t))
                if dist is not None and t in comp.computable:
                    dv = dist[t] if t in dist else comp.core.depth
                    m = bool(dv == comp.computable[t])
                    if it["match"].get(pair, m) != m:
                        self.problems.append(("heur-oracle-clash", f"pair {pair} evaluated twice in one assign call with different distance tests"))
                    it["match"][pair] = m
                if t in ovs and t in comp.core.value:
                    k = (int(ovs[t]), int(comp.core.value[t]))
                    if min(k) < 0:
                        self.problems.append(("harness-limit", f"negative overhead/value {k}"))
                    if it["key"].get(pair, k) != k:
                        self.problems.append(("heur-oracle-clash", f"pair {pair} evaluated twice in one assign call with different sort keys"))
                    it["key"][pair] = k


@contextlib.contextmanager
def recording(rec):
    import cascade.controller.impl as impl
    import cascade.scheduler.assign as asg
    o_hc, o_assign, o_plan, o_init, o_heur = impl.has_computable, impl.assign, impl.plan, impl.initialize, asg._assignment_heuristic

    def has_computable(state):
        rec.on_guard(state)
        return o_hc(state)

    def assign(state, job, env):
        if rec.iters:
            rec.iters[-1]["assign_called"] = True
        return o_assign(state, job, env)

    def plan(state, assignments):
        rec.expect_guard = True
        return o_plan(state, assignments)

    def initialize(environment, preschedule, outputs):
        st = o_init(environment, preschedule, outputs)
        rec.state = st
        rec.K = [[tnum(t) for t in c.nodes] for c in preschedule.components]
        return st

    def heur(state, tasks, workers, component_id):
        rec.on_heur_call(state, tasks, workers, component_id)
        return o_heur(state, tasks, workers, component_id)

    impl.has_computable, impl.assign, impl.plan, impl.initialize, asg._assignment_heuristic = has_computable, assign, plan, initialize, heur
    try:
        yield rec
    finally:
        impl.has_computable, impl.assign, impl.plan, impl.initialize, asg._assignment_heuristic = o_hc, o_assign, o_plan, o_init, o_heur


def run_case(spec, seed, mode):
    """sched_common.run_case with the heuristic recorder installed; result gets r['heur']"""
    rec = Recorder(spec)
    with recording(rec):
        r = sc.run_case(spec, seed, mode)
    r["heur"] = rec
    return r


def aligned(r):
    """the recorded loop iterations can be paired with the rounds of the trace: every iteration but the
    last one waited (an iteration that does not wait is merged with its successor by FakeCluster; that only
    happens in runs that already fall under the reordered-publications finding)"""
    rec = r["heur"]
    if rec.K is None or r["outcome"] not in ("ok", "deadlock"):
        return False
    n = len(r["rounds"])
    if r["outcome"] == "ok":
        return len(rec.iters) == n + 1 and all(rd["waited"] for rd in r["rounds"][:-1])
    return len(rec.iters) == n and all(rd["waited"] for rd in r["rounds"])


# ----------------------------------------------------------------------------- Coq emission
def c_snap(sn):
    cs = clist(sn["cs"], lambda p: f"({clist(p[0], cN)}, {cZ(p[1])})")
    h2c = clist(sn["h2c"], lambda p: f"({cN(p[0])}, {copt(p[1], cnat)})")
    return f"{{| sn_cs := {cs}; sn_h2c := {h2c}; sn_idle := {clist(sn['idle'], cN)}; sn_count := {cN(sn['computable'])} |}}"


def c_orc(it, rd):
    sn = it["snap"]
    tasks = [t for c in sn["cs"] for t in c[0]]
    match = sorted(p for p, m in it["match"].items() if m)
    key = sorted(it["key"].items())
    prio = [(l[1], l[2]) for l in rd["ctl"] if l[0] == "assign"]
    pr = lambda p: f"({cN(p[0])}, {cN(p[1])})"
    return ("{| ol_workers := " + clist(sn["idle"], cN) + "; ol_tasks := " + clist(tasks, cN) +
            "; ol_match := " + clist(match, pr) +
            "; ol_key := " + clist(key, lambda kv: f"({pr(kv[0])}, ({cN(kv[1][0])}, {cN(kv[1][1])}))") +
            "; ol_prio := " + clist(prio, pr) + " |}")


def c_case(r):
    """term of type hcase = job * env * list (list N) * list hround * option hsnap * bool"""
    rec, cl = r["heur"], r["cluster"]
    hrs = []
    for it, rd in zip(rec.iters, r["rounds"]):
        hrs.append("{| hr_snap := " + c_snap(it["snap"]) + "; hr_orc := " + c_orc(it, rd) + "; hr_round := " + sc.c_round(rd) + " |}")
    final = rec.iters[len(r["rounds"])]["snap"] if len(rec.iters) > len(r["rounds"]) else None
    return (f"({sc.c_job(r['spec'], cl.key, cl.none_ds)}, {sc.c_env(r['spec'])}, " + clist(rec.K, lambda ns: clist(ns, cN)) + ", " +
            clist(hrs) + ", " + ("(@None hsnap)" if final is None else copt(final, c_snap)) + ", " + ("true" if sc.in_order(r) else "false") + ")")


CHECKER = "check_heur"


def run_part(ctx, res, n, gen, max_tasks=10, modes=("fifo", "batchy", "shuffle", "newest"), cases=None, shard=40, tag="heur"):
    """additional part of C03: n runs of the real controller with the heuristic recorder; Coq recomputes the
    assignments of every round and compares the scheduling state at every loop guard"""
    from common import coq_build, coq_results, coq_print
    ok, log = coq_build("theories/Sched/HeurCheck.vo", force=False)
    if not ok:
        res.disagree("Sched/HeurCheck.vo does not build: " + log[-600:], {})
        return
    rng = ctx.sub_rng("heur")
    terms, metas = [], []
    skipped = 0

    def generated():
        for i in range(n):
            yield gen(rng, max_tasks=max_tasks), modes[i % len(modes)], rng.randrange(2**31)
    for spec, mode, seed in (cases if cases is not None else generated()):
        r = run_case(spec, seed, mode)
        res.evaluations += 1
        res.count(f"heur:mode:{mode}")
        cj = sc.case_json(r)
        for sig, what in r["heur"].problems:
            # the per-round oracle of Sched/Heur.v cannot represent this run: a limit of the model, not a failure of C03
            res.disagree(f"{sig}: {what}", cj)
        if not aligned(r):
            skipped += 1
            res.count("heur:not-aligned(" + r["outcome"] + ")")
            continue
        rounds_with_choice = sum(1 for it in r["heur"].iters if it["calls"] > 0)
        res.count("heur:assign-calls:" + ("0" if rounds_with_choice == 0 else "1-3" if rounds_with_choice <= 3 else ">3"))
        ncomp = len(r["heur"].K)
        res.count("heur:components:" + (str(ncomp) if ncomp <= 3 else ">3"))
        terms.append(c_case(r))
        metas.append(cj)
    results, logs = coq_results("C03", HEADER, terms, CHECKER, shard=shard, tag=tag)
    res.corr_checked += len(results)
    prev = res.extra.get("heuristic_correspondence", {})
    now = {"runs": len(terms), "rounds": sum(t.count("hr_snap") for t in terms), "skipped_not_aligned": skipped}
    res.extra["heuristic_correspondence"] = {k: prev.get(k, 0) + v for k, v in now.items()}
    for okk, term, cj in zip(results, terms, metas):
        if okk is not True:
            why = ""
            if okk is False:
                why = coq_print("C03", HEADER, "dbg_heur " + term, tag="heurdbg")[-900:]
            res.disagree("Coq model of the assignment heuristic (Sched/Heur.v) and the real cascade.scheduler.api.assign differ: " +
                         (why or (logs[0][-500:] if logs else "")), cj)
            break
