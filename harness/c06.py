"""C06 -- acknowledged messaging delivers each message exactly once despite loss or dups.

The REAL cascade.executor.comms.Listener / ReliableSender, the REAL loop body of
Bridge.recv_events (controller) and of Executor.recv_loop (executors) are driven in-process over a
fake `zmq` module and a fake clock patched into cascade.executor.comms (harness/fakes/zmq_fake.py).
Nothing reaches a socket unless the driver delivers it: every packet (data or Ack) can be dropped,
duplicated, delayed and reordered; loops of the endpoints and clock ticks interleave arbitrarily.

* oracle: a direct reading of the property on what the implementation does (independent of the
  model): at most once, only at the destination, acknowledged => delivered, an expired record is
  resent (or the sender raises) by the next loop iteration, a raise only after max retries,
  never more than 1+max transmissions; malformed multipart messages are never delivered.
* correspondence: the same operation lists are run by the Coq model (Net/Reliable.v) and the whole
  observable end state (queues, wire log, acked sets, inflight records, delivered lists, error
  kind) is compared inside Coq (Net/ReliableCheck.v)."""
import hashlib
import logging
import pickle

from common import cN, cZ, cbool, clist, cnat, copt, cpair, cstr, coq_results
from fakes.zmq_fake import Net, StopLoop

TRUSTED = [
    "harness/fakes/zmq_fake.py: PUSH send = append to a pool, PULL recv = pop of a FIFO filled only by the driver, poll never sleeps, "
    "clock moves only by explicit ticks; one loop iteration is cut out of the real while-loops by bounding the number of blocking polls",
    "Bridge / Executor objects are built with object.__new__ and stub collaborators (no processes, no shm, Bridge.shutdown and "
    "Executor.terminate recorded instead of executed, heartbeat watchers never breach); executor.callback (delivery to workers / data "
    "server) is recorded",
    "pickle.loads/dumps of message objects is in the loop on the implementation side; frames are mapped to the model's abstract frames "
    "by their unpickled class and fields (address and host names -> numbers, injective)",
]
ASSUMPTIONS = [
    "the network carries only what endpoints sent: it may drop, duplicate, delay and reorder whole multipart messages, it does not corrupt or forge them "
    "(forged / malformed multipart messages are covered separately by the framing theorems and the _recv_one stream)",
    "one ReliableSender per Listener address, never restarted (idx would restart at 0 and be suppressed as duplicates); hosts are not removed while messages are in flight "
    "(maybe_retry skips records whose host was popped at shutdown)",
    "the application never hands a Syn or a bare payload header to ReliableSender.send; 1 <= max_retries_per_message",
    "a raise that leaves a loop body ends the trace (Bridge: shutdown + ValueError; Executor: ExecutorFailure + terminate); messages already taken from "
    "the socket by the same recv_messages call are then not handed over -- the run has failed loudly",
    "healthcheck / heartbeat traffic of the executor loop is not modelled (stubbed out)",
]

HEADER = """From Coq Require Import List NArith ZArith String.
From EKW Require Import Net.Frames Net.Reliable Net.ReliableCheck.
Import ListNotations.
Open Scope string_scope.
"""

CTRL = "tcp://ctrl:5555"
A_CTRL = 1


def a_exec(i):
    return 10 + i


def exec_addr(i):
    return f"tcp://exec{i}:6000"


H_CTRL = 100  # host id "controller" in an executor's sender


# ----------------------------------------------------------------------------- frames <-> abstract frames
def classify_exc(e):
    if isinstance(e, ValueError) and e.args and isinstance(e.args[0], BaseException):
        e = e.args[0]
    s = e if isinstance(e, str) else f"{type(e).__name__}: {e}"
    table = [
        ("unexpected empty message", "empty"), ("unexpected message with Syn only", "syn-only"),
        ("first message was payload header", "hdr-len2"), ("expected len 1 but gotten", "plain-len1"),
        ("unexpected double Syn", "double-syn"), ("second message was payload header", "hdr-len3"),
        ("to equal 2", "plain-len2"), ("retried too many times", "retried too many times"),
    ]
    for pat, k in table:
        if pat in s:
            return k
    if s.startswith("TypeError"):
        return "TypeError"
    if s.startswith("KeyError"):
        return "KeyError"
    if any(s.startswith(p) for p in ("UnpicklingError", "EOFError", "_pickle.UnpicklingError", "pickle.UnpicklingError", "ValueError: unsupported pickle", "IndexError", "AttributeError", "ModuleNotFoundError", "UnicodeDecodeError")):
        return "unpickle"
    return "other:" + s[:60]


class Codec:
    """abstract frame <-> bytes"""

    def __init__(self, addr2n):
        self.addr2n = dict(addr2n)
        self.n2addr = {v: k for k, v in self.addr2n.items()}
        self.cache = {}

    def enc(self, f):
        from cascade.executor import msg as M
        from cascade.low.core import DatasetId
        t = f[0]
        if t == "syn":
            return pickle.dumps(M.Syn(idx=f[1], addr=self.n2addr[f[2]]))
        if t == "hdr":
            return pickle.dumps(M.DatasetTransmitPayloadHeader(confirm_address="x", confirm_idx=f[1], ds=DatasetId("t", "o"), deser_fun="f"))
        if t == "ack":
            return pickle.dumps(M.Ack(idx=f[1]))
        if t == "app":
            return pickle.dumps(M.DatasetPurge(ds=DatasetId(f"t{f[1]}", "o")))
        if t == "junk":
            return b"\xff\x00junk%d" % f[1]
        raise ValueError(f)

    def dec(self, b):
        r = self.cache.get(b)
        if r is None:
            if b.startswith(b"\xff\x00junk"):
                r = ("junk", int(b[6:]))
            else:
                r = self.dec_msg(pickle.loads(b))
            self.cache[b] = r
        return r

    def dec_msg(self, m):
        from cascade.executor import msg as M
        if isinstance(m, M.Syn):
            return ("syn", m.idx, self.addr2n[m.addr])
        if isinstance(m, M.DatasetTransmitPayloadHeader):
            return ("hdr", m.confirm_idx)
        if isinstance(m, M.Ack):
            return ("ack", m.idx)
        if isinstance(m, M.DatasetPurge):
            return ("app", int(m.ds.task[1:]))
        if isinstance(m, M.DatasetPublished):
            return ("app", int(m.ds.task[1:]))
        if isinstance(m, M.TaskSequence):
            return ("app", int(m.tasks[0][1:]))
        if isinstance(m, M.ExecutorFailure):
            return ("failure", m.detail)
        raise ValueError(f"unexpected message on the wire: {m!r}")


def c_frame(f):
    t = f[0]
    if t == "syn":
        return f"FSyn {cN(f[1])} {cN(f[2])}"
    if t == "hdr":
        return f"FHdr {cN(f[1])}"
    if t == "ack":
        return f"FMsg (MAck {cN(f[1])})"
    if t == "app":
        return f"FMsg (MApp {cN(f[1])})"
    if t == "junk":
        return f"FJunk {cN(f[1])}"
    raise ValueError(f)


def c_frames(fs):
    return clist(fs, c_frame)


def c_packet(p):
    return cpair(cN(p[0]), c_frames(p[1]))


def c_key(k):
    return cpair(cN(k[0]), cN(k[1]))


def c_parsed(p):
    if p[0] == "msg":
        return "PMsg (MAck %s)" % cN(p[1][1]) if p[1][0] == "ack" else "PMsg (MApp %s)" % cN(p[1][1])
    return f"PPayload {cN(p[1])} ({c_frame(p[2])})"


def c_op(o):
    t = o[0]
    if t == "send":
        return f"OSend {cN(o[1])} {cN(o[2])} {cN(o[3])}"
    if t == "deliver":
        return f"ODeliver {cnat(o[1])}"
    if t == "drop":
        return f"ODrop {cnat(o[1])}"
    if t == "dup":
        return f"ODup {cnat(o[1])}"
    if t == "tick":
        return f"OTick {cZ(o[1])}"
    if t == "loop":
        return f"OLoop {cN(o[1])}"
    raise ValueError(o)


# ----------------------------------------------------------------------------- the real code over the fakes
class _Stub:
    exitcode = None
    pid = 0

    def is_alive(self):
        return False

    def join(self, *a):
        pass

    def step(self):
        pass

    def is_breach(self):
        return 0

    def elapsed_ms(self):
        return 0


class OracleFailure(Exception):
    def __init__(self, signature, what):
        self.signature, self.what = signature, what


class Sim:
    """One controller and n executors built from the real classes."""

    def __init__(self, setup):
        import cascade.executor.bridge as bridgemod
        import cascade.executor.comms as comms
        import cascade.executor.executor as exmod
        self.comms, self.exmod, self.bridgemod = comms, exmod, bridgemod
        self.setup = setup
        n_exec, graces_ms, mx = setup["n_exec"], setup["grace_ms"], setup["max"]
        self.net = Net()
        self.net.now_ns = setup["t0"]
        self._saved = (comms.zmq, comms.time, comms.max_retries_per_message, exmod.callback)
        comms.zmq = self.net.module()
        comms.time = self.net.clock_module()
        comms.max_retries_per_message = mx
        self.mx = mx
        addr2n = {CTRL: A_CTRL}
        for i in range(n_exec):
            addr2n[exec_addr(i)] = a_exec(i)
        self.codec = Codec(addr2n)
        self.delivered = {a: [] for a in addr2n.values()}   # app message ids handed to the application, in order
        self.sent = {}                                      # k -> (sender addr n, dest addr n)
        self.send_idx = {}                                  # k -> (sender addr n, idx)
        self.raised = None
        self.failures = []
        self.stats = {"retries": 0, "dups_suppressed": 0, "acks": 0}
        # controller
        b = object.__new__(bridgemod.Bridge)
        b.mlistener = comms.Listener(CTRL)
        b.heartbeat_checker = {}
        b.transmit_idx_counter = 0
        b.sender = comms.ReliableSender(CTRL, graces_ms[0])
        b.environment = None
        b.shutdown = lambda: None
        self.bridge = b
        # executors
        sim = self

        class OneIterationExecutor(exmod.Executor):
            """`terminating` is a plain flag; one iteration = the loop is left (StopLoop, a BaseException)
            when it asks the listener for messages a second time, however often the body reads the flag"""
            @property
            def terminating(self):
                return self._term

            @terminating.setter
            def terminating(self, v):
                self._term = v

            def terminate(self):
                self._term = True

            def recv_loop(self):
                real = self.mlistener.recv_messages
                calls = [0]

                def once(*a, **k):
                    calls[0] += 1
                    if calls[0] > self._iters:
                        raise StopLoop()
                    return real(*a, **k)
                self.mlistener.recv_messages = once
                try:
                    return exmod.Executor.recv_loop(self)
                finally:
                    del self.mlistener.recv_messages

        self.execs = []
        for i in range(n_exec):
            from cascade.low.core import WorkerId
            ex = object.__new__(OneIterationExecutor)
            ex._term, ex._iters = False, 0
            ex.host = f"h{i}"
            ex.workers = {WorkerId(f"h{i}", "w0"): _Stub()}
            ex.datasets = set()
            ex.heartbeat_watcher = _Stub()
            ex.mlistener = comms.Listener(exec_addr(i))
            ex.sender = comms.ReliableSender(exec_addr(i), graces_ms[1 + i])
            ex.sender.add_host("controller", CTRL)
            ex.daddress = f"tcp://data{i}:6001"
            ex.shm_process, ex.data_server = _Stub(), _Stub()
            ex.registration = None
            b.sender.add_host(f"h{i}", exec_addr(i))
            self.execs.append(ex)
        self.cur_exec = None

        def recording_callback(address, m):
            from cascade.executor import msg as M
            ex = sim.cur_exec
            n = a_exec(sim.execs.index(ex))
            if isinstance(m, M.TaskSequence) or (isinstance(m, M.DatasetPurge) and address == ex.daddress):
                sim.delivered[n].append(sim.codec.dec_msg(m)[1])

        exmod.callback = recording_callback
        self.kcount = 0

    def close(self):
        self.comms.zmq, self.comms.time, self.comms.max_retries_per_message, self.exmod.callback = self._saved

    # ---- helpers
    def endpoint(self, n):
        return self.bridge if n == A_CTRL else self.execs[n - 10]

    def grace_ns(self, n):
        return self.endpoint(n).sender.resend_grace

    def eps_desc(self):
        out = [(A_CTRL, [(i, a_exec(i)) for i in range(len(self.execs))], self.bridge.sender.resend_grace, True, False)]
        for i, ex in enumerate(self.execs):
            out.append((a_exec(i), [(H_CTRL, A_CTRL)], ex.sender.resend_grace, True, True))
        return out

    def wire_count(self, sender_n, idx):
        c = 0
        for _, frames in self.net.wire:
            f0 = self.codec.dec(frames[0])
            if f0[0] == "syn" and f0[1] == idx and f0[2] == sender_n:
                c += 1
        return c

    def fail(self, signature, what):
        self.failures.append((signature, what))

    # ---- operations
    def apply(self, op):
        """returns None or the error kind raised out of the loop body"""
        from cascade.executor import msg as M
        from cascade.low.core import DatasetId, WorkerId
        net = self.net
        t = op[0]
        if t == "send":
            _, a, h, k = op
            ds = DatasetId(f"t{k}", "o")
            if a == A_CTRL:
                dst = a_exec(h)
                if k % 2 == 0:
                    self.execs[h].datasets.add(ds)
                    self.bridge.purge(f"h{h}", ds)
                else:
                    self.bridge.task_sequence(M.TaskSequence(worker=WorkerId(f"h{h}", "w0"), tasks=[f"t{k}"], publish=set()))
            else:
                dst = A_CTRL
                ex = self.execs[a - 10]
                ex.to_controller(M.DatasetPublished(origin=ex.host, ds=ds, transmit_idx=None))
            self.sent[k] = (a, dst)
            self.send_idx[k] = (a, self.endpoint(a).sender.idx - 1)
        elif t == "deliver":
            net.deliver(op[1])
        elif t == "drop":
            net.drop(op[1])
        elif t == "dup":
            net.dup(op[1])
        elif t == "tick":
            net.tick(op[1])
        elif t == "loop":
            return self.loop(op[1])
        else:
            raise ValueError(op)
        return None

    def loop(self, n):
        net = self.net
        ep = self.endpoint(n)
        before = {i: r.at for i, r in ep.sender.inflight.items()}
        my_addr = self.codec.n2addr[n]
        queued_before = [list(fr) for fr in net.inbox.get(my_addr, [])]
        watermark = net.now_ns - ep.sender.resend_grace
        wire_before = len(net.wire)
        net.block_budget = 1
        raised = None
        if n == A_CTRL:
            try:
                evs = ep.recv_events()
                for e in evs:
                    self.delivered[n].append(self.codec.dec_msg(e)[1])
            except StopLoop:
                pass
            except ValueError as e:
                raised = classify_exc(e)
        else:
            self.cur_exec = ep
            ep._iters = 1
            try:
                ep.recv_loop()
            except StopLoop:
                pass
            if ep._term:
                last = self.codec.dec(net.wire[-1][1][-1])
                raised = classify_exc(last[1]) if last[0] == "failure" else "other:terminated"
        net.block_budget = None
        new_wire = net.wire[wire_before:]
        resent = set()
        for _, frames in new_wire:
            f0 = self.codec.dec(frames[0])
            if f0[0] == "syn" and f0[2] == n and len(frames) == 2 and self.codec.dec(frames[1])[0] == "app":
                resent.add(f0[1])
                self.stats["retries"] += 1
            elif f0[0] == "ack":
                self.stats["acks"] += 1
        if raised is None:
            consumed = queued_before[:len(queued_before) - len(net.inbox.get(my_addr, []))]
            acks_sent = [(self.codec.addr2n[a], self.codec.dec(fr[0])[1]) for a, fr in new_wire if len(fr) == 1 and self.codec.dec(fr[0])[0] == "ack"]
            for fr in consumed:
                f0 = self.codec.dec(fr[0])
                if f0[0] == "syn" and len(fr) >= 2:
                    # oracle (g): every received copy of a Syn-prefixed message is acknowledged (else one lost Ack makes the sender give up on a delivered message)
                    if (f0[2], f0[1]) in acks_sent:
                        acks_sent.remove((f0[2], f0[1]))
                    else:
                        self.fail("received-not-acknowledged", f"endpoint {n} took Syn(idx={f0[1]}, addr={f0[2]}) from its socket without sending an Ack")
                elif f0[0] == "ack" and f0[1] in ep.sender.inflight:
                    # oracle (h): an Ack handed to the loop ends the retries of that message
                    self.fail("ack-ignored", f"endpoint {n} received Ack(idx={f0[1]}) but still holds the message in flight")
        # oracle (c): every record that had expired when the iteration started was acknowledged in it, resent, or the sender raised
        if raised is None:
            for i, at in before.items():
                if at < watermark and i in ep.sender.inflight and i not in resent:
                    self.fail("expired-message-not-retried",
                              f"endpoint {n}: message idx={i} unacknowledged for {net.now_ns - at} ns (> grace {ep.sender.resend_grace}) was neither resent nor reported by the receive loop")
        else:
            self.raised = (n, raised)
            if raised == "retried too many times":
                # oracle (d): only after the full retry budget
                if not any(self.wire_count(n, i) >= self.mx + 1 for i in before):
                    self.fail("premature-give-up", f"endpoint {n} gave up before any message was transmitted {self.mx + 1} times")
            else:
                self.fail("unexpected-raise", f"endpoint {n} loop raised {raised} on a network that only drops/duplicates/delays")
        return raised

    # ---- oracle on the current state (a), (b), (e)
    def check_state(self):
        seen = {}
        for n, ks in self.delivered.items():
            for k in ks:
                if k not in self.sent:
                    self.fail("delivered-unsent", f"endpoint {n} was handed message {k} which nobody sent")
                    continue
                if k in seen:
                    self.fail("delivered-twice", f"message {k} handed to the application twice (endpoints {seen[k]} and {n})")
                seen[k] = n
                if self.sent[k][1] != n:
                    self.fail("delivered-elsewhere", f"message {k} for endpoint {self.sent[k][1]} handed to endpoint {n}")
        if self.raised is None:
            for k, (a, dst) in self.sent.items():
                _, idx = self.send_idx[k]
                if idx not in self.endpoint(a).sender.inflight and k not in seen:
                    self.fail("acknowledged-but-not-delivered", f"message {k} (sender {a} idx {idx}) is no longer in flight but was never handed to endpoint {dst}")
        for k, (a, idx) in self.send_idx.items():
            c = self.wire_count(a, idx)
            if c > self.mx + 1:
                self.fail("unbounded-retries", f"message {k} transmitted {c} times > 1 + max_retries {self.mx}")

    # ---- observation for the correspondence
    def observe(self):
        if self.raised is not None:
            return ("err", self.raised[1])
        d = self.codec.dec
        eps = []
        for n in sorted(self.delivered):
            ep = self.endpoint(n)
            inbox = [[d(f) for f in fr] for fr in self.net.inbox.get(self.codec.n2addr[n], [])]
            acked = sorted((getattr(s, 'idx', s if isinstance(s, int) else 0), self.codec.addr2n.get(getattr(s, 'addr', None), 0)) for s in ep.mlistener.acked)
            infl = []
            for i, r in ep.sender.inflight.items():
                h = H_CTRL if r.host == "controller" else int(r.host[1:])
                infl.append((i, h, [d(f) for f in r.message], r.at, r.remaining))
            eps.append((n, inbox, acked, ep.sender.idx, infl, list(self.delivered[n])))
        pool = [(self.codec.addr2n[a], [d(f) for f in fr]) for a, fr in self.net.pool]
        wire = [(self.codec.addr2n[a], [d(f) for f in fr]) for a, fr in self.net.wire]
        return ("ok", self.net.now_ns, pool, wire, eps)


def c_obs(o):
    if o[0] == "err":
        return f"ObsErr {cstr(o[1])}"
    _, now, pool, wire, eps = o
    es = []
    for n, inbox, acked, idx, infl, dlog in eps:
        ci = clist(infl, lambda r: cpair(cN(r[0]), f"mkRec {cN(r[1])} {c_frames(r[2])} {cZ(r[3])} {cZ(r[4])}"))
        es.append(f"EPO {cN(n)} {clist(inbox, c_frames)} {clist(acked, c_key)} {cN(idx)} {ci} {clist(dlog, lambda k: 'PMsg (MApp %s)' % cN(k))}")
    return f"ObsOk {cZ(now)} {clist(pool, c_packet)} {clist(wire, c_packet)} {clist(es)}"


def c_case(setup_desc, mx, t0, ops, o):
    eps = clist(setup_desc, lambda e: f"EP {cN(e[0])} {clist(e[1], lambda p: cpair(cN(p[0]), cN(p[1])))} {cZ(e[2])} {cbool(e[3])} {cbool(e[4])}")
    return f"({eps}, {cZ(mx)}, {cZ(t0)}, {clist(ops, c_op)}, {c_obs(o)})"


# ----------------------------------------------------------------------------- generator (adaptive: it sees the pool size)
def gen_setup(rng):
    n_exec = rng.choice([1, 1, 2, 2, 3])
    graces = [rng.choice([800, 800, 500, 1000, 1]) for _ in range(1 + n_exec)]
    mx = rng.choice([20, 20, 3, 2, 4, 1, 6, 5, 8])
    return {"n_exec": n_exec, "grace_ms": graces, "max": mx, "t0": rng.choice([0, 1_000_000_000, 1_726_000_000_000_000_000])}


def is_data(sim, pkt):
    return len(pkt[1]) == 2


def run_trace(rng, setup, scenario, length):
    """drives the implementation, returns (sim, ops)"""
    sim = Sim(setup)
    ops = []
    n_exec = setup["n_exec"]
    ends = [A_CTRL] + [a_exec(i) for i in range(n_exec)]

    def do(op):
        ops.append(op)
        r = sim.apply(op)
        return r

    def send_random():
        k = sim.kcount
        sim.kcount += 1
        if rng.random() < 0.5:
            return do(("send", A_CTRL, rng.randrange(n_exec), k))
        return do(("send", a_exec(rng.randrange(n_exec)), H_CTRL, k))

    def tick():
        g = sim.grace_ns(rng.choice(ends))
        d = rng.choice([g + 1, g, g - 1, g // 2, 2 * g, 1, 3 * g + 7, g + rng.randrange(1, 1000)])
        return do(("tick", max(d, 0)))

    p_drop, p_dup = {"mixed": (0.15, 0.15), "lossy": (0.5, 0.1), "dups": (0.05, 0.5), "clean": (0.0, 0.0), "blackhole": (0.1, 0.1), "ackloss": (0.0, 0.1)}[scenario]
    victim = rng.choice(ends)  # blackhole: nothing ever reaches the victim; ackloss: every Ack is dropped for the first half
    raised = None
    for step in range(length):
        if raised:
            break
        x = rng.random()
        pool = sim.net.pool
        if x < 0.22 and (scenario != "blackhole" or len(sim.sent) < 3):
            raised = send_random()
        elif x < 0.62 and pool:
            i = rng.randrange(len(pool)) if rng.random() < 0.5 else 0
            dstn = sim.codec.addr2n[pool[i][0]]
            y = rng.random()
            if scenario == "blackhole" and dstn == victim:
                do(("drop", i))
            elif scenario == "ackloss" and len(pool[i][1]) == 1 and step < length // 2:
                do(("drop", i))
            elif y < p_drop:
                do(("drop", i))
            elif y < p_drop + p_dup:
                do(("dup", i))
            else:
                do(("deliver", i))
        elif x < 0.80:
            raised = tick()
        else:
            raised = do(("loop", rng.choice(ends)))
    # closing phase: blackhole keeps dropping until somebody gives up; every other scenario heals
    rounds = 0
    while not raised and rounds < 3 * setup["max"] + 8:
        rounds += 1
        for _half in range(2):
            while sim.net.pool and not raised:
                dstn = sim.codec.addr2n[sim.net.pool[0][0]]
                if scenario == "blackhole" and dstn == victim:
                    do(("drop", 0))
                else:
                    do(("deliver", 0))
            for n in ends:
                for _ in range(2):
                    if not raised:
                        raised = do(("loop", n))
        quiet = not sim.net.pool and all(not sim.endpoint(n).sender.inflight for n in ends) and not any(sim.net.inbox.get(a) for a in sim.codec.addr2n)
        if quiet or raised:
            break
        do(("tick", max(sim.grace_ns(n) for n in ends) + 1))
    sim.check_state()
    if not raised:
        if scenario == "blackhole":
            stuck = [k for k, (a, dst) in sim.sent.items() if dst == victim and k not in sim.delivered[victim]]
            if stuck:
                sim.fail("undeliverable-never-reported", f"messages {stuck} to unreachable endpoint {victim}: no sender raised after {rounds} rounds of expired grace periods")
        else:
            for k, (a, dst) in sim.sent.items():
                if sim.delivered[dst].count(k) != 1:
                    sim.fail("not-delivered-after-heal", f"message {k} from {a} to {dst} delivered {sim.delivered[dst].count(k)} times although the network delivered everything for {rounds} rounds")
    return sim, ops


def replay_ops(setup, ops):
    sim = Sim(setup)
    try:
        for op in ops:
            op = tuple(op)
            if op[0] in ("deliver", "drop", "dup") and not (0 <= op[1] < len(sim.net.pool)):
                sim.fail("replay-diverged", f"{op} with pool of {len(sim.net.pool)}")
                break
            sim.kcount = max(sim.kcount, op[3] + 1) if op[0] == "send" else sim.kcount
            if sim.apply(op):
                break
        sim.check_state()
    finally:
        sim.close()
    return sim


# ----------------------------------------------------------------------------- malformed / arbitrary multipart messages through _recv_one
def gen_frames(rng):
    def fr():
        x = rng.random()
        if x < 0.3:
            return ("syn", rng.randrange(3), rng.choice([A_CTRL, a_exec(0)]))
        if x < 0.5:
            return ("hdr", rng.randrange(4))
        if x < 0.7:
            return ("app", rng.randrange(5))
        if x < 0.8:
            return ("ack", rng.randrange(3))
        return ("junk", rng.randrange(3))
    shape = rng.random()
    if shape < 0.45:   # legal shapes
        s = rng.choice(["p", "hv", "sp", "shv"])
        out = []
        if s[0] == "s":
            out.append(("syn", rng.randrange(3), rng.choice([A_CTRL, a_exec(0)])))
        if "h" in s:
            out += [("hdr", rng.randrange(4)), fr()]
        else:
            out.append(rng.choice([("app", rng.randrange(5)), ("ack", rng.randrange(3))]))
        return out
    return [fr() for _ in range(rng.choice([0, 1, 1, 2, 2, 3, 3, 4]))]


def legal_meaning(fs):
    """the property's reading: which message a frame list denotes, or None if malformed"""
    body = fs[1:] if fs and fs[0][0] == "syn" else fs
    if len(body) == 1 and body[0][0] in ("app", "ack"):
        return ("msg", body[0])
    if len(body) == 2 and body[0][0] == "hdr":
        return ("payload", body[0][1], body[1])
    return None


def frame_verdicts(fs, pre, o):
    """oracle: a message is handed over only for a legal frame list and then it is exactly the denoted one; a malformed
    list is never delivered, and is an error unless it is suppressed as a duplicate Syn; a Syn-prefixed message is acknowledged"""
    out = []
    meaning = legal_meaning(fs)
    is_dup = bool(fs) and fs[0][0] == "syn" and (fs[0][1], fs[0][2]) in pre
    if o[0] == "ret" and o[1] is not None and o[1] != meaning:
        out.append(("malformed-delivered", f"_recv_one({fs}) returned {o[1]}, the frames denote {meaning}"))
    if meaning is None and o[0] == "ret" and not (o[1] is None and is_dup):
        out.append(("malformed-not-rejected", f"_recv_one({fs}) returned {o[1]} without error"))
    if meaning is not None and not is_dup and (o[0] != "ret" or o[1] != meaning):
        out.append(("legal-frames-not-delivered", f"_recv_one({fs}) gave {o}, expected {meaning}"))
    if meaning is not None and is_dup and not (o[0] == "ret" and o[1] is None):
        out.append(("duplicate-not-suppressed", f"_recv_one({fs}) with Syn already acked gave {o}"))
    if fs and fs[0][0] == "syn" and len(fs) >= 2 and o[0] == "ret" and o[2] != [(fs[0][2], [("ack", fs[0][1])])]:
        out.append(("syn-not-acknowledged", f"_recv_one({fs}) sent acks {o[2]}"))
    return out


def recv_one_observe(lst, net, codec, fs, pre):
    from cascade.executor import msg as M
    lst.acked = {M.Syn(idx=i, addr=codec.n2addr[a]) for i, a in pre}
    net.pool.clear()
    net.inbox["tcp://me:1"].clear()
    net.inbox["tcp://me:1"].append([codec.enc(f) for f in fs])
    try:
        r = lst._recv_one(0)
        if r is None:
            ret = None
        elif isinstance(r, M.DatasetTransmitPayload):
            ret = ("payload", codec.dec_msg(r.header)[1], codec.dec(r.value))
        else:
            ret = ("msg", codec.dec_msg(r))
        acks = [(codec.addr2n[a], [codec.dec(f) for f in fr]) for a, fr in net.pool]
        acked = sorted((s.idx, codec.addr2n[s.addr]) for s in lst.acked)
        return ("ret", ret, acks, acked)
    except Exception as e:
        return ("err", classify_exc(e))


def frames_part(ctx, res):
    import cascade.executor.comms as comms
    from cascade.executor import msg as M
    rng = ctx.sub_rng("frames")
    n = ctx.n(1500, 20000)
    terms, cases = [], []
    net = Net()
    saved = (comms.zmq, comms.time)
    comms.zmq, comms.time = net.module(), net.clock_module()
    try:
        codec = Codec({CTRL: A_CTRL, exec_addr(0): a_exec(0), "tcp://me:1": 7})
        lst = comms.Listener("tcp://me:1")
        for _ in range(n):
            fs = gen_frames(rng)
            pre = set()
            for i in range(3):
                for a in (A_CTRL, a_exec(0)):
                    if rng.random() < 0.25:
                        pre.add((i, a))
            res.evaluations += 1
            o = recv_one_observe(lst, net, codec, fs, pre)
            meaning = legal_meaning(fs)
            is_dup = bool(fs) and fs[0][0] == "syn" and (fs[0][1], fs[0][2]) in pre
            case = {"part": "frames", "frames": [list(f) for f in fs], "pre": sorted(pre)}
            for sig, what in frame_verdicts(fs, pre, o)[:1]:
                res.fail(sig, what, case)
            res.count("frames:" + ("legal" if meaning else "malformed") + (":dup" if is_dup else ""))
            res.nontrivial_keys.add("F" + repr((fs, sorted(pre))))
            if o[0] == "err":
                co = f"RxErr {cstr(o[1])}"
            else:
                cp = "None" if o[1] is None else "(Some (%s))" % (c_parsed(("msg", o[1][1])) if o[1][0] == "msg" else f"PPayload {cN(o[1][1])} ({c_frame(o[1][2])})")
                co = f"RxRet {cp} {clist(o[2], c_packet)} {clist(o[3], c_key)}"
            terms.append(f"({clist(sorted(pre), c_key)}, {c_frames(fs)}, {co})")
            cases.append(case)
    finally:
        comms.zmq, comms.time = saved
    results, logs = coq_results("C06", HEADER, terms, "check_frames", shard=1000, tag="frames")
    for r, case in zip(results, cases):
        res.corr_checked += 1
        if r is not True:
            res.disagree("Listener._recv_one differs from Net.Reliable.recv_one" + ("" if r is False else " (coqc failed: %s)" % logs[:1]), case)
            break


# ----------------------------------------------------------------------------- entry points
SCENARIOS = ["mixed", "mixed", "lossy", "dups", "clean", "blackhole", "ackloss"]


def traces(ctx, res, n, tag, corr=True):
    rng = ctx.sub_rng(tag)
    terms, cases = [], []
    for t in range(n):
        setup = gen_setup(rng)
        scenario = rng.choice(SCENARIOS)
        length = rng.choice([10, 25, 40, 60])
        sim, ops = None, []
        try:
            sim, ops = run_trace(rng, setup, scenario, length)
        finally:
            if sim is not None:
                sim.close()
        res.evaluations += 1
        case = {"part": "trace", "setup": setup, "scenario": scenario, "ops": [list(o) for o in ops]}
        for sig, what in sim.failures[:1]:
            res.fail(sig, what, case)
        res.count("scenario:" + scenario)
        res.count("raised" if sim.raised else "completed")
        for o in ops:
            res.count("op:" + o[0])
        res.count("retransmissions", sim.stats["retries"])
        res.count("acks", sim.stats["acks"])
        faults = sum(1 for o in ops if o[0] in ("drop", "dup"))
        if faults and sim.stats["retries"]:
            res.nontrivial_keys.add(hashlib.sha1(repr((setup, ops)).encode()).hexdigest())
        if len(res.samples) < 3 and faults and sim.stats["retries"] and len(ops) < 40:
            res.samples.append({"setup": setup, "scenario": scenario, "ops": [list(o) for o in ops], "delivered": {str(k): v for k, v in sim.delivered.items()}, "raised": sim.raised})
        if corr:
            terms.append(c_case(sim.eps_desc(), setup["max"], setup["t0"], ops, sim.observe()))
            cases.append(case)
    if corr and terms:
        results, logs = coq_results("C06", HEADER, terms, "check_trace", shard=ctx.n(60, 150), tag=tag)
        for r, case in zip(results, cases):
            res.corr_checked += 1
            if r is not True:
                res.disagree("end state of the real Listener/ReliableSender/loops differs from Net.Reliable.run" + ("" if r is False else " (coqc failed: %s)" % logs[:1]), case)
                break


def run(ctx, res):
    logging.disable(logging.CRITICAL)
    res.rule = ("one case = one operation list (send in either direction / deliver / drop / dup / tick / one receive-loop iteration) run on the real "
                "Listener+ReliableSender+Bridge.recv_events+Executor.recv_loop over a fake zmq and clock, 1 controller and 1-3 executors, followed by a healing "
                "(or, for blackhole scenarios, a give-up) phase; distinct non-trivial = distinct operation list that contains at least one drop or dup and caused at "
                "least one retransmission; plus distinct (frames, acked set) inputs of Listener._recv_one (prefix F)")
    try:
        traces(ctx, res, ctx.n(500, 8000), "traces")
        frames_part(ctx, res)
    finally:
        logging.disable(logging.NOTSET)


def search(ctx, res):
    logging.disable(logging.CRITICAL)
    try:
        from common import Result
        r2 = Result()
        ctx2 = type(ctx)(ctx.pid, "thorough", ctx.seed + 1)
        traces(ctx2, r2, 6000, "search", corr=False)
        if r2.failures:
            return r2.failures[0]
    finally:
        logging.disable(logging.NOTSET)
    return None


def shrink(ctx, f):
    case = f.get("case", {})
    if case.get("part") != "trace":
        return f
    logging.disable(logging.CRITICAL)
    try:
        ops = [tuple(o) for o in case["ops"]]
        sig = f["signature"]

        def fails(os):
            try:
                s = replay_ops(case["setup"], os)
            except Exception:
                return None
            for g, what in s.failures:
                if g == sig:
                    return what
            return None
        if sig in ("not-delivered-after-heal", "undeliverable-never-reported") or not fails(ops):
            return f
        changed = True
        while changed:
            changed = False
            for i in range(len(ops) - 1, -1, -1):
                cand = ops[:i] + ops[i + 1:]
                if fails(cand):
                    ops, changed = cand, True
        return {"signature": sig, "what": fails(ops), "case": {**case, "ops": [list(o) for o in ops], "shrunk": True}}
    finally:
        logging.disable(logging.NOTSET)


def replay(ctx, case):
    logging.disable(logging.CRITICAL)
    try:
        c = case.get("case", case)
        sig = case.get("signature")
        if c.get("part") == "trace":
            s = replay_ops(c["setup"], c["ops"])
            fl = list(s.failures)
            if not fl and sig in ("not-delivered-after-heal", "undeliverable-never-reported"):
                # end-of-scenario verdicts: re-evaluate on the replayed end state
                if s.raised is None:
                    for k, (a, dst) in s.sent.items():
                        if s.delivered[dst].count(k) != 1:
                            fl.append((sig, f"message {k} delivered {s.delivered[dst].count(k)} times at the end of the recorded scenario"))
            return {"fails": bool(fl), "failures": fl[:3], "raised": s.raised, "delivered": {str(k): v for k, v in s.delivered.items()}}
        if c.get("part") == "frames":
            from common import Result
            import cascade.executor.comms as comms
            from cascade.executor import msg as M
            net = Net()
            saved = (comms.zmq, comms.time)
            comms.zmq, comms.time = net.module(), net.clock_module()
            try:
                codec = Codec({CTRL: A_CTRL, exec_addr(0): a_exec(0), "tcp://me:1": 7})
                lst = comms.Listener("tcp://me:1")
                fs = [tuple(x) for x in c["frames"]]
                pre = {tuple(x) for x in c["pre"]}
                o = recv_one_observe(lst, net, codec, fs, pre)
                v = frame_verdicts(fs, pre, o)
                return {"fails": bool(v), "failures": v[:3], "observed": repr(o)}
            finally:
                comms.zmq, comms.time = saved
        return {"fails": None, "note": "unknown case kind"}
    finally:
        logging.disable(logging.NOTSET)
