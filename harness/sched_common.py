"""Shared harness for the controller/scheduler family (C01-C04): job/cluster generators, an
in-process fake cluster behind the Bridge seam that mirrors coq/theories/Sched/Model.v step by
step, trace recording, property oracles on the trace, and emission of Coq replay cases."""
from __future__ import annotations

import signal

from common import cN, cbool, clist, cnat, copt

HEADER = """From stdpp Require Import gmap.
From Coq Require Import NArith String.
From EKW Require Import Sched.Model Sched.Lit Sched.Replay.
Local Open Scope N_scope.
"""


class Deadlock(Exception):
    pass


class Aborted(Exception):
    """a run cut short on purpose (an executor lost): used to leave caller-owned objects in a half-used state"""


class Spin(Exception):
    pass


# ----------------------------------------------------------------------------- generation
def gen_spec(rng, max_tasks=10, allow_empty=True):
    """A job/cluster description in plain Python data (JSON-able)."""
    n = rng.choice([0] if allow_empty and rng.random() < 0.03 else [1, 2, 3, 4, 5, 6, 8, max_tasks])
    n = min(n, max_tasks)
    ncomp_bias = rng.random()
    tasks = []
    for k in range(n):
        nout = rng.choice([1, 1, 1, 2, 2, 3, 4])
        ins = []
        if k > 0 and rng.random() > 0.25 * ncomp_bias + 0.1:
            for _ in range(rng.choice([1, 1, 2, 3])):
                src = rng.randrange(max(0, k - 4), k) if rng.random() < 0.7 else rng.randrange(k)
                ins.append((src, rng.randrange(min(tasks[src]["nout"], 4)) if rng.random() < 0.8 else rng.randrange(tasks[src]["nout"])))
        style = rng.random()
        if style < 0.5:
            names = [f"o{o}" for o in range(nout)]
        elif style < 0.75:
            names = ["mean", "std", "count", "max"][:nout]          # declared order is not the sorted order
        else:
            if rng.random() < 0.25:
                nout = rng.choice([11, 12])
            names = [str(o) for o in range(nout)]                    # "10" sorts before "2"
        if rng.random() < 0.5:
            rng.shuffle(names)
        static_kw = {f"k{i}": f"S{k}.{i}" for i in range(1, 2 * len(ins), 2) if rng.random() < 0.4}
        if rng.random() < 0.3:
            static_kw[f"extra{k}"] = k
        nps = (len(ins) + 1) // 2
        static_ps = {str(p): f"P{k}.{p}" for p in range(nps + 2) if rng.random() < 0.3}
        tasks.append({"nout": nout, "ins": ins, "gpu": rng.random() < 0.2, "none": [], "onames": names,
                      "static_kw": static_kw, "static_ps": static_ps})
    hosts = rng.choice([1, 1, 2, 2, 3, 4])
    workers = []
    for h in range(hosts):
        for w in range(rng.choice([1, 1, 2, 3])):
            workers.append({"host": h, "gpu": rng.random() < 0.3})
    if any(t["gpu"] for t in tasks) and not any(w["gpu"] for w in workers):
        rng.choice(workers)["gpu"] = True
    all_ds = [(k, o) for k, t in enumerate(tasks) for o in range(t["nout"])]
    consumed = {d for t in tasks for d in t["ins"]}
    ext = [d for d in all_ds if rng.random() < (0.5 if d not in consumed else 0.25)]
    return {"tasks": tasks, "workers": workers, "ext": ext}


def gen_wide_spec(rng):
    """scale: 64-110 source tasks feeding a thin fan-in layer (one or a few large components, so that many tasks are
    computable and many workers idle in the same round), on 63-90 workers: thresholds such as batch caps, queue sizes
    and round-robin wrap-arounds are never reached by the <= 10 task jobs"""
    nsrc = rng.choice([64, 65, 70, 96, 110])
    def task(ins, nout=1):
        return {"nout": nout, "ins": ins, "gpu": False, "none": [], "onames": [f"o{o}" for o in range(nout)], "static_kw": {}, "static_ps": {}}
    tasks = [task([]) for _ in range(nsrc)]
    ncomp = rng.choice([1, 1, 2, 3])
    nmid = rng.choice([1, 2, 4, 8])
    mids = []
    for m in range(nmid * ncomp):
        comp, j = m % ncomp, m // ncomp
        mine = [k for k in range(nsrc) if k % ncomp == comp and (k // ncomp) % nmid == j]
        if mine:
            mids.append((comp, len(tasks)))
            tasks.append(task([(k, 0) for k in mine], rng.choice([1, 2])))
    for comp in range(ncomp):
        tops = [(t, 0) for c, t in mids if c == comp]
        if len(tops) > 1:
            tasks.append(task(tops))
    hosts = rng.choice([1, 2, 4, 5])
    nw = rng.choice([63, 64, 65, 80, 90])
    workers = [{"host": i % hosts, "gpu": False} for i in range(nw)]
    ext = [(k, 0) for k in range(len(tasks)) if rng.random() < 0.05]
    return {"tasks": tasks, "workers": workers, "ext": ext}


def tname(k):
    return f"t{k}"


def oname(o):
    return f"o{o}"


def onames_sorted(t):
    """output names of a task spec in key-sorted order: index i of the model = i-th name here"""
    return sorted(t.get("onames") or [oname(o) for o in range(t["nout"])])


def dsid(spec, k, o):
    from cascade.low.core import DatasetId
    return DatasetId(tname(k), onames_sorted(spec["tasks"][k])[o])


def hname(h):
    return f"h{h}"


def build_job(spec, funcs=None, serdes=None):
    from cascade.low.core import DatasetId, Environment, JobInstance, Task2TaskEdge, TaskDefinition, TaskInstance, Worker, WorkerId
    tasks, edges = {}, []
    for k, t in enumerate(spec["tasks"]):
        declared = t.get("onames") or [oname(o) for o in range(t["nout"])]
        d = TaskDefinition(entrypoint="" if funcs else "verif.none", func=TaskDefinition.func_enc(funcs[k]) if funcs else None,
                           environment=[], input_schema={}, output_schema={n: "Any" for n in declared}, needs_gpu=t["gpu"])
        tasks[tname(k)] = TaskInstance(definition=d, static_input_kw=dict(t.get("static_kw", {})) if funcs else {},
                                       static_input_ps=dict(t.get("static_ps", {})) if funcs else {})
        for i, (src, o) in enumerate(t["ins"]):
            if i % 2 == 0:
                edges.append(Task2TaskEdge(source=dsid(spec, src, o), sink_task=tname(k), sink_input_kw=None, sink_input_ps=i // 2))
            else:
                edges.append(Task2TaskEdge(source=dsid(spec, src, o), sink_task=tname(k), sink_input_kw=f"k{i}", sink_input_ps=None))
    job = JobInstance(tasks=tasks, edges=edges, ext_outputs=[dsid(spec, k, o) for k, o in spec["ext"]])
    if serdes:
        for t, pair in serdes.items():
            job.serdes[t] = pair
    wids = []
    per_host = {}
    for w in spec["workers"]:
        j = per_host.get(w["host"], 0)
        per_host[w["host"]] = j + 1
        wids.append(WorkerId(hname(w["host"]), f"w{j}"))
    env = Environment(workers={wid: Worker(cpu=1, gpu=1 if w["gpu"] else 0, memory_mb=1) for wid, w in zip(wids, spec["workers"])})
    return job, env, wids


# ----------------------------------------------------------------------------- the fake cluster
def wrap_val(v, nd):
    """nd: hand the value over as a numpy object array (requested outputs are numpy/xarray data in real use:
    `x == None` is then elementwise and has no truth value) -- norm_value() undoes it for comparisons"""
    if not nd:
        return v
    import numpy as np
    a = np.empty(len(v), dtype=object)
    for i, x in enumerate(v):
        a[i] = x
    return a


def norm_value(v):
    import numpy as np
    import c01values
    if isinstance(v, c01values.Box):
        return (type(v).__name__, norm_value(v.payload))
    if isinstance(v, np.ndarray):
        return tuple(norm_value(x) for x in v.tolist())
    if isinstance(v, (tuple, list)):
        return tuple(norm_value(x) for x in v)
    if isinstance(v, dict):
        return tuple(sorted((k, norm_value(x)) for k, x in v.items()))
    return v


class FakeCluster:
    """Duck-typed Bridge.  Cluster semantics = coq/theories/Sched/Model.v (store, wq, xfers,
    fetches, purges, pool).  mode: 'fifo' (events in generation order), 'batchy' (same, large
    batches), 'shuffle' (arbitrary order), 'newest' (adversarial: newest first)."""

    def __init__(self, spec, job, env, wids, rng, mode, executor=None):
        from cascade.executor.runner.memory import ds2shmid
        from cascade.low.core import DatasetId
        self.spec, self.job, self.env, self.wids, self.rng, self.mode = spec, job, env, wids, rng, mode
        self.widx = {w: i for i, w in enumerate(wids)}
        self.whost = [w["host"] for w in spec["workers"]]
        self.ins = [sorted(set(map(tuple, t["ins"]))) for t in spec["tasks"]]
        self.nout = [t["nout"] for t in spec["tasks"]]
        keys = {}
        self.key = {}
        self.sorted_names = [onames_sorted(t) for t in spec["tasks"]]
        for k, t in enumerate(spec["tasks"]):
            for o in range(t["nout"]):
                self.key[(k, o)] = keys.setdefault(ds2shmid(dsid(spec, k, o)), len(keys))
        self.store, self.wq = {}, {}
        self.xfers, self.fetches, self.purges, self.pool = [], [], [], []
        self.rounds = []          # finished rounds
        self.cur_ctl, self.cur_cmds, self.pending_tx = [], [], []
        self.flush_cmds = []
        self.executor = executor  # optional callback computing real values
        self.values = {}          # (host, key) -> real value (C01)
        self.problems = []        # oracle findings: (signature, what)
        self.finished, self.dispatched, self.payload_delivered = set(), [], set()
        self.published_truth = set()
        self.purged_at = set()
        self.shutdown_calls = 0
        self.consumers = {}
        for k, ins in enumerate(self.ins):
            for d in ins:
                self.consumers.setdefault(d, set()).add(k)
        self.ext = set(map(tuple, spec["ext"]))
        self.none_ds = {(k, o) for k, t in enumerate(spec["tasks"]) for o in t.get("none", [])}
        self.steps = 0
        self.progress = {}
        self.salt = 0
        self.pubset = {}

    # --- id mapping
    def ds_id(self, ds):
        k = int(ds.task[1:])
        return (k, self.sorted_names[k].index(ds.output))

    def ds_obj(self, d):
        return dsid(self.spec, d[0], d[1])

    def h_id(self, h):
        return int(h[1:])

    def ev_id(self, ev):
        from cascade.executor.msg import DatasetTransmitPayload
        from cascade.low.core import WorkerId
        import cloudpickle
        if isinstance(ev, DatasetTransmitPayload):
            # bytes written by a custom serde of the job are certainly not Python's None
            v = cloudpickle.loads(ev.value) if ev.header.deser_fun == "cloudpickle.loads" else ev.value
            return ("pay", self.ds_id(ev.header.ds), None if v is None else (v[1] if isinstance(v, tuple) and v and v[0] == "VAL" else self.ds_id(ev.header.ds)))
        if isinstance(ev.origin, WorkerId):
            return ("pub", self.widx[ev.origin], self.ds_id(ev.ds))
        return ("xf", self.h_id(ev.origin), self.ds_id(ev.ds))

    def problem(self, sig, what):
        self.problems.append((sig, what))

    # --- Bridge interface
    def get_environment(self):
        return self.env

    def transmit(self, ds, source, target):
        d, src, tgt = self.ds_id(ds), self.h_id(source), self.h_id(target)
        self.pending_tx.append((d, src, tgt))
        # C04 oracle: the source must hold the dataset now, with no purge of it on its way
        if self.store.get((src, self.key[d])) != d:
            self.problem("transmit-from-host-without-dataset", f"transmit {d} {src}->{tgt}: source store lacks it")
        if (src, d) in self.purges:
            self.problem("transmit-from-host-being-purged", f"transmit {d} from {src} while a purge of it is in flight")
        if (src, d) in self.purged_at:
            pass
        self.xfers.append((d, src, tgt))

    def task_sequence(self, ts):
        w = self.widx.get(ts.worker)
        if w is None:
            self.problem("dispatch-to-unknown-worker", f"{ts.worker}")
            return
        if len(ts.tasks) != 1:
            self.problem("harness-limit", "task sequence with != 1 task (fusing is not modelled)")
        t = int(ts.tasks[0][1:])
        h = self.whost[w]
        srcs = {}
        for d, src, tgt in self.pending_tx:
            srcs[d] = src
            if tgt != h:
                self.problem("transmit-to-wrong-host", f"{d} sent to {tgt} for a task on {h}")
        self.cur_ctl.append(("assign", w, t, dict(srcs)))
        self.cur_cmds.append([("tx", d, s, g) for d, s, g in self.pending_tx] + [("task", w, t)])
        self.pending_tx = []
        # C02 oracle
        if any(t == t2 for _, t2 in self.dispatched):
            self.problem("task-dispatched-twice", f"task {t}")
        if w in self.wq:
            self.problem("dispatch-to-busy-worker", f"worker {w} still holds task {self.wq[w]}")
        if self.spec["tasks"][t]["gpu"] and not self.spec["workers"][w]["gpu"]:
            self.problem("gpu-task-on-cpu-worker", f"task {t} worker {w}")
        for d in self.ins[t]:
            if d not in self.published_truth:
                self.problem("dispatch-before-input-produced", f"task {t} input {d}")
            present = self.store.get((h, self.key[d])) == d and (h, d) not in self.purges
            coming = any(x[0] == d and x[2] == h for x in self.xfers)
            if not (present or coming):
                self.problem("dispatch-without-input-on-host", f"task {t} on host {h}: input {d} neither present nor being transferred")
            if (h, d) in self.purged_at and not coming:
                self.problem("purged-dataset-needed-again", f"task {t} needs {d} on host {h} after its purge")
        self.dispatched.append((w, t))
        self.wq[w] = t
        # the worker writes to shared memory and announces exactly the outputs the command lists in `publish`
        self.pubset[t] = {self.ds_id(d) for d in ts.publish}

    def fetch(self, ds, source):
        d, src = self.ds_id(ds), self.h_id(source)
        self.flush_cmds.append(("fetch", d, src))
        if self.store.get((src, self.key[d])) != d:
            self.problem("fetch-from-host-without-dataset", f"fetch {d} from {src}")
        if (src, d) in self.purges:
            self.problem("fetch-from-host-being-purged", f"fetch {d} from {src}")
        self.fetches.append((d, src))

    def purge(self, host, ds):
        h, d = self.h_id(host), self.ds_id(ds)
        self.flush_cmds.append(("purge", h, d))
        # C04 oracle
        left = [t for t in self.consumers.get(d, ()) if t not in self.finished]
        if left:
            self.problem("purge-while-consumer-unfinished", f"purge {d}@{h}: consumers {left} not completed")
        if d in self.ext and d not in self.payload_delivered:
            self.problem("purge-before-requested-output-delivered", f"purge {d}@{h}")
        if any(x[0] == d and x[1] == h for x in self.xfers):
            self.problem("purge-with-transfer-pending-from-host", f"purge {d}@{h}")
        if any(x == (d, h) for x in self.fetches):
            self.problem("purge-with-fetch-pending-from-host", f"purge {d}@{h}")
        self.purges.append((h, d))
        self.purged_at.add((h, d))

    def _close_ctl(self):
        if self.pending_tx:
            self.problem("transmit-without-task", f"{self.pending_tx}")
            self.cur_ctl.append(("stray",))
            self.cur_cmds.append([("tx", d, s, g) for d, s, g in self.pending_tx])
            self.pending_tx = []
        self.cur_ctl.append(("flush",))
        self.cur_cmds.append(self.flush_cmds)
        self.flush_cmds = []

    def shutdown(self):
        self.shutdown_calls += 1

    def end_of_run(self):
        """run() returned (or raised) without a further recv_events: close the last round"""
        if self.cur_ctl or self.flush_cmds or self.pending_tx:
            self._close_ctl()
            self.rounds.append({"ctl": self.cur_ctl, "cmds": self.cur_cmds, "waited": False, "env": []})
            self.cur_ctl, self.cur_cmds = [], []

    # --- cluster steps (mirror Model.exec)
    def enabled_steps(self):
        st = []
        for w, t in self.wq.items():
            h = self.whost[w]
            if all((h, self.key[d]) in self.store for d in self.ins[t]):
                st.append(("publish", w))
        st += [("xfer", i) for i in range(len(self.xfers))]
        st += [("fetch", i) for i in range(len(self.fetches))]
        st += [("purge", i) for i in range(len(self.purges))]
        return st

    def do_step(self, st, env):
        from cascade.executor.msg import DatasetPublished, DatasetTransmitPayload, DatasetTransmitPayloadHeader
        from cascade.low.core import DatasetId
        self.steps += 1
        kind = st[0]
        if kind == "publish":
            # the task held by w yields and publishes its next output (a generator task takes nout steps;
            # other cluster steps and event deliveries interleave between them)
            w = st[1]
            t = self.wq[w]
            h = self.whost[w]
            i = self.progress.get(t, 0)
            if i == 0:
                for d in self.ins[t]:
                    if self.store.get((h, self.key[d])) != d:
                        self.problem("task-read-wrong-bytes", f"task {t} read {self.store.get((h, self.key[d]))} under the key of {d}")
                if self.executor:
                    self.executor(self, w, t, h)
            d = (t, i)
            if d in self.pubset.get(t, {d}):
                if (h, self.key[d]) in self.store:
                    self.problem("shm-key-collision", f"output {d} of task {t}: key already used by {self.store[(h, self.key[d])]}")
                self.store[(h, self.key[d])] = d
                self.published_truth.add(d)
                self.pool.append(DatasetPublished(origin=self.wids[w], ds=self.ds_obj(d), transmit_idx=None))
            else:
                # not in the command's publish set: the value stays in the worker's local memory, nobody is told
                self.values.pop((h, self.key[d]), None)
            self.progress[t] = i + 1
            if i + 1 == self.nout[t]:
                self.wq.pop(w)
                self.finished.add(t)
            env.append(("publish", w, i))
        elif kind == "xfer":
            d, src, tgt = x = self.xfers.pop(st[1])
            if self.store.get((src, self.key[d])) is None:
                self.problem("transfer-source-lost-dataset", f"transfer {d} {src}->{tgt} found nothing at the source")
                raise Deadlock("transfer failure")
            if (tgt, self.key[d]) not in self.store:
                self.store[(tgt, self.key[d])] = d
                if self.executor:
                    self.values[(tgt, self.key[d])] = self.values.get((src, self.key[d]))
            self.pool.append(DatasetPublished(origin=hname(tgt), ds=self.ds_obj(d), transmit_idx=self.steps))
            env.append(("xfer", x))
        elif kind == "fetch":
            d, src = x = self.fetches.pop(st[1])
            got = self.store.get((src, self.key[d]))
            if got is None:
                self.problem("fetch-source-lost-dataset", f"fetch {d} from {src} found nothing")
                raise Deadlock("fetch failure")
            import cloudpickle
            if self.executor:
                # what the worker wrote to shared memory: the bytes and the decoding function real serde.ser_output chose
                raw, deser_fun = self.values.get((src, self.key[d]))
            else:
                val = None if got in self.none_ds else wrap_val(("VAL", got), (got[0] + got[1] + self.salt) % 2 == 0)
                raw, deser_fun = cloudpickle.dumps(val), "cloudpickle.loads"
            hdr = DatasetTransmitPayloadHeader(confirm_address="x", confirm_idx=0, ds=self.ds_obj(d), deser_fun=deser_fun)
            self.pool.append(DatasetTransmitPayload(header=hdr, value=raw))
            env.append(("fetch", x))
        elif kind == "purge":
            h, d = x = self.purges.pop(st[1])
            self.store.pop((h, self.key[d]), None)
            env.append(("purge", x))

    def recv_events(self):
        from cascade.executor.msg import DatasetTransmitPayload
        self.recv_calls = getattr(self, "recv_calls", 0) + 1
        if getattr(self, "abort_after", None) is not None and self.recv_calls > self.abort_after:
            raise Aborted("the cluster went away (scripted)")
        self._close_ctl()
        env = []
        rng = self.rng
        # some cluster progress, then deliver >= 1 event
        nsteps = rng.choice([0, 1, 1, 2, 3, 6])
        for _ in range(nsteps):
            st = self.enabled_steps()
            if not st:
                break
            self.do_step(rng.choice(st), env)
        while not self.pool:
            st = [s for s in self.enabled_steps()]
            prog = [s for s in st if s[0] != "purge"] or st
            if not prog:
                self.rounds.append({"ctl": self.cur_ctl, "cmds": self.cur_cmds, "waited": True, "env": env})
                self.cur_ctl, self.cur_cmds = [], []
                raise Deadlock("controller waits for events but nothing is outstanding in the cluster")
            self.do_step(rng.choice(prog), env)
        k = 1 if self.mode != "batchy" and rng.random() < 0.6 else rng.randrange(1, len(self.pool) + 1)
        events = []
        for _ in range(k):
            if self.mode in ("fifo", "batchy"):
                i = 0
            elif self.mode == "newest":
                i = len(self.pool) - 1
            else:
                i = rng.randrange(len(self.pool))
            ev = self.pool.pop(i)
            env.append(("deliver", self.ev_id(ev)))
            if isinstance(ev, DatasetTransmitPayload):
                self.payload_delivered.add(self.ds_id(ev.header.ds))
            events.append(ev)
        self.rounds.append({"ctl": self.cur_ctl, "cmds": self.cur_cmds, "waited": True, "env": env})
        self.cur_ctl, self.cur_cmds = [], []
        return events


# ----------------------------------------------------------------------------- one run
def _alarm(signum, frame):
    raise Spin("controller loop made no Bridge call for 5 s (busy spin)")


def run_case(spec, seed, mode, executor=None, funcs=None, rerun=True, serdes=None):
    """Runs the REAL controller loop on the fake cluster.  Returns dict with rounds, outcome,
    problems (oracle), outputs."""
    import random
    from cascade.controller.impl import run
    from cascade.scheduler.graph import precompute
    rng = random.Random(seed)
    job, env, wids = build_job(spec, funcs, serdes)
    cluster = FakeCluster(spec, job, env, wids, rng, mode, executor)
    cluster.salt = seed
    outcome, detail, state = "ok", "", None
    old = signal.signal(signal.SIGALRM, _alarm)
    signal.setitimer(signal.ITIMER_REAL, 5.0)
    try:
        pre = precompute(job)
        state = run(job, cluster, pre)
    except Deadlock as e:
        outcome, detail = "deadlock", str(e)
    except Spin as e:
        outcome, detail = "spin", str(e)
    except Exception as e:
        outcome, detail = "raised", f"{type(e).__name__}: {e}"
    finally:
        signal.setitimer(signal.ITIMER_REAL, 0)
        signal.signal(signal.SIGALRM, old)
    cluster.end_of_run()
    outs = None
    if state is not None:
        outs = {cluster.ds_id(k): norm_value(v) for k, v in state.outputs.items()}
    r = {"spec": spec, "seed": seed, "mode": mode, "rounds": cluster.rounds, "outcome": outcome, "detail": detail,
         "problems": cluster.problems, "outputs": outs, "cluster": cluster}
    if outcome == "ok" and not cluster.problems and not post_checks(r) and rerun:
        # The caller owns the JobInstance and the Preschedule (precompute is expensive and pure): handing the same
        # objects to the controller again -- a retry after a lost executor, a sweep over clusters -- must behave like
        # the first time.  (a) the same objects once more after the complete run; (b) a fresh Preschedule used by a
        # run that is cut short at a random round and then by a complete one.
        def one(pre_, abort_after=None):
            c2 = FakeCluster(spec, job, env, wids, random.Random(seed), mode, executor)
            c2.salt = seed
            c2.abort_after = abort_after
            o2, d2, st2 = "ok", "", None
            old = signal.signal(signal.SIGALRM, _alarm)
            signal.setitimer(signal.ITIMER_REAL, 5.0)
            try:
                st2 = run(job, c2, pre_)
            except Aborted:
                o2 = "aborted"
            except Deadlock as e:
                o2, d2 = "deadlock", str(e)
            except Spin as e:
                o2, d2 = "spin", str(e)
            except Exception as e:
                o2, d2 = "raised", f"{type(e).__name__}: {e}"
            finally:
                signal.setitimer(signal.ITIMER_REAL, 0)
                signal.signal(signal.SIGALRM, old)
            c2.end_of_run()
            ou2 = {c2.ds_id(k): norm_value(v) for k, v in st2.outputs.items()} if st2 is not None else None
            return {"spec": spec, "seed": seed, "mode": mode, "rounds": c2.rounds, "outcome": o2, "detail": d2,
                    "problems": c2.problems, "outputs": ou2, "cluster": c2}
        again = []
        for label, pre_, cut in (("second run with the same JobInstance and Preschedule objects", pre, None),
                                 ("run with the JobInstance and Preschedule objects of a run that was cut short", None, True)):
            if cut:
                pre_ = precompute(job)
                one(pre_, abort_after=random.Random(seed + 1).randrange(1, len(cluster.rounds) + 2))
            r2 = one(pre_)
            found = [(sig, label + ": " + what) for sig, what in list(r2["problems"]) + post_checks(r2)]
            if not found and r2["outputs"] != outs:
                found.append(("rerun-outputs-differ", f"{label} returned {str(r2['outputs'])[:200]}, the first run {str(outs)[:200]}"))
            again += found
        r["problems"] = list(r["problems"]) + again
        r["rerun"] = {"problems": again[:6]}
    return r


# ----------------------------------------------------------------------------- Coq emission
def c_ds(d):
    return f"({cN(d[0])}, {cN(d[1])})"


def c_gset(xs, f=lambda x: x):
    return "(list_to_set " + clist(list(xs), f) + ")"


def c_gmap(items, fk, fv):
    return "(list_to_map " + clist(list(items), lambda kv: f"({fk(kv[0])}, {fv(kv[1])})") + ")"


def c_job(spec, key, none_ds=()):
    tasks = spec["tasks"]
    ins = "mNsD " + clist([(k, sorted(set(map(tuple, t["ins"])))) for k, t in enumerate(tasks)], lambda kv: f"({cN(kv[0])}, {clist(kv[1], c_ds)})")
    nout = "mNN " + clist([(k, t["nout"]) for k, t in enumerate(tasks)], lambda kv: f"({cN(kv[0])}, {cN(kv[1])})")
    gpu = "sN " + clist([k for k, t in enumerate(tasks) if t["gpu"]], cN)
    ext = "sD " + clist(sorted(set(map(tuple, spec["ext"]))), c_ds)
    none = "sD " + clist(sorted(none_ds), c_ds)
    return f"{{| j_ins := {ins}; j_nout := {nout}; j_gpu := {gpu}; j_ext := {ext}; j_none := {none} |}}"


def c_env(spec):
    ws = spec["workers"]
    return ("{| e_host := mNN " + clist([(i, w["host"]) for i, w in enumerate(ws)], lambda kv: f"({cN(kv[0])}, {cN(kv[1])})") +
            "; e_gpu := sN " + clist([i for i, w in enumerate(ws) if w["gpu"]], cN) + " |}")


def c_label(l):
    k = l[0]
    if k == "assign":
        return f"LAssign {cN(l[1])} {cN(l[2])} (mDN " + clist(sorted(l[3].items()), lambda kv: f"({c_ds(kv[0])}, {cN(kv[1])})") + ")"
    if k == "flush":
        return "LFlush"
    if k == "stray":
        return "LFlush"
    if k == "deliver":
        e = l[1]
        if e[0] == "pub":
            return f"LDeliver (EPub {cN(e[1])} {c_ds(e[2])})"
        if e[0] == "xf":
            return f"LDeliver (EXfer {cN(e[1])} {c_ds(e[2])})"
        return f"LDeliver (EPay {c_ds(e[1])} {copt(e[2], c_ds)})"
    if k == "publish":
        return f"LPublish {cN(l[1])} {cN(l[2])}"
    if k == "xfer":
        return f"LXfer ({c_ds(l[1][0])}, {cN(l[1][1])}, {cN(l[1][2])})"
    if k == "fetch":
        return f"LFetch ({c_ds(l[1][0])}, {cN(l[1][1])})"
    if k == "purge":
        return f"LPurge ({cN(l[1][0])}, {c_ds(l[1][1])})"
    raise ValueError(l)


def c_cmd(c):
    if c[0] == "tx":
        return f"CTransmit {c_ds(c[1])} {cN(c[2])} {cN(c[3])}"
    if c[0] == "task":
        return f"CTask {cN(c[1])} {cN(c[2])}"
    if c[0] == "fetch":
        return f"CFetch {c_ds(c[1])} {cN(c[2])}"
    if c[0] == "purge":
        return f"CPurge {cN(c[1])} {c_ds(c[2])}"
    raise ValueError(c)


def c_round(r):
    return ("{| r_ctl := " + clist(r["ctl"], lambda l: "(" + c_label(l) + ")") +
            "; r_cmds := " + clist(r["cmds"], lambda cs: clist(cs, lambda c: "(" + c_cmd(c) + ")")) +
            f"; r_waited := {cbool(r['waited'])}; r_env := " + clist(r["env"], lambda l: "(" + c_label(l) + ")") + " |}")


def c_case(res):
    """term of type (job * env * list round * bool * list (ds * option ds))"""
    cl = res["cluster"]
    outs = []
    if res["outputs"] is not None:
        for d, v in sorted(res["outputs"].items()):
            if v is None and d not in cl.payload_delivered:
                continue   # never received -> absent from the model's map
            outs.append((d, v))
    def c_out(kv):
        d, v = kv
        if isinstance(v, tuple) and v[0] == "VAL":
            return f"({c_ds(d)}, Some {c_ds(v[1])})"
        return f"({c_ds(d)}, None)"
    return (f"({c_job(res['spec'], cl.key, cl.none_ds)}, {c_env(res['spec'])}, " + clist(res["rounds"], c_round) +
            f", {cbool(res['outcome'] == 'ok')}, " + clist(outs, c_out) + f", {cbool(res['mode'] in ('fifo', 'batchy'))})")


CHECKER = "(fun c : job * env * list round * bool * list (ds * option ds) * bool => let '(J, E, rs, ended, outs, strict) := c in check_trace strict J E rs ended outs)"


# ----------------------------------------------------------------------------- family runner
SIGS = {
    "C02": {"task-dispatched-twice", "dispatch-to-unknown-worker", "dispatch-to-busy-worker", "gpu-task-on-cpu-worker",
            "dispatch-before-input-produced", "dispatch-without-input-on-host", "transmit-to-wrong-host", "transmit-without-task",
            "task-never-dispatched", "harness-limit"},
    "C04": {"purge-while-consumer-unfinished", "purge-before-requested-output-delivered", "purge-with-transfer-pending-from-host",
            "purge-with-fetch-pending-from-host", "transmit-from-host-without-dataset", "transmit-from-host-being-purged",
            "fetch-from-host-without-dataset", "fetch-from-host-being-purged", "transfer-source-lost-dataset", "fetch-source-lost-dataset",
            "purged-dataset-needed-again"},
    "C01": {"task-read-wrong-bytes", "shm-key-collision", "wrong-output-value", "requested-output-missing", "raised", "deadlock", "spin",
            "premature-exit", "fetch-source-lost-dataset", "transfer-source-lost-dataset"},
}
REORDER_FINDING = "reordered-publications"   # open finding of C03: see known_findings.json


def in_order(res):
    return res["mode"] in ("fifo", "batchy")


def post_checks(res):
    """end-of-run oracles shared by the family; returns list of (signature, what)"""
    cl = res["cluster"]
    out = []
    ntasks = len(res["spec"]["tasks"])
    if res["outcome"] == "ok":
        disp = {t for _, t in cl.dispatched}
        if len(disp) != ntasks:
            out.append(("task-never-dispatched", f"run returned but tasks {sorted(set(range(ntasks)) - disp)} were never dispatched"))
        if cl.finished != set(range(ntasks)):
            out.append(("premature-exit", f"run returned with tasks {sorted(set(range(ntasks)) - cl.finished)} unfinished"))
        missing = [d for d in cl.ext if d not in cl.payload_delivered]
        if missing:
            out.append(("requested-output-missing", f"run returned without fetching {missing}"))
        if cl.shutdown_calls != 1:
            out.append(("shutdown-not-called-once", f"shutdown called {cl.shutdown_calls} times"))
    else:
        out.append((res["outcome"], res["detail"][:300]))
        if cl.shutdown_calls < 1 and res["outcome"] == "raised":
            out.append(("shutdown-not-called-once", "run raised without shutting executors down"))
    return out


def case_json(res):
    return {"spec": res["spec"], "seed": res["seed"], "mode": res["mode"]}


NONE_FINDING = "none-valued-requested-output"   # open finding of C03


def exhaustive_cases(rng, max_tasks=3):
    """every job with <= max_tasks tasks x 4 cluster shapes x 3 requested-output choices (sched_exhaustive), each in
    an in-order and in a reordering delivery mode"""
    import sched_exhaustive
    for spec in sched_exhaustive.specs(max_tasks):
        yield spec, "fifo", rng.randrange(2**31)
        yield spec, rng.choice(["shuffle", "newest", "batchy"]), rng.randrange(2**31)


def run_family(ctx, res, pid, n, modes=("fifo", "batchy", "shuffle", "newest"), max_tasks=10, coq_every=1, gen=gen_spec, extra=None, runner=None, cases=None):
    """generate n (spec, seed, mode) cases (or take them from `cases`), run the real controller, apply the oracles of
    `pid`, replay in Coq"""
    from common import coq_results, coq_print
    rng = ctx.sub_rng("cases")
    sigs = SIGS.get(pid, set())
    terms, metas = [], []

    def generated():
        for i in range(n):
            yield gen(rng, max_tasks=max_tasks), modes[i % len(modes)], rng.randrange(2**31)
        for j in range(0 if n == 0 else (3 if n <= 500 else 12)):     # scale: >= 64 tasks on >= 63 workers
            yield gen_wide_spec(rng), modes[j % len(modes)], rng.randrange(2**31)
    for i, (spec, mode, seed) in enumerate(cases if cases is not None else generated()):
        r = (runner or run_case)(spec, seed, mode)
        res.evaluations += 1
        res.count(f"mode:{mode}")
        res.count(f"tasks:{len(spec['tasks'])}")
        res.count(f"hosts:{len({w['host'] for w in spec['workers']})}")
        res.count(f"outcome:{r['outcome']}")
        nsteps = sum(len(rd["ctl"]) + len(rd["env"]) for rd in r["rounds"])
        if len(spec["tasks"]) >= 2 and nsteps >= 6:
            res.nontrivial_keys.add(json_key(spec, mode, seed))
        cj = case_json(r)
        problems = list(r["problems"]) + post_checks(r)
        reorder_case = not in_order(r)
        for sig, what in problems:
            if pid == "C03" or sig in sigs:
                none_ext = {tuple(d) for d in spec["ext"]} & {(k, o) for k, t in enumerate(spec["tasks"]) for o in t.get("none", [])}
                if sig in ("deadlock", "spin") and none_ext:
                    sig2 = NONE_FINDING      # known finding: None is the "not fetched yet" sentinel
                elif sig in ("premature-exit", "task-never-dispatched", "requested-output-missing", "spin", "deadlock") and reorder_case:
                    sig2 = REORDER_FINDING   # known finding: completion inferred from the key-sorted last output
                else:
                    sig2 = sig
                if pid != "C03" and sig2 in (REORDER_FINDING, NONE_FINDING):
                    continue   # belongs to C03's findings, not to this property
                res.fail(sig2, what, cj)
        if extra:
            extra(r, res, cj)
        if len(res.samples) < 2 and nsteps >= 8:
            res.samples.append({"spec": spec, "mode": mode, "first_rounds": [{k: v for k, v in rd.items()} for rd in r["rounds"][:3]]})
        # the Coq replay applies to runs that did not die inside the harness
        if i % coq_every == 0 and r["outcome"] in ("ok", "deadlock", "spin", "raised"):
            terms.append(c_case(r))
            metas.append(cj)
    results, logs = coq_results(pid, HEADER, terms, CHECKER, shard=40, tag="trace")
    res.corr_checked += len(results)
    for ok, term, cj in zip(results, terms, metas):
        if ok is not True:
            why = ""
            if ok is False:
                why = coq_print(pid, HEADER, "let '(J, E, rs, ended, outs, strict) := " + term + " in dbg_trace strict J E rs ended outs")[-700:]
            res.disagree("Coq model of the controller rejects a trace of the real cascade.controller.impl.run: " + (why or (logs[0][-400:] if logs else "")), cj)
            break
    return res


def json_key(spec, mode, seed):
    import json
    return json.dumps([spec, mode], sort_keys=True)


def replay_case(case):
    c = case.get("case", case)
    r = run_case(c["spec"], c["seed"], c["mode"])
    problems = list(r["problems"]) + post_checks(r)
    return {"fails": bool(problems), "problems": problems[:5], "outcome": r["outcome"], "detail": r["detail"]}
