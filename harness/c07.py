"""C07 -- a transfer stores the dataset once, byte-identical, and announces it once.

The REAL cascade.executor.data_server.DataServer objects (one per host, built by their real __init__) and REAL
comms.Listener / callback / send_data / get_socket / ReliableSender run in-process over harness/fakes/ds_fakes.py: a fake
transport below them (zmq.Context / zmq.Poller: PUSH sockets that assemble multipart messages per socket, frame by
frame; a bag of messages in flight that the trace loses / duplicates / delays), a manual thread pool (jobs finish when
the trace says, also inside wait(); a job can be advanced frame send by frame send, so that the sends of the two pool
threads interleave as the trace says), and a fake clock.  The REAL cascade.shm.client (allocate / get / purge /
close_callback / _send_command, AllocatedBuffer, api.ser / deser) runs too, over harness/fakes/ds_shm.py: a fake datagram
socket and, per host, a fake single-threaded shm server with the rules of cascade.shm.dataset.Manager (conflict on an
existing key, wait on an unclosed one, reader ids, delayed purge) that the trace can make SLOW (its answer to the n-th
request comes ms later; a waiting client lets the clock run; nothing is lost); a stepped job can also be paused after
every shm request it sends, so that the requests of the two pool threads interleave at the server as the trace says.
One trace step = one iteration of the real recv_loop, one pool job (or one step of it), one network event, one
controller command, a busy spell of an shm server, or a clock tick.  The harness touches the data server only through
what it is given from outside (listener socket, sockets it opens, datagram sockets and segments of the shm client,
clock, pool, wait) plus `recv_loop` and `terminating`.

* oracle: a direct reading of the property on what the hosts' shm stores contain, what is called back to the message
  socket, what the controller's listener returns, and when shm purge is called (independent of the model);
* correspondence: the same trace is evaluated by the Coq model (Net/DataServer.v) and the observable end state compared
  inside Coq (Net/DataServerCheck.check_case); pool jobs are atomic in that model, which Net/Multipart.v justifies for
  frame sends that do not interleave on one socket: the log of all frame sends of the trace is checked inside Coq too
  (Net/Multipart.wire_ok); an shm call is one atomic look at the store in that model, which Net/ShmRpc.v justifies for a
  client that sends a request once and waits for its answer: the log of all datagram events between the real client and
  the shm servers is checked inside Coq too (Net/ShmRpcCheck.check_case_r: the model server gives the answers seen, every
  socket keeps to one request / one awaited answer).  Traces in which the order of the jobs' effects is not the order in
  which they end (two threads at one dataset's entry at overlapping times, a message delivered before its sender job
  ended, time passing inside a loop iteration) are judged by the oracle and the two logs only."""
import hashlib
import itertools
import json
import os
import sys

sys.path.insert(0, os.path.join(os.path.dirname(os.path.abspath(__file__)), "fakes"))

from common import cN, cbool, clist, cnat, copt, cstr, coq_results  # noqa: E402

TRUSTED = [
    "harness/fakes/ds_fakes.py: fake zmq.Context/Poller (PUSH: per-socket assembly of multipart messages, send_multipart = one send per frame "
    "as in pyzmq; the wire is a bag of messages; PULL: a queue), manual thread pool + concurrent.futures.wait "
    "(the trace picks which job finishes while the loop blocks; stepped jobs run on their own thread under a cooperative scheduler and pause "
    "after each non-final frame they send, on request also after every shm request they send and in every time.sleep), fake clock "
    "(time.time_ns; time.sleep and waiting for a datagram let it run)",
    "harness/fakes/ds_shm.py: fake socket.socket (datagrams to the shm server of the host whose code runs; the answer goes to the receive buffer "
    "of the socket the request came from, or nowhere when that socket is closed; recv honours settimeout in fake time; a recv that nothing "
    "can satisfy = a thread blocked for ever), fake per-host shm server (one thread, arrival order, one answer per request; "
    "add on an existing key -> conflict whatever its state, get of an unclosed entry -> wait, get / close of a missing key -> error answer, "
    "writer's close created -> in_memory, reader ids, purge of a missing key -> nothing, purge delayed while readers are open; "
    "as cascade.shm.server.LocalServer.start + cascade.shm.dataset.Manager without capacity pressure), "
    "fake multiprocessing.shared_memory.SharedMemory (in-memory registry with POSIX create / open / unlink rules), "
    "multiprocessing.resource_tracker.register / unregister = no-ops",
    "name -> number maps for hosts/addresses, dataset ids and deser_fun strings (injective per case); pickle framing of messages is in the loop "
    "on the implementation side and not modelled (frames are compared after des_message)",
]
ASSUMPTIONS = [
    "jobs given to ds_proc_tp (send_payload / store_payload) are atomic in the Coq model w.r.t. the loop: the loop looks at them only through "
    "Future.done() in maybe_clean / wait, and their effects (shm allocate+write+close, one send) do not interleave with another job on the same dataset "
    "(cascade.shm serialises allocate/get per key: a second allocate conflicts, a get of an unclosed buffer waits); the multi-step effects that "
    "two jobs could interleave: the frame-by-frame send of a multipart message, atomic iff no other send uses the same socket meanwhile "
    "(Net/MultipartProofs.v), and the request/answer datagrams of an shm call, applied exactly once with the caller handed that application's "
    "answer iff the client sends the request once and waits for the answer (Net/ShmRpcProofs.v); both conditions are exercised on the "
    "implementation (stepped jobs, slow shm servers) and checked on every trace",
    "datagrams between a client and the shm server of its host (loopback UDP) are neither lost, duplicated nor reordered; the server is one "
    "thread, serves requests in arrival order, answers every request once, after an arbitrary finite delay; an answer to a closed socket is gone",
    "zmq assembles multipart messages per socket and delivers them whole; a PUSH socket used by two threads at once interleaves their frames",
    "ds2shmid is injective on the datasets of a run (md5 of a separator-safe encoding)",
    "a dataset id denotes one value: every worker publication of dataset d carries content(d); a worker publishes d at most once per host "
    "and never after d was purged there (Section variable `content`, trace well-formedness of HPublish)",
    "transfer indices are unique per command (Bridge.transmit_idx_counter) -- needed only for the progress theorems, not for the safety ones",
    "an exception leaving recv_loop kills the process (the parent monitors it, C05); queued pool jobs may still run",
    "the shm server never answers capacity-exceeded / timeout to the data server; zero-length datasets are not generated",
]

HEADER = """From Coq Require Import List NArith ZArith String.
From EKW Require Import Net.DataServer Net.DataServerCheck Net.Multipart Net.MultipartCheck Net.ShmRpc Net.ShmRpcCheck.
Import ListNotations.
Open Scope string_scope.
"""

DESER = ["cloudpickle.loads", "numpy.load", "earthkit.data.from_bytes", ""]


class OutsideModel(ValueError):
    """the trace contains a message the Coq model has no term for (frames of different messages mixed)"""


# ----------------------------------------------------------------------------- running one case on the real code
class Runner:
    def __init__(self, case):
        from ds_fakes import Cluster
        from cascade.low.core import DatasetId
        self.case = case
        self.n = case["nhosts"]
        self.dsl = [DatasetId(t, o) for t, o in case["datasets"]]
        self.content = [(bytes.fromhex(h), d) for h, d in case["content"]]
        self.cluster = Cluster(self.n)
        self.terms = []
        self.fails = []          # (signature, what)
        self.ops_done = []
        # oracle state
        self.purged = {i: set() for i in range(1, self.n + 1)}
        self.announced = {}
        self.seen_events = {i: 0 for i in range(1, self.n + 1)}
        self.seen_ctl = 0
        self.fetched = {}
        self.cmds = []           # dicts
        self.cmd_delivered = set()
        self.local_pub = set()
        self.stats = set()
        self.data_frames_per_idx = {}
        self.seen_mixed = 0
        self.ctl_crash_seen = False
        self.skipped = 0
        self.outside = None
        self.skip_corr = False
        self.cm = None
        self.seen_hangs = 0
        self.seen_late = {}
        self.seen_lost_answers = 0
        self.seen_timeouts = 0

    def __enter__(self):
        self.cm = self.cluster.patched()
        self.cm.__enter__()
        from cascade.executor.runner.memory import ds2shmid
        self.key2ds = {ds2shmid(d): k for k, d in enumerate(self.dsl)}
        self.ds2key = {k: ds2shmid(d) for k, d in enumerate(self.dsl)}
        self.prev_store = self.snapshot()
        return self

    def __exit__(self, *a):
        return self.cm.__exit__(*a)

    # --- numbering
    def dsnum(self, ds):
        return self.dsl.index(ds)

    @staticmethod
    def addrnum(a):
        return 0 if a == "ctl" else int(a[1:])

    @staticmethod
    def hostnum(h):
        return 0 if h == "controller" else int(h[1:])

    @staticmethod
    def desnum(s):
        return DESER.index(s)

    # --- Coq terms
    def c_bytes(self, b):
        if b is None:
            raise OutsideModel("a ready shm entry without a segment")
        return clist([cN(x) for x in bytes(b)])

    def c_cmd(self, c):
        return f"(mkCmd {cN(self.hostnum(c.source))} {cN(self.hostnum(c.target))} {cN(self.addrnum(c.daddress))} {cN(self.dsnum(c.ds))} {cN(c.idx)})"

    def c_pay(self, header, value):
        return (f"(mkPay {cN(self.addrnum(header.confirm_address))} {cN(header.confirm_idx)} {cN(self.dsnum(header.ds))} "
                f"{cN(self.desnum(header.deser_fun))} {self.c_bytes(value)})")

    def c_frame(self, frames):
        import pickle
        from cascade.executor import msg
        try:
            m0 = pickle.loads(frames[0])
            m1 = pickle.loads(frames[1]) if isinstance(m0, msg.Syn) and len(frames) > 1 else None
        except Exception:
            raise OutsideModel("undecodable frame")
        if isinstance(m0, msg.Syn):
            if isinstance(m1, msg.DatasetTransmitPayloadHeader) and len(frames) == 3:
                return f"(FData {cN(m0.idx)} {cN(self.addrnum(m0.addr))} {self.c_pay(m1, frames[2])})"
            if isinstance(m1, msg.DatasetTransmitCommand) and len(frames) == 2:
                return f"(FCmd {cN(m0.idx)} {cN(self.addrnum(m0.addr))} {self.c_cmd(m1)})"
        elif isinstance(m0, msg.Ack) and len(frames) == 1:
            return f"(FAck {cN(m0.idx)})"
        elif isinstance(m0, msg.DatasetPurge) and len(frames) == 1:
            return f"(FPurge {cN(self.dsnum(m0.ds))})"
        raise OutsideModel(f"frame shape outside the model: {[type(m0).__name__, len(frames)]}")

    def c_aframe(self, af):
        return f"({cN(self.addrnum(af[0]))}, {self.c_frame(af[1])})"

    def c_netop(self, name, af):
        try:
            return f"OA ({name} {cN(self.addrnum(af[0]))} {self.c_frame(af[1])})"
        except OutsideModel as e:   # the trace goes on (the oracle judges it); there is no model term for it
            self.outside = str(e)
            return "OA (ATick 0)"

    def frame_kind(self, frames):
        import pickle
        from cascade.executor import msg
        try:
            m0 = pickle.loads(frames[0])
            if isinstance(m0, msg.Syn):
                m1 = pickle.loads(frames[1])
                if isinstance(m1, msg.DatasetTransmitCommand) and len(frames) == 2:
                    return ("cmd", m1.idx)
                if isinstance(m1, msg.DatasetTransmitPayloadHeader) and len(frames) == 3:
                    return ("data", m1.confirm_idx)
            elif isinstance(m0, msg.Ack) and len(frames) == 1:
                return ("ack", m0.idx)
            elif isinstance(m0, msg.DatasetPurge) and len(frames) == 1:
                return ("purge", None)
        except Exception:
            pass
        return ("garbled", None)

    def job_done_terms(self, h, k, finished):
        """pool jobs are atomic in the model: a job appears in the model's trace when it finishes"""
        cl = self.cluster
        for (ah, ak) in cl.finished_aside:   # jobs that had to finish first because this one waited for them (they exclude one another)
            self.terms.append(f"OA (AHost {cN(ah)} (HRunJob {cnat(ak)}))")
            self.skip_corr = True            # the order of their effects is the threads' business: the oracle judges, the model is not asked
            self.stats.add("job-waited-for-another-job")
        cl.finished_aside.clear()
        if finished:
            self.terms.append(f"OA (AHost {cN(h)} (HRunJob {cnat(k)}))")

    @staticmethod
    def seam(ok, what):
        if not ok:
            raise RuntimeError("the harness does not drive the implementation: " + what)

    # --- one operation
    def do(self, op):
        from cascade.executor.msg import DatasetTransmitCommand
        cl = self.cluster
        k = op["op"]
        nbefore = len(cl.net)
        t0, nterms = cl.clock.ns, len(self.terms)
        if k == "shmbusy":
            # the shm server of host h is slow: the (skip+1)-th request it gets from now on is answered ms later
            cl.shm_server[op["h"]].busy(op.get("skip", 0), op["ms"])
        elif k == "publish":
            b, d = self.content[op["ds"]]
            try:
                cl.publish(op["h"], self.dsl[op["ds"]], b, d)
            except Exception as e:
                # the worker could not publish (its shm client raised): the worker's business, not a transfer -- the host does not hold
                # the dataset, the run goes on (transfers of it from there are then not expected to complete)
                self.stats.add("worker-publication-failed:" + type(e).__name__)
                self.skip_corr = True
            else:
                self.local_pub.add((op["h"], op["ds"]))
                self.terms.append(f"OA (AHost {cN(op['h'])} (HPublish {cN(op['ds'])} {self.c_bytes(b)} {cN(self.desnum(d))}))")
        elif k == "transmit":
            c = DatasetTransmitCommand(source=cl.hname(op["src"]), target=cl.hname(op["tgt"]), daddress=cl.daddr(op["tgt"]),
                                       ds=self.dsl[op["ds"]], idx=op["idx"])
            sidx = cl.sender.idx
            held = self.ds2key[op["ds"]] in cl.shm[op["src"]].data
            self.cmds.append({**op, "held": held, "at": len(self.ops_done)})
            cl.command(c)
            self.seam(len(cl.net) == nbefore + 1 and cl.net[-1][0] == cl.daddr(op["src"]), "the controller's command did not appear on the fake wire")
            self.terms.append(f"OA (ACommand {self.c_cmd(c)} {cN(sidx)})")
        elif k == "purge":
            cl.purge(op["h"], self.dsl[op["ds"]])
            self.seam(len(cl.net) == nbefore + 1 and cl.net[-1][0] == cl.daddr(op["h"]), "the executor's purge message did not appear on the fake wire")
            self.terms.append(f"OA (APurge {cN(op['h'])} {cN(op['ds'])})")
        elif k in ("deliver", "drop", "dup"):
            af = cl.net[op["i"]]
            kind = self.frame_kind(af[1])
            for tag in cl.net_tags[op["i"]][:1]:
                if tag[0] == "job" and not cl.pool[tag[1]].jobs[tag[2]][3]:
                    # the job that sent this message is still under way (paused after the send, at an shm request): in the model a job
                    # and the message it sends are one step, taken when the job ends -- the oracle judges, the job model is not asked
                    self.skip_corr = True
                    self.stats.add("message-handled-before-its-sender-job-ended")
            t = self.c_netop({"deliver": "ADeliver", "drop": "ADrop", "dup": "ADup"}[k], af)
            if k == "deliver":
                if kind[0] == "cmd":
                    self.cmd_delivered.add(kind[1])
                cl.deliver(op["i"])
                self.terms.append(t)
            elif k == "drop":
                cl.drop(op["i"])
                self.stats.add("lost-" + kind[0])
                self.terms.append(t)
            else:
                cl.dup(op["i"])
                self.stats.add("dup-" + kind[0])
                self.terms.append(t)
        elif k == "tick":
            cl.advance_to(cl.clock.ns + op["ms"] * 1_000_000)
            self.terms.append(f"OA (ATick {cN(op['ms'] * 1_000_000)})")
        elif k == "iter":
            if op["h"] == 0:
                cl.iterate(0, [])
                self.terms.append("ORecv 0%N")
            else:
                npend = len(cl.pool[op["h"]].pending())
                cl.iterate(op["h"], op.get("picks", []))
                if cl.finished_aside:   # a job the loop waited for could not get on before another one finished (they exclude one another):
                    cl.finished_aside.clear()   # a schedule the model's wait() does not produce; the oracle still judges the trace
                    self.skip_corr = True
                    self.stats.add("wait-ran-jobs-in-another-order")
                if cl.used_picks:
                    self.stats.add("loop-blocked-in-wait")
                self.terms.append(f"OIter {cN(op['h'])} {clist([cnat(p) for p in op.get('picks', [])])}")
        elif k == "runjob":
            cl.run_job(op["h"], op["k"])
            self.job_done_terms(op["h"], op["k"], True)
        elif k == "stepjob":
            fin = cl.step_job(op["h"], op["k"], bool(op.get("fine")))
            self.stats.add("job-stepped")
            if op.get("fine"):
                self.stats.add("job-stepped-at-shm-requests")
            self.job_done_terms(op["h"], op["k"], fin)
        else:
            raise ValueError(k)
        if k != "tick" and cl.clock.ns > t0:
            # time passed inside the operation (a client waited for the shm server, or slept): the model's clock follows; a job reads
            # the clock when it ends, so the tick goes before whatever the operation contributed
            self.stats.add("time-passed-waiting-for-shm")
            if k == "iter":
                self.skip_corr = True    # ... but not into the middle of a loop iteration, which is one step of the model's trace
                self.stats.add("time-passed-inside-loop-iteration")
            else:
                self.terms.insert(nterms, f"OA (ATick {cN(cl.clock.ns - t0)})")
        for af in cl.net[nbefore:]:
            kind = self.frame_kind(af[1])
            if kind[0] == "data":
                self.data_frames_per_idx[kind[1]] = self.data_frames_per_idx.get(kind[1], 0) + 1
                if self.data_frames_per_idx[kind[1]] > 1 and k != "dup":
                    self.stats.add("payload-resent-after-grace")
                    if kind[1] == 0:
                        self.stats.add("payload-of-idx-0-resent")
        self.ops_done.append(op)
        self.check_step(op)

    # --- the property, read directly on the implementation (after every operation)
    def snapshot(self):
        return {i: dict(self.cluster.shm[i].data) for i in range(1, self.n + 1)}

    def fail(self, sig, what):
        self.fails.append((sig, f"after op {len(self.ops_done) - 1} {self.ops_done[-1] if self.ops_done else ''}: {what}"))

    def check_step(self, op):
        from cascade.executor import msg
        cl = self.cluster
        snap = self.snapshot()
        for i in range(1, self.n + 1):
            for key, (b, d) in snap[i].items():
                if key not in self.key2ds:
                    self.fail("stored-under-foreign-key", f"host h{i} holds shm key {key} that belongs to no dataset of the run")
                    continue
                ds = self.key2ds[key]
                if (b, d) != self.content[ds]:
                    self.fail("stored-bytes-differ", f"host h{i} holds dataset {self.case['datasets'][ds]} as ({b.hex() if b is not None else 'an entry without a segment'}, {d!r}), the source's is "
                              f"({self.content[ds][0].hex()}, {self.content[ds][1]!r})")
            for ds in self.purged[i]:
                if self.ds2key[ds] in snap[i]:
                    self.fail("resurrected-after-purge", f"host h{i} holds dataset {self.case['datasets'][ds]} again although it was purged there")
            evs = cl.events[i]
            for pos in range(self.seen_events[i], len(evs)):
                e = evs[pos]
                held, allocs = cl.event_ctx[i][pos]
                if isinstance(e, msg.DatasetPublished):
                    ds = self.dsnum(e.ds)
                    if e.origin != cl.hname(i) or e.transmit_idx is None:
                        self.fail("announcement-malformed", f"host h{i} announced {e}")
                    key = self.ds2key[ds]
                    if held.get(key) != self.content[ds]:
                        self.fail("announced-but-not-stored", f"host h{i} announced {self.case['datasets'][ds]} (transmit_idx={e.transmit_idx}) while not holding the source's bytes")
                    self.announced[(i, ds)] = self.announced.get((i, ds), 0) + 1
                    if allocs.get(key, 0) < self.announced[(i, ds)] + (1 if (i, ds) in self.local_pub else 0):
                        self.fail("announced-though-already-present", f"host h{i} announced the arrival of {self.case['datasets'][ds]} (transmit_idx={e.transmit_idx}) without having stored a new copy")
                    if self.announced[(i, ds)] > 1:
                        self.fail("announced-twice", f"host h{i} announced dataset {self.case['datasets'][ds]} {self.announced[(i, ds)]} times")
                elif isinstance(e, msg.DatasetTransmitFailure):
                    self.stats.add("transmit-failure-reported")
            self.seen_events[i] = len(evs)
        for m in cl.ctl_received[self.seen_ctl:]:
            if isinstance(m, msg.DatasetTransmitPayload):
                ds = self.dsnum(m.header.ds)
                if (bytes(m.value), m.header.deser_fun) != self.content[ds]:
                    self.fail("fetch-bytes-differ", f"controller received {self.case['datasets'][ds]} as ({bytes(m.value).hex()}, {m.header.deser_fun!r}), "
                              f"the source's is ({self.content[ds][0].hex()}, {self.content[ds][1]!r})")
                self.fetched[m.header.confirm_idx] = self.fetched.get(m.header.confirm_idx, 0) + 1
                if self.fetched[m.header.confirm_idx] > 1:
                    self.fail("fetch-delivered-twice", f"controller received the payload of fetch idx={m.header.confirm_idx} {self.fetched[m.header.confirm_idx]} times")
        self.seen_ctl = len(cl.ctl_received)
        for (address, lens, tags) in cl.mixed[self.seen_mixed:]:
            self.stats.add("frames-of-two-sends-mixed")
            self.fail("payload-frames-interleaved", f"a multipart message of {len(lens)} frames (sizes {lens}) was put on the wire to {address!r} whose frames were "
                      f"sent by different senders {[('h%s pool job %s' % (t[1], t[2])) if t[0] == 'job' else str(t) for t in tags]}: two sends shared one socket "
                      "at the same time, so no receiver gets either payload intact")
        self.seen_mixed = len(cl.mixed)
        if cl.ctl_crashed and not self.ctl_crash_seen:
            self.ctl_crash_seen = True
            self.fail("controller-listener-raised", f"the controller's Listener raised {cl.ctl_crashed} on what a data server sent to it")
        for (host, what) in cl.shm_hangs[self.seen_hangs:]:
            self.stats.add("shm-client-blocked")
            self.skip_corr = True
            self.fail("shm-client-blocked-forever", f"host h{host}: {what} (every request was answered once, to the socket it came from; "
                      f"answers that went to a closed socket: {len(cl.shm_lost_answers)}, receives given up: {len(cl.shm_timeouts)})")
        self.seen_hangs = len(cl.shm_hangs)
        for (host, data, resp) in cl.shm_lost_answers[self.seen_lost_answers:]:
            self.stats.add("shm-answer-went-to-closed-socket")
        self.seen_lost_answers = len(cl.shm_lost_answers)
        for (host, tmo) in cl.shm_timeouts[self.seen_timeouts:]:
            self.stats.add("shm-receive-given-up")
        self.seen_timeouts = len(cl.shm_timeouts)
        for i in range(1, self.n + 1):
            late = cl.shm_server[i].answered_late
            for ms in late[self.seen_late.get(i, 0):]:
                self.stats.add("shm-answer-late")
                for bound in (2000, 4000, 60000):
                    if ms > bound:
                        self.stats.add(f"shm-answer-later-than-{bound // 1000}s")
            self.seen_late[i] = len(late)
        for (host, key, pend, nopen) in cl.purge_violations:
            self.fail("purge-did-not-wait", f"host h{host}: shm purge of {self.case['datasets'][self.key2ds.get(key, 0)]} called while pool jobs {pend} on that dataset had not finished ({nopen} buffers open)")
        cl.purge_violations.clear()
        self.prev_store = snap

    def check_crashes(self):
        idxs = [c["idx"] for c in self.cmds]
        dup_idx = len(set(idxs)) != len(idxs)
        purges = {(o["h"], o["ds"]) for o in self.ops_done if o["op"] == "purge"}
        for i, why in self.cluster.crashed.items():
            if not why:
                continue
            legit = dup_idx or any(c["src"] == i and (i, c["ds"]) in purges for c in self.cmds)
            self.stats.add("loop-raised(legit: command for a purged dataset / idx reuse)" if legit else "loop-raised")
            if not legit:
                self.fail("data-server-crashed", f"recv_loop of h{i} raised {why} although no command named a dataset purged there and no idx was reused")

    def check_final(self):
        """after the loss-free drain at the end of the trace: every eligible transfer has arrived, once"""
        cl = self.cluster
        idxs = [c["idx"] for c in self.cmds]
        purges = {(o["h"], o["ds"]) for o in self.ops_done if o["op"] == "purge"}
        snap = self.snapshot()
        for c in self.cmds:
            src, tgt, ds, idx = c["src"], c["tgt"], c["ds"], c["idx"]
            if idxs.count(idx) != 1 or src == tgt or not c["held"] or idx not in self.cmd_delivered:
                continue
            if (src, ds) in purges or (tgt, ds) in purges or cl.crashed.get(src) or (tgt and cl.crashed.get(tgt)):
                continue
            name = self.case["datasets"][ds]
            if tgt == 0:
                if self.fetched.get(idx, 0) != 1:
                    self.fail("fetch-not-delivered", f"fetch idx={idx} of {name} from h{src}: controller received it {self.fetched.get(idx, 0)} times after the drain")
                else:
                    self.stats.add("fetch-completed")
                continue
            if snap[tgt].get(self.ds2key[ds]) != self.content[ds]:
                self.fail("transfer-not-completed", f"transfer idx={idx} of {name} h{src}->h{tgt}: target does not hold the dataset after the drain "
                          f"(its shm server: {cl.shm[tgt].describe(self.ds2key[ds])}; unfinished pool jobs there: {cl.pool[tgt].pending()}; "
                          f"announced {self.announced.get((tgt, ds), 0)} times)")
                continue
            want = 0 if (tgt, ds) in self.local_pub else 1
            if self.announced.get((tgt, ds), 0) != want:
                self.fail("arrival-not-announced-once", f"transfer idx={idx} of {name} h{src}->h{tgt}: target announced it {self.announced.get((tgt, ds), 0)} times, expected {want}")
            else:
                self.stats.add("transfer-completed")

    # --- observation for the model
    def observation(self):
        from cascade.executor import msg
        cl = self.cluster
        obs = []
        recv = []
        for m in cl.ctl_received:
            if isinstance(m, msg.DatasetTransmitPayload):
                recv.append(f"MPay {self.c_pay(m.header, m.value)}")
            elif isinstance(m, msg.Ack):
                recv.append(f"MAck {cN(m.idx)}")
            else:
                raise ValueError(f"controller received {type(m).__name__}")
        obs.append(f"mkObs 0%N [] [] false [] (Some {clist(recv)})")
        for i in range(1, self.n + 1):
            st = []
            for key, (b, d) in sorted(cl.shm[i].data.items(), key=lambda kv: self.key2ds.get(kv[0], 99)):
                st.append(f"({cN(self.key2ds[key])}, ({self.c_bytes(b)}, {cN(self.desnum(d))}))")
            out = []
            for e in cl.events[i]:
                if isinstance(e, msg.DatasetPublished):
                    out.append(f"EPublished {cN(self.dsnum(e.ds))} {cN(e.transmit_idx)}")
                elif isinstance(e, msg.DatasetTransmitFailure):
                    out.append("EFailure")
                else:
                    raise ValueError(f"callback {type(e).__name__}")
            obs.append(f"mkObs {cN(i)} {clist(st)} {clist(out)} {cbool(bool(cl.crashed[i]))} {clist([cnat(p) for p in cl.pool[i].pending()])} None")
        nt = clist([self.c_aframe(af) for af in cl.net])
        return clist(obs), nt

    def wire(self):
        """every frame send of the trace: (socket, sender, SNDMORE); senders numbered per case.  A pool job is one sender;
        the loop of a host / the controller / the executor send complete messages one after the other"""
        tags = {}
        out = []
        for (sid, tag, more, _addr) in self.cluster.wire_log:
            t = tags.setdefault(tag, len(tags))
            out.append(f"mkFS {cN(sid)} {cN(t)} {cbool(more)}")
        return clist(out)

    def wire_stats(self):
        """did the frame sends of two pool jobs interleave (on the wire log as a whole / towards one destination)?"""
        log = self.cluster.wire_log
        pos = {}
        for i, (sid, tag, more, addr) in enumerate(log):
            if tag[0] == "job":
                pos.setdefault(tag, []).append((i, addr, sid))
        for tag, ps in pos.items():
            lo, hi = ps[0][0], ps[-1][0]
            for j in range(lo + 1, hi):
                sid2, tag2, more2, addr2 = log[j]
                if tag2 != tag and tag2[0] == "job":
                    self.stats.add("pool-sends-interleaved")
                    if addr2 == ps[0][1]:
                        self.stats.add("pool-sends-interleaved-same-destination")
                        if sid2 == ps[0][2]:
                            self.stats.add("pool-sends-interleaved-same-socket")

    # --- the datagrams between the real shm client and the shm server of every host
    def c_req(self, data):
        api = self.cluster.shm_api
        try:
            q = api.deser(data)
            if isinstance(q, api.AllocateRequest):
                return f"RAlloc {cN(self.key2ds[q.key])} {cN(q.l)} {cN(self.desnum(q.deser_fun))}"
            if isinstance(q, api.CloseCallback):
                return f"RClose {cN(self.key2ds[q.key])} {cN(self.rdnum(q.rdid))}"
            if isinstance(q, api.GetRequest):
                return f"RGet {cN(self.key2ds[q.key])}"
            if isinstance(q, api.PurgeRequest):
                return f"RPurge {cN(self.key2ds[q.key])}"
            if isinstance(q, api.DatasetStatusRequest):
                return f"RStat {cN(self.key2ds[q.key])}"
            if isinstance(q, api.StatusInquiry):
                return "RPing"
        except Exception as e:
            raise OutsideModel(f"shm request outside the model: {e!r}")
        raise OutsideModel(f"shm request outside the model: {type(q).__name__}")

    @staticmethod
    def rdnum(rdid):
        if rdid == "":
            return 0
        if rdid[:1] == "r" and rdid[1:].isdigit():
            return int(rdid[1:])
        return 999_999   # a reader id the server never handed out

    def c_resp(self, host, data):
        api = self.cluster.shm_api
        srv = self.cluster.shm_server[host]
        by_shmid = {srv.shmid(key): k for key, k in self.key2ds.items()}
        try:
            p = api.deser(data)
            if isinstance(p, api.AllocateResponse):
                if p.error == "conflict":
                    return "PConflict"
                if p.error == "":
                    return f"PShm {cN(by_shmid[p.shmid])}"
            elif isinstance(p, api.GetResponse):
                if p.error == "wait":
                    return "PWait"
                if p.error == "":
                    return f"PGot {cN(by_shmid[p.shmid])} {cN(self.rdnum(p.rdid))} {cN(p.l)} {cN(self.desnum(p.deser_fun))}"
            elif isinstance(p, api.OkResponse):
                return "POk" if p.error == "" else "PFail"
            elif isinstance(p, api.DatasetStatusResponse):
                return f"PStat {cbool(p.status == api.DatasetStatus.ready)}"
        except Exception as e:
            raise OutsideModel(f"shm answer outside the model: {e!r}")
        raise OutsideModel(f"shm answer outside the model: {type(p).__name__}")

    def rpc_logs(self):
        """per host: every datagram event between the clients of its shm server and that server, in order"""
        cl = self.cluster
        socks = {}
        out = []
        for i in range(1, self.n + 1):
            evs = []
            waiting = {}     # socket -> the job (thread) whose request is unanswered
            log = cl.shm_server[i].log
            pos = 0
            while pos < len(log):
                ev = log[pos]
                sid = cN(socks.setdefault(ev[1], len(socks) + 1))
                if ev[0] == "send":
                    if any(t != ev[3] for t in waiting.values()):
                        self.stats.add("shm-requests-of-two-threads-overlap")
                    nxt = log[pos + 1:pos + 4]
                    if ([e[0] for e in nxt] == ["handle", "recv", "close"] and all(e[1] == ev[1] for e in nxt)
                            and nxt[0][2] == ev[2] and nxt[1][2] == nxt[0][3]):
                        # the usual run: sent, taken by the server, answer received, socket closed -- one item (Net/ShmRpcCheck.expand)
                        p = self.c_resp(i, nxt[0][3])
                        self.stats.add({"PConflict": "shm-answered-conflict", "PWait": "shm-answered-wait", "PFail": "shm-answered-error"}.get(p, "shm-answered"))
                        evs.append(f"MCall {sid} {cbool(nxt[0][4])} ({self.c_req(ev[2])}) ({p})")
                        pos += 4
                        continue
                    evs.append(f"MOne (LSend {sid} ({self.c_req(ev[2])}))")
                    waiting[ev[1]] = ev[3]
                elif ev[0] == "handle":
                    p = self.c_resp(i, ev[3])
                    evs.append(f"MOne (LHandle {cbool(ev[4])} ({p}))")
                    self.stats.add({"PConflict": "shm-answered-conflict", "PWait": "shm-answered-wait", "PFail": "shm-answered-error"}.get(p, "shm-answered"))
                elif ev[0] == "recv":
                    evs.append(f"MOne (LRecv {sid} ({self.c_resp(i, ev[2])}))")
                    waiting.pop(ev[1], None)
                elif ev[0] == "timeout":
                    evs.append(f"MOne (LTimeout {sid})")
                elif ev[0] == "close":
                    evs.append(f"MOne (LClose {sid})")
                    waiting.pop(ev[1], None)
                pos += 1
            out.append(clist(evs))
        return clist(out)

    def shm_overlap(self):
        """did two threads of a host work on ONE dataset's shm entry at overlapping times (from a thread's first request for the key
        to the last answer it got)?  Then the order of their effects is not the order in which the jobs end, which is what the
        atomic-job model is given: the oracle judges such a trace, the datagram log is still checked, the job model is not asked"""
        api = self.cluster.shm_api
        for i in range(1, self.n + 1):
            span = {}      # (thread, key) -> [first, last]
            sock_key = {}
            for pos, ev in enumerate(self.cluster.shm_server[i].log):
                if ev[0] == "send":
                    try:
                        key = getattr(api.deser(ev[2]), "key", None)
                    except Exception:
                        key = None
                    sock_key[ev[1]] = (ev[3], key)
                    span.setdefault((ev[3], key), [pos, pos])[1] = pos
                elif ev[0] == "recv" and ev[1] in sock_key:
                    span[sock_key[ev[1]]][1] = pos
            items = list(span.items())
            for a in range(len(items)):
                for b in range(a + 1, len(items)):
                    (ta, ka), (lo1, hi1) = items[a]
                    (tb, kb), (lo2, hi2) = items[b]
                    if ta != tb and ka == kb and ka is not None and lo1 < hi2 and lo2 < hi1:
                        return True
        return False

    def term(self):
        """(the trace for the atomic-job model | None, every frame send, every shm datagram event)"""
        trace = None
        if self.shm_overlap():
            self.stats.add("shm-requests-of-two-threads-for-one-dataset-overlap")
            self.skip_corr = True
        if not (self.outside or self.skip_corr):
            try:
                obs, nt = self.observation()
                trace = f"({clist(self.terms)},\n   {obs},\n   {nt})"
            except OutsideModel as e:
                self.outside = str(e)
        self.wire_stats()
        try:
            rpc = self.rpc_logs()
        except OutsideModel as e:
            self.outside = str(e)
            rpc = "[]"
        return f"({copt(trace)},\n   {self.wire()},\n   {rpc})"


# purges are detected through the fake shm: wrap on_purge bookkeeping into the runner
def _install_purge_tracking(r):
    cl = r.cluster
    orig = cl.on_purge

    def on_purge(host, key):
        orig(host, key)
        if key in r.key2ds:
            r.purged[host].add(r.key2ds[key])
            r.stats.add("purge-applied")
            if cl.used_picks:
                r.stats.add("purge-waited-for-running-jobs")
    cl.on_purge = on_purge


def drain(r, do, rounds=7):
    """loss-free, fair ending: everything in flight arrives, every loop runs, every job finishes, the grace period passes"""
    cl, n = r.cluster, r.n
    for rnd in range(rounds):
        while cl.net:
            do({"op": "deliver", "i": 0})
        for h in range(0, n + 1):
            for rep in range(8):   # a dropped duplicate ends recv_messages early: the rest is read by the next iteration
                do({"op": "iter", "h": h, "picks": []})
                if not cl.pull[h].queue or (h and cl.crashed[h]):
                    break
        for h in range(1, n + 1):
            for k in cl.pool[h].pending():
                do({"op": "runjob", "h": h, "k": k})
        do({"op": "tick", "ms": 4100})


def safe_term(r):
    """the case as a Coq term; the part for the atomic-job model is left out (None) when the trace is one that model is not asked
    about (r.skip_corr) or has no term for (r.outside, reported by run() unless an oracle fired)"""
    t = r.term()
    if r.outside:
        r.stats.add("trace-outside-model")
    return t


def execute(case, lenient=True):
    """replays a fully resolved case on the real code -> (runner).  Operations that do not apply to the behaviour of
    the current code (a frame or job index that does not exist here: the trace was resolved on other code) are skipped
    and counted, and the trace is then finished fairly before completion is judged"""
    with Runner(case) as r:
        _install_purge_tracking(r)
        for op in case["ops"]:
            if lenient:
                try:
                    r.do(op)
                except (IndexError, AssertionError, KeyError):
                    r.skipped += 1
            else:
                r.do(op)
        if case.get("drained"):   # a trace resolved on other code may end differently here: finish it fairly before judging completion
            drain(r, r.do)
        r.check_crashes()
        if case.get("drained"):
            r.check_final()
        term = safe_term(r)
    return r, term


# ----------------------------------------------------------------------------- scripts: operations named by what they act on
def resolve(r, sop):
    """a scripted step -> the concrete operation on the live cluster, or None when there is nothing of that kind now"""
    cl = r.cluster
    k = sop["op"]
    if k in ("deliver", "drop", "dup") and "to" in sop:
        for i, (address, frames) in enumerate(cl.net):
            if r.addrnum(address) == sop["to"] and r.frame_kind(frames)[0] == sop.get("kind", "data"):
                return {"op": k, "i": i}
        return None
    if k in ("runjob", "stepjob") and "k" not in sop:
        pend = cl.pool[sop["h"]].pending()
        nth = sop.get("nth", 0)
        if nth >= len(pend):
            return None
        return {"op": k, "h": sop["h"], "k": pend[nth], **({"fine": True} if sop.get("fine") else {})}
    return dict(sop)


def run_script(base, script, mode):
    """resolves a script online (like the random generator), then the loss-free drain -> (case, runner, term)"""
    case = {**base, "ops": [], "drained": True, "mode": mode}
    with Runner(case) as r:
        _install_purge_tracking(r)

        def do(op):
            case["ops"].append(op)
            r.do(op)
        for sop in script:
            op = resolve(r, sop)
            if op is None:
                r.stats.add("scripted-step-not-applicable")
                continue
            try:
                do(op)
            except (IndexError, AssertionError, KeyError):
                case["ops"].pop()
                r.stats.add("scripted-step-not-applicable")
        drain(r, do)
        r.check_crashes()
        r.check_final()
        term = safe_term(r)
    return case, r, term


# ----------------------------------------------------------------------------- generator (online: choices look at the live cluster)
def rbytes(rng):
    return bytes(rng.randrange(256) for _ in range(rng.choice([1, 1, 2, 3, 4, 6, 6, 17]))).hex()


def can_step(cl, h, k):
    pool = cl.pool[h]
    return k in pool.under_way() or len(pool.under_way()) < pool.max_workers


def gen_setup(rng, n, nds):
    names = [["t1", "0"], ["t1", "00"], ["t10", "0"], ["a", "bc"], ["ab", "c"]]
    rng.shuffle(names)
    datasets = names[:nds]
    content = []
    while len(content) < nds:
        c = [rbytes(rng), rng.choice(DESER)]
        if c not in content:
            content.append(c)
    return datasets, content


def gen_concurrent(rng):
    """several transfers (or fetches, or a transfer and a retry) from ONE source to ONE destination are under way on the
    source's pool at the same time and their frame sends interleave, possibly after earlier, completed transfers between
    the same two endpoints (whatever the source keeps from them -- sockets, buffers, counters -- is reused)"""
    n = rng.choice([2, 2, 3])
    nds = rng.choice([2, 3, 3, 4])
    datasets, content = gen_setup(rng, n, nds)
    case = {"nhosts": n, "datasets": datasets, "content": content, "ops": [], "drained": True, "mode": "concurrent"}
    with Runner(case) as r:
        _install_purge_tracking(r)
        cl = r.cluster

        def do(op):
            case["ops"].append(op)
            r.do(op)

        def settle(rounds=2, lose_data=False):
            for _ in range(rounds):
                while cl.net:
                    if lose_data and r.frame_kind(cl.net[0][1])[0] == "data":
                        do({"op": "drop", "i": 0})
                        lose_data = False
                    else:
                        do({"op": "deliver", "i": 0})
                for h in range(0, n + 1):
                    do({"op": "iter", "h": h, "picks": []})
                for h in range(1, n + 1):
                    for k in cl.pool[h].pending():
                        do({"op": "runjob", "h": h, "k": k})
        src = rng.randrange(1, n + 1)
        dest = rng.choice([h for h in range(0, n + 1) if h != src])
        for d in range(nds):
            do({"op": "publish", "h": src, "ds": d})
        free = list(range(nds))
        rng.shuffle(free)
        idx = rng.choice([0, 0, 1, 5])
        variant = rng.choice(["cold", "warm", "warm", "retry"])
        if variant in ("warm", "retry"):     # an earlier transfer between the same endpoints, completed (or its payload lost: a retry is due)
            d = free.pop()
            do({"op": "transmit", "src": src, "tgt": dest, "ds": d, "idx": idx})
            idx += 1
            settle(2, lose_data=(variant == "retry"))
            if variant == "retry":
                do({"op": "tick", "ms": rng.choice([4001, 4100, 6000])})
            elif rng.random() < 0.3:
                do({"op": "tick", "ms": rng.choice([100, 4100])})
        k = rng.choice([2, 2, 3]) if variant != "retry" else rng.choice([1, 2])
        for _ in range(min(k, len(free))):
            d = free.pop()
            tgt = dest if rng.random() < 0.85 else rng.choice([h for h in range(0, n + 1) if h != src])
            do({"op": "transmit", "src": src, "tgt": tgt, "ds": d, "idx": idx})
            idx += 1
        while any(r.frame_kind(f)[0] == "cmd" for _, f in cl.net):
            cands = [i for i, (_, f) in enumerate(cl.net) if r.frame_kind(f)[0] == "cmd"]
            do({"op": "deliver", "i": rng.choice(cands)})
        do({"op": "iter", "h": src, "picks": [rng.randrange(4) for _ in range(rng.choice([0, 0, 2]))]})
        # the pool: two workers take the jobs in submission order; which of the two gets on is the trace's choice
        guard = 0
        while cl.pool[src].pending() and guard < 60:
            guard += 1
            front = cl.pool[src].pending()[:cl.pool[src].max_workers]
            kk = rng.choice(front)
            x = rng.random()
            if x < 0.8 and can_step(cl, src, kk):
                do({"op": "stepjob", "h": src, "k": kk})
            elif x < 0.9:
                do({"op": "runjob", "h": src, "k": kk})
            elif cl.net:
                do({"op": "deliver", "i": rng.randrange(len(cl.net))})
            else:
                do({"op": "iter", "h": rng.randrange(0, n + 1), "picks": []})
        drain(r, do)
        r.check_crashes()
        r.check_final()
        term = safe_term(r)
    return case, r, term


SLOW_MS = [1, 40, 400, 1900, 2100, 2600, 3900, 4500, 9000, 31000, 61000]   # how much later an shm server answers (around 2 s, the 4 s grace, the 60 s of the client)


def gen_shm_target(rng):
    """several payloads reach ONE target at about the same time (transfers of different datasets, the same dataset from two
    holders or commanded twice, a dataset the target already has), its two pool threads store them with their shm requests
    interleaved as the trace says, while the target's shm server -- and now and then the source's -- answers late; sometimes the
    target is also asked to pass a dataset on (a fetch, a transfer) or to purge one while that goes on"""
    n = rng.choice([2, 3, 3])
    nds = rng.choice([1, 2, 2, 3])
    datasets, content = gen_setup(rng, n, nds)
    case = {"nhosts": n, "datasets": datasets, "content": content, "ops": [], "drained": True, "mode": "shm-target"}
    with Runner(case) as r:
        _install_purge_tracking(r)
        cl = r.cluster

        def do(op):
            case["ops"].append(op)
            r.do(op)

        def slow(h, p=0.5):
            if rng.random() < p:
                do({"op": "shmbusy", "h": h, "skip": rng.choice([0, 0, 0, 1, 1, 2]), "ms": rng.choice(SLOW_MS)})
        tgt = rng.randrange(1, n + 1)
        sources = [h for h in range(1, n + 1) if h != tgt]
        holders = {}
        for d in range(nds):
            hs = rng.sample(sources, rng.choice([1, 1, 2]) if len(sources) > 1 else 1)
            if rng.random() < 0.15:
                hs = hs + [tgt]            # the target has it already
            holders[d] = hs
            for h in hs:
                slow(h, 0.1)
                do({"op": "publish", "h": h, "ds": d})
        idx = rng.choice([0, 0, 1, 7])
        for _ in range(rng.choice([1, 2, 2, 3, 4])):
            d = rng.randrange(nds)
            src = rng.choice([h for h in holders[d] if h != tgt] or sources)
            do({"op": "transmit", "src": src, "tgt": tgt, "ds": d, "idx": idx})
            idx += 1
        extra = rng.random()
        passon = None
        if extra < 0.3:       # the target is to pass one of them on: commanded now, or while it is being stored
            passon = {"op": "transmit", "src": tgt, "tgt": rng.choice([0] + sources), "ds": rng.randrange(nds), "idx": idx}
            idx += 1
            if extra < 0.1:
                do(passon)
                passon = None
        # commands arrive, the sources send (their shm servers may be slow too)
        while any(r.frame_kind(f)[0] == "cmd" for _, f in cl.net):
            cands = [i for i, (_, f) in enumerate(cl.net) if r.frame_kind(f)[0] == "cmd"]
            do({"op": "deliver", "i": rng.choice(cands)})
        for h in range(1, n + 1):
            do({"op": "iter", "h": h, "picks": []})
        for h in sources:
            for k in cl.pool[h].pending():
                slow(h, 0.25)
                do({"op": "runjob", "h": h, "k": k})
        # the payloads arrive (one may be lost or doubled), the target's loop takes them
        lose = rng.random() < 0.2
        while any(r.frame_kind(f)[0] == "data" and a == cl.daddr(tgt) for a, f in cl.net):
            cands = [i for i, (a, f) in enumerate(cl.net) if r.frame_kind(f)[0] == "data" and a == cl.daddr(tgt)]
            i = rng.choice(cands)
            y = rng.random()
            if lose and y < 0.3:
                do({"op": "drop", "i": i})
                lose = False
            elif y < 0.4 and len(cands) < 5:
                do({"op": "dup", "i": i})
            else:
                do({"op": "deliver", "i": i})
            if rng.random() < 0.3:
                do({"op": "iter", "h": tgt, "picks": [rng.randrange(4) for _ in range(2)]})
        do({"op": "iter", "h": tgt, "picks": [rng.randrange(4) for _ in range(rng.choice([0, 2]))]})
        if extra > 0.8:
            do({"op": "purge", "h": tgt, "ds": rng.randrange(nds)})
        # the target's pool: which thread gets on, request by request; its shm server takes its time
        guard = 0
        fine = rng.random() < 0.8
        while cl.pool[tgt].pending() and guard < 80:
            guard += 1
            front = cl.pool[tgt].pending()[:cl.pool[tgt].max_workers]
            kk = rng.choice(front)
            x = rng.random()
            slow(tgt, 0.3)
            if passon is not None and cl.pool[tgt].under_way() and rng.random() < 0.4:
                do(passon)
                passon = None
                do({"op": "deliver", "i": len(cl.net) - 1})
                do({"op": "iter", "h": tgt, "picks": [rng.randrange(4) for _ in range(2)]})
            elif x < 0.7 and can_step(cl, tgt, kk):
                do({"op": "stepjob", "h": tgt, "k": kk, **({"fine": True} if fine else {})})
            elif x < 0.85:
                do({"op": "runjob", "h": tgt, "k": kk})
            elif x < 0.93 and cl.net:
                do({"op": "deliver", "i": rng.randrange(len(cl.net))})
            elif x < 0.97:
                do({"op": "tick", "ms": rng.choice([100, 2500, 4100])})
            else:
                do({"op": "iter", "h": rng.randrange(0, n + 1), "picks": [rng.randrange(4) for _ in range(2)]})
        if passon is not None:
            do(passon)
        drain(r, do)
        r.check_crashes()
        r.check_final()
        term = safe_term(r)
    return case, r, term


def gen_case(rng, mode="random"):
    if mode == "concurrent":
        return gen_concurrent(rng)
    if mode == "shm-target":
        return gen_shm_target(rng)
    n = rng.choice([2, 2, 3])
    nds = rng.choice([1, 2, 2, 3])
    datasets, content = gen_setup(rng, n, nds)
    case = {"nhosts": n, "datasets": datasets, "content": content, "ops": [], "drained": True, "mode": mode}
    with Runner(case) as r:
        _install_purge_tracking(r)
        cl = r.cluster

        def do(op):
            case["ops"].append(op)
            r.do(op)
        holders = {}
        for d in range(nds):
            hs = rng.sample(range(1, n + 1), rng.choice([1, 1, 2]) if n > 1 else 1)
            holders[d] = set(hs)
            for h in hs:
                do({"op": "publish", "h": h, "ds": d})
        # the plan of controller commands
        plan = []
        idx = rng.choice([0, 0, 0, 1, 3, 17])    # a real controller counts from 0
        ncmd = rng.choice([1, 2, 3, 4, 5, 6])
        for _ in range(ncmd):
            d = rng.randrange(nds)
            x = rng.random()
            if x < 0.55:
                src = rng.choice(sorted(holders[d])) if rng.random() < 0.9 else rng.randrange(1, n + 1)
                others = [h for h in range(1, n + 1) if h != src]
                tgt = rng.choice(others) if rng.random() < 0.95 else src
                plan.append({"op": "transmit", "src": src, "tgt": tgt, "ds": d, "idx": idx})
                idx += 1
                if rng.random() < 0.3:   # the controller issues the same transfer redundantly
                    src2 = rng.choice(sorted(holders[d]))
                    if src2 != tgt:
                        plan.append({"op": "transmit", "src": src2, "tgt": tgt, "ds": d, "idx": idx})
                        idx += 1
            elif x < 0.75:
                src = rng.choice(sorted(holders[d]))
                plan.append({"op": "transmit", "src": src, "tgt": 0, "ds": d, "idx": idx})
                idx += 1
            else:
                plan.append({"op": "purge", "h": rng.randrange(1, n + 1), "ds": d})
        if mode == "purge-race":
            d = rng.randrange(nds)
            src = rng.choice(sorted(holders[d]))
            tgt = rng.choice([h for h in range(1, n + 1) if h != src])
            plan = [{"op": "transmit", "src": src, "tgt": tgt, "ds": d, "idx": idx}, {"op": "purge", "h": rng.choice([src, tgt, tgt]), "ds": d}] + plan[:2]
            idx += 1
            if rng.random() < 0.5:
                plan.insert(1, {"op": "transmit", "src": src, "tgt": 0, "ds": d, "idx": idx})
        loss = rng.choice([0.0, 0.1, 0.25, 0.5])
        dupp = rng.choice([0.0, 0.1, 0.3])
        steps = rng.randrange(10, 70)
        slow = mode == "shm-slow"
        if slow:    # the shm servers are slow now and then (nothing else is drawn differently in the other modes)
            loss, dupp = rng.choice([0.0, 0.0, 0.1]), rng.choice([0.0, 0.1])
            pslow, pfine = rng.choice([0.08, 0.15, 0.3]), rng.choice([0.0, 0.5, 0.9])
        for _ in range(steps):
            x = rng.random()
            busy = [h for h in range(0, n + 1) if cl.pull[h].queue]
            pend = [(h, k) for h in range(1, n + 1) for k in cl.pool[h].pending()]
            if slow and rng.random() < pslow:
                do({"op": "shmbusy", "h": rng.randrange(1, n + 1), "skip": rng.choice([0, 0, 0, 1, 1, 2, 3]), "ms": rng.choice(SLOW_MS)})
            if slow and pend and x >= 0.70 and x < 0.88:
                h, k = rng.choice(pend)
                if rng.random() < 0.6 and can_step(cl, h, k):
                    do({"op": "stepjob", "h": h, "k": k, **({"fine": True} if rng.random() < pfine else {})})
                else:
                    do({"op": "runjob", "h": h, "k": k})
            elif plan and x < 0.15:
                do(plan.pop(0))
            elif cl.net and x < 0.45:
                i = rng.randrange(len(cl.net))
                kind = r.frame_kind(cl.net[i][1])[0]
                y = rng.random()
                if y < loss and kind in ("data", "ack", "cmd"):
                    do({"op": "drop", "i": i})
                elif y < loss + dupp:
                    do({"op": "dup", "i": i})
                else:
                    do({"op": "deliver", "i": i})
            elif x < 0.70:
                h = rng.choice(busy) if busy and rng.random() < 0.8 else rng.randrange(0, n + 1)
                do({"op": "iter", "h": h, "picks": [rng.randrange(4) for _ in range(rng.choice([0, 2, 4]))]})
            elif pend and x < 0.88:
                h, k = rng.choice(pend)
                if rng.random() < 0.4 and can_step(cl, h, k):
                    do({"op": "stepjob", "h": h, "k": k})
                else:
                    do({"op": "runjob", "h": h, "k": k})
            else:
                do({"op": "tick", "ms": rng.choice([500, 1000, 3999, 4000, 4001, 5000, 9000])})
        for p in plan:
            do(p)
        drain(r, do)
        r.check_crashes()
        r.check_final()
        term = safe_term(r)
    return case, r, term


def corpus():
    """hand-written histories as scripts (steps name what they act on, they are resolved on the live cluster): loss of the payload,
    loss of the ack, duplicate payload, redundant transfer, purge racing a store, payload after purge, a duplicated fetch; repeated
    loss for the controller's first transfers (idx 0, 1); frame-by-frame interleaving of two sends to one destination after an
    earlier transfer to it, of two fetches, and of a transfer with a retry -> [(base, script)]"""
    base = {"nhosts": 2, "datasets": [["t1", "0"], ["t1", "00"], ["t10", "0"]],
            "content": [["00ff10", "cloudpickle.loads"], ["aa", "numpy.load"], ["0b0c", ""]]}
    pub = {"op": "publish", "h": 1, "ds": 0}
    pub1 = {"op": "publish", "h": 1, "ds": 1}
    pub2 = {"op": "publish", "h": 1, "ds": 2}
    tx = {"op": "transmit", "src": 1, "tgt": 2, "ds": 0, "idx": 0}
    it1, it2, it0 = ({"op": "iter", "h": h, "picks": []} for h in (1, 2, 0))
    D = lambda kind, to: {"op": "deliver", "to": to, "kind": kind}
    X = lambda kind, to: {"op": "drop", "to": to, "kind": kind}
    U = lambda kind, to: {"op": "dup", "to": to, "kind": kind}
    rj = lambda h, nth=0: {"op": "runjob", "h": h, "nth": nth}
    sj = lambda h, nth=0: {"op": "stepjob", "h": h, "nth": nth}
    T = lambda s, t, d, i: {"op": "transmit", "src": s, "tgt": t, "ds": d, "idx": i}
    tick = {"op": "tick", "ms": 4100}
    purge2 = {"op": "purge", "h": 2, "ds": 0}
    out = []
    out.append([pub, tx, D("cmd", 1), it1, rj(1), D("ack", 0), D("data", 2), it2, rj(2), it1, D("ack", 1), it1, it0, tick, it1])       # happy path
    out.append([pub, tx, D("cmd", 1), it1, rj(1), D("ack", 0), X("data", 2), it1, tick, it1, rj(1), D("data", 2), it2, rj(2), D("ack", 1), it1, tick, it1, tick, it1])   # payload lost, resent
    out.append([pub, tx, D("cmd", 1), it1, rj(1), D("ack", 0), D("data", 2), it2, X("ack", 1), rj(2), it1, tick, it1, rj(1), D("data", 2), it2, D("ack", 1), it1, tick, tick, it1])  # ack lost
    out.append([pub, tx, D("cmd", 1), it1, rj(1), U("data", 2), D("ack", 0), D("data", 2), D("data", 2), it2, it2, rj(2)])                 # duplicated payload
    out.append([pub, {"op": "publish", "h": 2, "ds": 0}, tx, D("cmd", 1), it1, rj(1), D("ack", 0), D("data", 2), it2, rj(2)])            # target already has it
    out.append([pub, tx, D("cmd", 1), it1, rj(1), D("ack", 0), D("data", 2), purge2, D("purge", 2), {"op": "iter", "h": 2, "picks": [0]}])  # purge races the store
    out.append([pub, tx, D("cmd", 1), it1, rj(1), purge2, D("purge", 2), it2, D("ack", 0), D("data", 2), it2])                             # payload after purge
    out.append([pub, T(1, 0, 0, 5), D("cmd", 1), it1, rj(1), U("data", 0), D("ack", 0), D("data", 0), D("data", 0), it0, it0, it0])        # fetch, duplicated
    # the controller's first transfers: the payload of idx 0 is lost twice, later the payload of idx 1 once
    out.append([pub, pub1, tx, D("cmd", 1), it1, rj(1), X("data", 2), tick, it1, rj(1), X("data", 2), tick, it1, rj(1), D("data", 2), it2, rj(2),
                D("ack", 1), it1, T(1, 2, 1, 1), D("cmd", 1), it1, rj(1), X("data", 2), tick, it1, it1, tick, it1])
    # idx 0 confirmed long ago, idx 1 lost afterwards
    out.append([pub, pub1, tx, D("cmd", 1), it1, rj(1), D("data", 2), it2, rj(2), D("ack", 1), it1, tick, it1, tick, it1,
                T(1, 2, 1, 1), D("cmd", 1), it1, rj(1), X("data", 2), tick, it1, tick, it1])
    # an earlier transfer h1 -> h2, then two more whose sends interleave frame by frame on the pool's two threads
    warm = [pub, pub1, pub2, tx, D("cmd", 1), it1, rj(1), D("data", 2), it2, rj(2), D("ack", 1), it1]
    for pattern in ([0, 1, 0, 1, 0, 1], [0, 1, 1, 0, 0], [0, 0, 1, 1, 1, 0], [1, 0, 0, 1]):
        out.append(warm + [T(1, 2, 1, 1), T(1, 2, 2, 2), D("cmd", 1), D("cmd", 1), it1] + [sj(1, nth) for nth in pattern])
    # two fetches of the controller interleaved, with and without an earlier fetch
    out.append([pub, pub1, T(1, 0, 0, 0), T(1, 0, 1, 1), D("cmd", 1), D("cmd", 1), it1, sj(1, 0), sj(1, 1), sj(1, 0), sj(1, 1), sj(1, 0), sj(1, 1)])
    out.append([pub, pub1, pub2, T(1, 0, 2, 0), D("cmd", 1), it1, rj(1), D("data", 0), it0, T(1, 0, 0, 1), T(1, 0, 1, 2), D("cmd", 1), D("cmd", 1), it1,
                sj(1, 0), sj(1, 1), sj(1, 1), sj(1, 0), sj(1, 0)])
    # a retry of a lost payload interleaved with a new transfer to the same target
    out.append([pub, pub1, tx, D("cmd", 1), it1, rj(1), X("data", 2), tick, T(1, 2, 1, 1), D("cmd", 1), it1, sj(1, 0), sj(1, 1), sj(1, 0), sj(1, 1), sj(1, 0)])
    # sends to two different destinations interleaved (nothing is shared between them)
    out.append([pub, pub1, T(1, 2, 0, 0), T(1, 0, 1, 1), D("cmd", 1), D("cmd", 1), it1, sj(1, 0), sj(1, 1), sj(1, 0), sj(1, 1), sj(1, 0), sj(1, 1)])
    # --- a slow shm server (a busy spell, a deep queue, a lock held by a page-out): its answer to one request comes late
    B = lambda h, ms, skip=0: {"op": "shmbusy", "h": h, "ms": ms, "skip": skip}
    fj = lambda h, nth=0: {"op": "stepjob", "h": h, "nth": nth, "fine": True}
    for ms in (300, 2100, 2600, 5000, 70000):
        # ... of the target, to the allocate / to the close of the store
        out.append([pub, tx, D("cmd", 1), it1, rj(1), D("ack", 0), D("data", 2), it2, B(2, ms), rj(2), it1, D("ack", 1), it1, it0])
        out.append([pub, tx, D("cmd", 1), it1, rj(1), D("ack", 0), D("data", 2), it2, B(2, ms, 1), rj(2), it1, D("ack", 1), it1, it0])
    for ms in (2600, 70000):
        # ... of the source, to the get / to the reader's close of the send; to the get of a fetch; to a worker's allocate; to the purge
        out.append([pub, tx, D("cmd", 1), it1, B(1, ms), rj(1), D("ack", 0), D("data", 2), it2, rj(2), D("ack", 1), it1, tick, it1])
        out.append([pub, tx, D("cmd", 1), it1, B(1, ms, 1), rj(1), D("ack", 0), D("data", 2), it2, rj(2), D("ack", 1), it1, tick, it1])
        out.append([pub, T(1, 0, 0, 0), D("cmd", 1), it1, B(1, ms), rj(1), D("data", 0), it0, D("ack", 1), it1, tick, it1])
        out.append([B(1, ms), pub, tx, D("cmd", 1), it1, rj(1), D("data", 2), it2, rj(2), D("ack", 1), it1])
        out.append([pub, tx, D("cmd", 1), it1, rj(1), D("data", 2), it2, rj(2), D("ack", 1), it1, B(2, ms), purge2, D("purge", 2), it2, T(1, 2, 0, 1), D("cmd", 1), it1])
        # ... while the source sends the payload again after the grace period: the second copy is confirmed and dropped
        out.append([pub, tx, D("cmd", 1), it1, rj(1), D("data", 2), it2, B(2, ms), fj(2), tick, it1, rj(1), D("data", 2), fj(2), fj(2), fj(2), it2, D("ack", 1), D("ack", 1), it1])
    # the same transfer commanded twice: the two stores of the target ask its shm server at the same time (allocate / allocate, the
    # second one is told `conflict` while the first is still writing), in both orders, with a slow answer in between
    twice = [pub, tx, T(1, 2, 0, 1), D("cmd", 1), D("cmd", 1), it1, rj(1), rj(1), D("data", 2), D("data", 2), it2]
    for pattern in ([0, 1, 0, 1, 0, 1], [0, 1, 1, 1, 0, 0], [1, 0, 0, 0, 1], [0, 0, 1, 1, 0, 1]):
        out.append(twice + [fj(2, nth) for nth in pattern])
        out.append(twice + [B(2, 2600, 1)] + [fj(2, nth) for nth in pattern])
    # two different datasets stored at the same time, request by request
    out.append([pub, pub1, tx, T(1, 2, 1, 1), D("cmd", 1), D("cmd", 1), it1, rj(1), rj(1), D("data", 2), D("data", 2), it2, B(2, 2600),
                fj(2, 0), fj(2, 1), fj(2, 0), fj(2, 1), fj(2, 0), fj(2, 1)])
    # the target is asked for the dataset (a fetch) while it is still writing it: its shm server says `wait` until the store has closed
    out.append([pub, tx, D("cmd", 1), it1, rj(1), D("data", 2), it2, fj(2, 0), T(2, 0, 0, 1), D("cmd", 2), it2, fj(2, 1), fj(2, 1), fj(2, 0), fj(2, 1), fj(2, 0), fj(2, 1)])
    out.append([pub, tx, D("cmd", 1), it1, rj(1), D("data", 2), it2, fj(2, 0), T(2, 0, 0, 1), D("cmd", 2), it2, rj(2, 1)])
    return [(base, script) for script in out]


# ----------------------------------------------------------------------------- run / search / replay
def case_key(case):
    return hashlib.sha1(json.dumps(case, sort_keys=True).encode()).hexdigest()


def nontrivial(r):
    s = r.stats
    return bool({"transfer-completed", "fetch-completed", "purge-applied"} & s) and bool(
        {"lost-data", "lost-ack", "dup-data", "dup-ack", "payload-resent-after-grace", "purge-waited-for-running-jobs", "loop-blocked-in-wait",
         "pool-sends-interleaved", "shm-answer-late", "shm-requests-of-two-threads-overlap", "shm-answered-wait"} & s)


STREAMS = [("random", 450, 12000), ("purge-race", 150, 5000), ("concurrent", 150, 4000), ("shm-slow", 90, 4000), ("shm-target", 90, 4000)]


def guarded(make, res, stream):
    """one case; an exception of the harness itself on this case is contained (the other cases still run) and reported
    as a broken correspondence"""
    import traceback
    try:
        return make()
    except Exception as e:
        res.count("harness-exception:" + stream)
        if not any("harness exception" in d["what"] for d in res.disagreements):
            res.disagree(f"harness exception while driving the implementation on a {stream} case: {e!r}", {"traceback": traceback.format_exc()[-3000:]})
        return None


def run(ctx, res):
    res.rule = ("a trace (2-3 data servers + controller, 1-4 datasets, 1-7 transfer/fetch/purge commands incl. redundant ones, transfer idx counted from 0, "
                "random delivery / loss / duplication of command, payload and ack frames, loop iterations, pool-job completions and frame-by-frame or "
                "shm-request-by-request steps of up to two pool jobs at a time, shm servers answering 1 ms - 61 s late, clock ticks across the 4 s grace "
                "period, then a loss-free drain) counts as non-trivial when a transfer or "
                "fetch completed or a purge was applied AND a payload/ack frame was lost or duplicated, or a payload was re-sent after the grace period, "
                "or the loop blocked in wait() while jobs ran, or the frame sends of two pool jobs interleaved, or an shm server answered late or `wait`, "
                "or the shm requests of two threads overlapped; distinct = distinct resolved op lists")
    terms, metas = [], []

    def one(got, stream):
        if got is None:
            return
        case, r, term = got
        res.evaluations += 1
        res.count("stream:" + stream)
        for s in sorted(r.stats):
            res.count("has:" + s)
        res.count(f"hosts:{case['nhosts']}")
        res.count("first-idx:%s" % min([o["idx"] for o in case["ops"] if o["op"] == "transmit"], default="-"))
        res.count("ops:%d-%d" % (len(case["ops"]) // 50 * 50, len(case["ops"]) // 50 * 50 + 49))
        if nontrivial(r):
            res.nontrivial_keys.add(case_key(case))
        for sig, what in r.fails[:1]:
            res.fail(sig, what, case)
        if len(res.samples) < 3 and stream == "random" and nontrivial(r):
            res.samples.append({"nhosts": case["nhosts"], "datasets": case["datasets"], "ops": case["ops"][:25], "stats": sorted(r.stats)})
        if r.outside and not r.fails and not r.skip_corr:
            res.disagree("the trace contains a message the Coq model has no term for (" + str(r.outside) + ") although no oracle fired", case)
        if r.skip_corr:
            res.count("atomic-job-model-not-asked")
        terms.append(term)
        metas.append(case)

    for base, script in corpus():
        one(guarded(lambda: run_script(base, script, "corpus"), res, "corpus"), "corpus")
    for stream, nq, nt in STREAMS:
        rng = ctx.sub_rng(stream)
        for _ in range(ctx.n(nq, nt)):
            one(guarded(lambda: gen_case(rng, mode=stream), res, stream), stream)
    if res.evaluations >= 50 and not res.failures and not (res.histogram.get("has:transfer-completed") and res.histogram.get("has:fetch-completed")):
        res.disagree("no transfer / no fetch completed in any of the traces: the harness does not drive the implementation any more", {})
    results, logs = coq_results("C07", HEADER, terms, "check_case_r", tag="trace", shard=60, timeout=900,
                                case_type="option (list op * list hobs * list (N * frame)) * list fsend * list (list mev)")
    res.corr_checked += len(results)
    for ok, case in zip(results, metas):
        if ok is not True:
            res.disagree("Coq model (Net.DataServer.run_ops, Net.Multipart.wrun, Net.ShmRpc.srun) and the real DataServer / Listener / shm client differ on the observable "
                         "end state of a trace, on the frames put on the wire, or on the datagrams exchanged with the shm server (one request, one awaited answer)" +
                         ("" if ok is False else " (cases file did not compile: " + (logs[0][-400:] if logs else "") + ")"), case)
            break


def search(ctx, res):
    """enlarged search for a concrete failing input (oracle only)"""
    def found(case, r):
        return shrink(ctx, {"signature": r.fails[0][0], "what": r.fails[0][1], "case": case})
    for d in res.disagreements:
        c = d.get("case")
        if c and c.get("ops"):
            try:
                r, _ = execute(c)
            except Exception:
                continue
            if r.fails:
                return found(c, r)
    for base, script in corpus():
        try:
            case, r, _ = run_script(base, script, "corpus")
        except Exception:
            continue
        if r.fails:
            return found(case, r)
    modes = ["shm-target", "random", "concurrent", "shm-slow", "purge-race", "concurrent", "random", "purge-race"]
    for k, mode in enumerate(modes):
        rng = ctx.sub_rng(f"search{k}")
        for _ in range(1000):
            try:
                case, r, _ = gen_case(rng, mode=mode)
            except Exception:
                continue
            if r.fails:
                return found(case, r)
    return None


def shrink(ctx, f):
    """drop operations while the same failure class remains (index-resolved ops may become invalid: such trials are skipped)"""
    case = f["case"]
    sig = f["signature"]
    if sig in ("transfer-not-completed", "fetch-not-delivered", "arrival-not-announced-once"):
        return f   # these are judged after the loss-free drain at the end of the trace; removing operations would break the drain

    def still(ops):
        try:
            r, _ = execute({**case, "ops": ops})
        except Exception:
            return None
        for s, w in r.fails:
            if s == sig:
                return w
        return None
    ops = list(case["ops"])
    what = still(ops)
    if what is None:
        return f
    changed = True
    budget = 400
    while changed and budget > 0:
        changed = False
        for i in range(len(ops) - 1, -1, -1):
            budget -= 1
            if budget <= 0:
                break
            trial = ops[:i] + ops[i + 1:]
            w = still(trial)
            if w is not None:
                ops, what, changed = trial, w, True
    return {"signature": sig, "what": what, "case": {**case, "ops": ops, "mode": case.get("mode", "?") + "+shrunk"}}


def replay(ctx, case):
    c = case.get("case") or (case.get("first_disagreement") or {}).get("case") or case
    if not c.get("ops"):
        return {"fails": None, "note": "no op list in this replay file"}
    r, _ = execute(c)
    return {"fails": bool(r.fails), "failures": [{"signature": s, "what": w} for s, w in r.fails], "stats": sorted(r.stats),
            "operations_not_applicable_to_this_code": r.skipped,
            "crashed": {f"h{i}": w for i, w in r.cluster.crashed.items() if w}}
