"""C07 -- a transfer stores the dataset once, byte-identical, and announces it once.

The REAL cascade.executor.data_server.DataServer objects (one per host, built by their real __init__) and REAL
comms.Listener / callback / send_data / ReliableSender run in-process over harness/fakes/ds_fakes.py: a bag-of-frames
network that the trace loses / duplicates / delays, a manual thread pool (jobs finish when the trace says, also inside
wait()), a per-host fake shm client with the conflict rule of cascade.shm, and a fake clock.  One trace step = one
iteration of the real recv_loop, one pool job, one network event, one controller command, or a clock tick.

* oracle: a direct reading of the property on what the hosts' shm stores contain, what is called back to the message
  socket, what the controller's listener returns, and when shm purge is called (independent of the model);
* correspondence: the same trace is evaluated by the Coq model (Net/DataServer.v) and the observable end state compared
  inside Coq (Net/DataServerCheck.check_case)."""
import hashlib
import itertools
import json
import os
import sys

sys.path.insert(0, os.path.join(os.path.dirname(os.path.abspath(__file__)), "fakes"))

from common import cN, cbool, clist, cnat, copt, cstr, coq_results  # noqa: E402

TRUSTED = [
    "harness/fakes/ds_fakes.py: fake PUSH/PULL sockets and poller (a bag of frames), manual thread pool + data_server.wait "
    "(the trace picks which job finishes while the loop blocks), per-host fake shm client (allocate on an existing key -> ConflictError, "
    "get of a missing key -> ValueError, purge of a missing key -> nothing; as cascade.shm.dataset.Manager), fake clock",
    "name -> number maps for hosts/addresses, dataset ids and deser_fun strings (injective per case); pickle framing of messages is in the loop "
    "on the implementation side and not modelled (frames are compared after des_message)",
]
ASSUMPTIONS = [
    "jobs given to ds_proc_tp (send_payload / store_payload) are atomic w.r.t. the loop: the loop looks at them only through Future.done() in "
    "maybe_clean / wait, and their effects (shm allocate+write+close, one send) do not interleave with another job on the same dataset "
    "(cascade.shm serialises allocate/get per key: a second allocate conflicts, a get of an unclosed buffer waits)",
    "ds2shmid is injective on the datasets of a run (md5 of a separator-safe encoding)",
    "a dataset id denotes one value: every worker publication of dataset d carries content(d); a worker publishes d at most once per host "
    "and never after d was purged there (Section variable `content`, trace well-formedness of HPublish)",
    "transfer indices are unique per command (Bridge.transmit_idx_counter) -- needed only for the progress theorems, not for the safety ones",
    "an exception leaving recv_loop kills the process (the parent monitors it, C05); queued pool jobs may still run",
    "the shm server never answers capacity-exceeded / timeout to the data server; zero-length datasets are not generated",
]

HEADER = """From Coq Require Import List NArith ZArith String.
From EKW Require Import Net.DataServer Net.DataServerCheck.
Import ListNotations.
Open Scope string_scope.
"""

DESER = ["cloudpickle.loads", "numpy.load", "earthkit.data.from_bytes", ""]


# ----------------------------------------------------------------------------- running one case on the real code
class Runner:
    def __init__(self, case):
        from ds_fakes import Cluster
        from cascade.low.core import DatasetId
        self.case = case
        self.n = case["nhosts"]
        self.dsl = [DatasetId(t, o) for t, o in case["datasets"]]
        self.content = [(bytes.fromhex(h), d) for h, d in case["content"]]
        self.cluster = Cluster(self.n)
        self.terms = []
        self.fails = []          # (signature, what)
        self.ops_done = []
        # oracle state
        self.purged = {i: set() for i in range(1, self.n + 1)}
        self.announced = {}
        self.seen_events = {i: 0 for i in range(1, self.n + 1)}
        self.seen_ctl = 0
        self.fetched = {}
        self.cmds = []           # dicts
        self.cmd_delivered = set()
        self.local_pub = set()
        self.stats = set()
        self.data_frames_per_idx = {}
        self.cm = None

    def __enter__(self):
        self.cm = self.cluster.patched()
        self.cm.__enter__()
        from cascade.executor.runner.memory import ds2shmid
        self.key2ds = {ds2shmid(d): k for k, d in enumerate(self.dsl)}
        self.ds2key = {k: ds2shmid(d) for k, d in enumerate(self.dsl)}
        self.prev_store = self.snapshot()
        return self

    def __exit__(self, *a):
        return self.cm.__exit__(*a)

    # --- numbering
    def dsnum(self, ds):
        return self.dsl.index(ds)

    @staticmethod
    def addrnum(a):
        return 0 if a == "ctl" else int(a[1:])

    @staticmethod
    def hostnum(h):
        return 0 if h == "controller" else int(h[1:])

    @staticmethod
    def desnum(s):
        return DESER.index(s)

    # --- Coq terms
    def c_bytes(self, b):
        return clist([cN(x) for x in bytes(b)])

    def c_cmd(self, c):
        return f"(mkCmd {cN(self.hostnum(c.source))} {cN(self.hostnum(c.target))} {cN(self.addrnum(c.daddress))} {cN(self.dsnum(c.ds))} {cN(c.idx)})"

    def c_pay(self, header, value):
        return (f"(mkPay {cN(self.addrnum(header.confirm_address))} {cN(header.confirm_idx)} {cN(self.dsnum(header.ds))} "
                f"{cN(self.desnum(header.deser_fun))} {self.c_bytes(value)})")

    def c_frame(self, frames):
        import pickle
        from cascade.executor import msg
        m0 = pickle.loads(frames[0])
        if isinstance(m0, msg.Syn):
            m1 = pickle.loads(frames[1])
            if isinstance(m1, msg.DatasetTransmitPayloadHeader) and len(frames) == 3:
                return f"(FData {cN(m0.idx)} {cN(self.addrnum(m0.addr))} {self.c_pay(m1, frames[2])})"
            if isinstance(m1, msg.DatasetTransmitCommand) and len(frames) == 2:
                return f"(FCmd {cN(m0.idx)} {cN(self.addrnum(m0.addr))} {self.c_cmd(m1)})"
        elif isinstance(m0, msg.Ack) and len(frames) == 1:
            return f"(FAck {cN(m0.idx)})"
        elif isinstance(m0, msg.DatasetPurge) and len(frames) == 1:
            return f"(FPurge {cN(self.dsnum(m0.ds))})"
        raise ValueError(f"frame shape outside the model: {[type(m0).__name__, len(frames)]}")

    def c_aframe(self, af):
        return f"({cN(self.addrnum(af[0]))}, {self.c_frame(af[1])})"

    def c_netop(self, name, af):
        return f"OA ({name} {cN(self.addrnum(af[0]))} {self.c_frame(af[1])})"

    def frame_kind(self, frames):
        import pickle
        from cascade.executor import msg
        m0 = pickle.loads(frames[0])
        if isinstance(m0, msg.Syn):
            m1 = pickle.loads(frames[1])
            if isinstance(m1, msg.DatasetTransmitCommand):
                return ("cmd", m1.idx)
            return ("data", m1.confirm_idx)
        if isinstance(m0, msg.Ack):
            return ("ack", m0.idx)
        return ("purge", None)

    # --- one operation
    def do(self, op):
        from cascade.executor.msg import DatasetTransmitCommand
        cl = self.cluster
        k = op["op"]
        nbefore = len(cl.net)
        if k == "publish":
            b, d = self.content[op["ds"]]
            cl.publish(op["h"], self.dsl[op["ds"]], b, d)
            self.local_pub.add((op["h"], op["ds"]))
            self.terms.append(f"OA (AHost {cN(op['h'])} (HPublish {cN(op['ds'])} {self.c_bytes(b)} {cN(self.desnum(d))}))")
        elif k == "transmit":
            c = DatasetTransmitCommand(source=cl.hname(op["src"]), target=cl.hname(op["tgt"]), daddress=cl.daddr(op["tgt"]),
                                       ds=self.dsl[op["ds"]], idx=op["idx"])
            sidx = cl.sender.idx
            held = self.ds2key[op["ds"]] in cl.shm[op["src"]].data
            self.cmds.append({**op, "held": held, "at": len(self.ops_done)})
            cl.command(c)
            self.terms.append(f"OA (ACommand {self.c_cmd(c)} {cN(sidx)})")
        elif k == "purge":
            cl.purge(op["h"], self.dsl[op["ds"]])
            self.terms.append(f"OA (APurge {cN(op['h'])} {cN(op['ds'])})")
        elif k in ("deliver", "drop", "dup"):
            af = cl.net[op["i"]]
            kind = self.frame_kind(af[1])
            t = self.c_netop({"deliver": "ADeliver", "drop": "ADrop", "dup": "ADup"}[k], af)
            if k == "deliver":
                if kind[0] == "cmd":
                    self.cmd_delivered.add(kind[1])
                cl.deliver(op["i"])
                self.terms.append(t)
            elif k == "drop":
                cl.drop(op["i"])
                self.stats.add("lost-" + kind[0])
                self.terms.append(t)
            else:
                cl.dup(op["i"])
                self.stats.add("dup-" + kind[0])
                self.terms.append(t)
        elif k == "tick":
            cl.clock.ns += op["ms"] * 1_000_000
            self.terms.append(f"OA (ATick {cN(op['ms'] * 1_000_000)})")
        elif k == "iter":
            if op["h"] == 0:
                cl.iterate(0, [])
                self.terms.append("ORecv 0%N")
            else:
                npend = len(cl.pool[op["h"]].pending())
                cl.iterate(op["h"], op.get("picks", []))
                if cl.used_picks:
                    self.stats.add("loop-blocked-in-wait")
                self.terms.append(f"OIter {cN(op['h'])} {clist([cnat(p) for p in op.get('picks', [])])}")
        elif k == "runjob":
            cl.run_job(op["h"], op["k"])
            self.terms.append(f"OA (AHost {cN(op['h'])} (HRunJob {cnat(op['k'])}))")
        else:
            raise ValueError(k)
        for af in cl.net[nbefore:]:
            kind = self.frame_kind(af[1])
            if kind[0] == "data":
                self.data_frames_per_idx[kind[1]] = self.data_frames_per_idx.get(kind[1], 0) + 1
                if self.data_frames_per_idx[kind[1]] > 1 and k != "dup":
                    self.stats.add("payload-resent-after-grace")
        self.ops_done.append(op)
        self.check_step(op)

    # --- the property, read directly on the implementation (after every operation)
    def snapshot(self):
        return {i: dict(self.cluster.shm[i].data) for i in range(1, self.n + 1)}

    def fail(self, sig, what):
        self.fails.append((sig, f"after op {len(self.ops_done) - 1} {self.ops_done[-1] if self.ops_done else ''}: {what}"))

    def check_step(self, op):
        from cascade.executor import msg
        cl = self.cluster
        snap = self.snapshot()
        for i in range(1, self.n + 1):
            for key, (b, d) in snap[i].items():
                if key not in self.key2ds:
                    self.fail("stored-under-foreign-key", f"host h{i} holds shm key {key} that belongs to no dataset of the run")
                    continue
                ds = self.key2ds[key]
                if (b, d) != self.content[ds]:
                    self.fail("stored-bytes-differ", f"host h{i} holds dataset {self.case['datasets'][ds]} as ({b.hex()}, {d!r}), the source's is "
                              f"({self.content[ds][0].hex()}, {self.content[ds][1]!r})")
            for ds in self.purged[i]:
                if self.ds2key[ds] in snap[i]:
                    self.fail("resurrected-after-purge", f"host h{i} holds dataset {self.case['datasets'][ds]} again although it was purged there")
            evs = cl.events[i]
            for pos in range(self.seen_events[i], len(evs)):
                e = evs[pos]
                held, allocs = cl.event_ctx[i][pos]
                if isinstance(e, msg.DatasetPublished):
                    ds = self.dsnum(e.ds)
                    if e.origin != cl.hname(i) or e.transmit_idx is None:
                        self.fail("announcement-malformed", f"host h{i} announced {e}")
                    key = self.ds2key[ds]
                    if held.get(key) != self.content[ds]:
                        self.fail("announced-but-not-stored", f"host h{i} announced {self.case['datasets'][ds]} (transmit_idx={e.transmit_idx}) while not holding the source's bytes")
                    self.announced[(i, ds)] = self.announced.get((i, ds), 0) + 1
                    if allocs.get(key, 0) < self.announced[(i, ds)] + (1 if (i, ds) in self.local_pub else 0):
                        self.fail("announced-though-already-present", f"host h{i} announced the arrival of {self.case['datasets'][ds]} (transmit_idx={e.transmit_idx}) without having stored a new copy")
                    if self.announced[(i, ds)] > 1:
                        self.fail("announced-twice", f"host h{i} announced dataset {self.case['datasets'][ds]} {self.announced[(i, ds)]} times")
                elif isinstance(e, msg.DatasetTransmitFailure):
                    self.stats.add("transmit-failure-reported")
            self.seen_events[i] = len(evs)
        for m in cl.ctl_received[self.seen_ctl:]:
            if isinstance(m, msg.DatasetTransmitPayload):
                ds = self.dsnum(m.header.ds)
                if (bytes(m.value), m.header.deser_fun) != self.content[ds]:
                    self.fail("fetch-bytes-differ", f"controller received {self.case['datasets'][ds]} as ({bytes(m.value).hex()}, {m.header.deser_fun!r}), "
                              f"the source's is ({self.content[ds][0].hex()}, {self.content[ds][1]!r})")
                self.fetched[m.header.confirm_idx] = self.fetched.get(m.header.confirm_idx, 0) + 1
                if self.fetched[m.header.confirm_idx] > 1:
                    self.fail("fetch-delivered-twice", f"controller received the payload of fetch idx={m.header.confirm_idx} {self.fetched[m.header.confirm_idx]} times")
        self.seen_ctl = len(cl.ctl_received)
        for (host, key, pend, nopen) in cl.purge_violations:
            self.fail("purge-did-not-wait", f"host h{host}: shm purge of {self.case['datasets'][self.key2ds.get(key, 0)]} called while pool jobs {pend} on that dataset had not finished ({nopen} buffers open)")
        cl.purge_violations.clear()
        self.prev_store = snap

    def check_crashes(self):
        idxs = [c["idx"] for c in self.cmds]
        dup_idx = len(set(idxs)) != len(idxs)
        purges = {(o["h"], o["ds"]) for o in self.ops_done if o["op"] == "purge"}
        for i, why in self.cluster.crashed.items():
            if not why:
                continue
            legit = dup_idx or any(c["src"] == i and (i, c["ds"]) in purges for c in self.cmds)
            self.stats.add("loop-raised(legit: command for a purged dataset / idx reuse)" if legit else "loop-raised")
            if not legit:
                self.fail("data-server-crashed", f"recv_loop of h{i} raised {why} although no command named a dataset purged there and no idx was reused")

    def check_final(self):
        """after the loss-free drain at the end of the trace: every eligible transfer has arrived, once"""
        cl = self.cluster
        idxs = [c["idx"] for c in self.cmds]
        purges = {(o["h"], o["ds"]) for o in self.ops_done if o["op"] == "purge"}
        snap = self.snapshot()
        for c in self.cmds:
            src, tgt, ds, idx = c["src"], c["tgt"], c["ds"], c["idx"]
            if idxs.count(idx) != 1 or src == tgt or not c["held"] or idx not in self.cmd_delivered:
                continue
            if (src, ds) in purges or (tgt, ds) in purges or cl.crashed.get(src) or (tgt and cl.crashed.get(tgt)):
                continue
            name = self.case["datasets"][ds]
            if tgt == 0:
                if self.fetched.get(idx, 0) != 1:
                    self.fail("fetch-not-delivered", f"fetch idx={idx} of {name} from h{src}: controller received it {self.fetched.get(idx, 0)} times after the drain")
                else:
                    self.stats.add("fetch-completed")
                continue
            if snap[tgt].get(self.ds2key[ds]) != self.content[ds]:
                self.fail("transfer-not-completed", f"transfer idx={idx} of {name} h{src}->h{tgt}: target does not hold the dataset after the drain")
                continue
            want = 0 if (tgt, ds) in self.local_pub else 1
            if self.announced.get((tgt, ds), 0) != want:
                self.fail("arrival-not-announced-once", f"transfer idx={idx} of {name} h{src}->h{tgt}: target announced it {self.announced.get((tgt, ds), 0)} times, expected {want}")
            else:
                self.stats.add("transfer-completed")

    # --- observation for the model
    def observation(self):
        from cascade.executor import msg
        cl = self.cluster
        obs = []
        recv = []
        for m in cl.ctl_received:
            if isinstance(m, msg.DatasetTransmitPayload):
                recv.append(f"MPay {self.c_pay(m.header, m.value)}")
            elif isinstance(m, msg.Ack):
                recv.append(f"MAck {cN(m.idx)}")
            else:
                raise ValueError(f"controller received {type(m).__name__}")
        obs.append(f"mkObs 0%N [] [] false [] (Some {clist(recv)})")
        for i in range(1, self.n + 1):
            st = []
            for key, (b, d) in sorted(cl.shm[i].data.items(), key=lambda kv: self.key2ds.get(kv[0], 99)):
                st.append(f"({cN(self.key2ds[key])}, ({self.c_bytes(b)}, {cN(self.desnum(d))}))")
            out = []
            for e in cl.events[i]:
                if isinstance(e, msg.DatasetPublished):
                    out.append(f"EPublished {cN(self.dsnum(e.ds))} {cN(e.transmit_idx)}")
                elif isinstance(e, msg.DatasetTransmitFailure):
                    out.append("EFailure")
                else:
                    raise ValueError(f"callback {type(e).__name__}")
            obs.append(f"mkObs {cN(i)} {clist(st)} {clist(out)} {cbool(bool(cl.crashed[i]))} {clist([cnat(p) for p in cl.pool[i].pending()])} None")
        nt = clist([self.c_aframe(af) for af in cl.net])
        return clist(obs), nt

    def term(self):
        obs, nt = self.observation()
        return f"(({clist(self.terms)},\n   {obs},\n   {nt}) : list op * list hobs * list (N * frame))"


# purges are detected through the fake shm: wrap on_purge bookkeeping into the runner
def _install_purge_tracking(r):
    cl = r.cluster
    orig = cl.on_purge

    def on_purge(host, key):
        orig(host, key)
        if key in r.key2ds:
            r.purged[host].add(r.key2ds[key])
            r.stats.add("purge-applied")
            if cl.used_picks:
                r.stats.add("purge-waited-for-running-jobs")
    cl.on_purge = on_purge


def drain(r, do, rounds=7):
    """loss-free, fair ending: everything in flight arrives, every loop runs, every job finishes, the grace period passes"""
    cl, n = r.cluster, r.n
    for rnd in range(rounds):
        while cl.net:
            do({"op": "deliver", "i": 0})
        for h in range(0, n + 1):
            for rep in range(8):   # a dropped duplicate ends recv_messages early: the rest is read by the next iteration
                do({"op": "iter", "h": h, "picks": []})
                if not cl.pull[h].queue or (h and cl.crashed[h]):
                    break
        for h in range(1, n + 1):
            for k in cl.pool[h].pending():
                do({"op": "runjob", "h": h, "k": k})
        do({"op": "tick", "ms": 4100})


def execute(case, lenient=False):
    """replays a fully resolved case on the real code -> (runner).  lenient: operations that do not apply to the
    behaviour of the current code (a frame or job index that does not exist here) are skipped and counted"""
    with Runner(case) as r:
        _install_purge_tracking(r)
        r.skipped = 0
        for op in case["ops"]:
            if lenient:
                try:
                    r.do(op)
                except (IndexError, AssertionError):
                    r.skipped += 1
            else:
                r.do(op)
        r.check_crashes()
        if case.get("drained"):
            if lenient:   # a trace recorded on other code may end differently here: finish it fairly before judging completion
                drain(r, r.do)
            r.check_final()
        term = r.term()
    return r, term


# ----------------------------------------------------------------------------- generator (online: choices look at the live cluster)
def rbytes(rng):
    return bytes(rng.randrange(256) for _ in range(rng.choice([1, 1, 2, 3, 4, 6]))).hex()


def gen_case(rng, mode="random"):
    n = rng.choice([2, 2, 3])
    nds = rng.choice([1, 2, 2, 3])
    names = [["t1", "0"], ["t1", "00"], ["t10", "0"], ["a", "bc"], ["ab", "c"]]
    rng.shuffle(names)
    datasets = names[:nds]
    content = []
    while len(content) < nds:
        c = [rbytes(rng), rng.choice(DESER)]
        if c not in content:
            content.append(c)
    case = {"nhosts": n, "datasets": datasets, "content": content, "ops": [], "drained": True, "mode": mode}
    with Runner(case) as r:
        _install_purge_tracking(r)
        cl = r.cluster

        def do(op):
            case["ops"].append(op)
            r.do(op)
        holders = {}
        for d in range(nds):
            hs = rng.sample(range(1, n + 1), rng.choice([1, 1, 2]) if n > 1 else 1)
            holders[d] = set(hs)
            for h in hs:
                do({"op": "publish", "h": h, "ds": d})
        # the plan of controller commands
        plan = []
        idx = rng.choice([0, 0, 3, 17])
        ncmd = rng.choice([1, 2, 3, 4, 5, 6])
        for _ in range(ncmd):
            d = rng.randrange(nds)
            x = rng.random()
            if x < 0.55:
                src = rng.choice(sorted(holders[d])) if rng.random() < 0.9 else rng.randrange(1, n + 1)
                others = [h for h in range(1, n + 1) if h != src]
                tgt = rng.choice(others) if rng.random() < 0.95 else src
                plan.append({"op": "transmit", "src": src, "tgt": tgt, "ds": d, "idx": idx})
                idx += 1
                if rng.random() < 0.3:   # the controller issues the same transfer redundantly
                    src2 = rng.choice(sorted(holders[d]))
                    if src2 != tgt:
                        plan.append({"op": "transmit", "src": src2, "tgt": tgt, "ds": d, "idx": idx})
                        idx += 1
            elif x < 0.75:
                src = rng.choice(sorted(holders[d]))
                plan.append({"op": "transmit", "src": src, "tgt": 0, "ds": d, "idx": idx})
                idx += 1
            else:
                plan.append({"op": "purge", "h": rng.randrange(1, n + 1), "ds": d})
        if mode == "purge-race":
            d = rng.randrange(nds)
            src = rng.choice(sorted(holders[d]))
            tgt = rng.choice([h for h in range(1, n + 1) if h != src])
            plan = [{"op": "transmit", "src": src, "tgt": tgt, "ds": d, "idx": idx}, {"op": "purge", "h": rng.choice([src, tgt, tgt]), "ds": d}] + plan[:2]
            idx += 1
            if rng.random() < 0.5:
                plan.insert(1, {"op": "transmit", "src": src, "tgt": 0, "ds": d, "idx": idx})
        loss = rng.choice([0.0, 0.1, 0.25, 0.5])
        dupp = rng.choice([0.0, 0.1, 0.3])
        steps = rng.randrange(10, 70)
        for _ in range(steps):
            x = rng.random()
            busy = [h for h in range(0, n + 1) if cl.pull[h].queue]
            pend = [(h, k) for h in range(1, n + 1) for k in cl.pool[h].pending()]
            if plan and x < 0.15:
                do(plan.pop(0))
            elif cl.net and x < 0.45:
                i = rng.randrange(len(cl.net))
                kind = r.frame_kind(cl.net[i][1])[0]
                y = rng.random()
                if y < loss and kind in ("data", "ack", "cmd"):
                    do({"op": "drop", "i": i})
                elif y < loss + dupp:
                    do({"op": "dup", "i": i})
                else:
                    do({"op": "deliver", "i": i})
            elif x < 0.70:
                h = rng.choice(busy) if busy and rng.random() < 0.8 else rng.randrange(0, n + 1)
                do({"op": "iter", "h": h, "picks": [rng.randrange(4) for _ in range(rng.choice([0, 2, 4]))]})
            elif pend and x < 0.88:
                h, k = rng.choice(pend)
                do({"op": "runjob", "h": h, "k": k})
            else:
                do({"op": "tick", "ms": rng.choice([500, 1000, 3999, 4000, 4001, 5000, 9000])})
        for p in plan:
            do(p)
        drain(r, do)
        r.check_crashes()
        r.check_final()
        term = r.term()
    return case, r, term


def corpus():
    """hand-written histories: loss of the payload, loss of the ack, duplicate payload, redundant transfer, purge racing a store, payload after purge"""
    base = {"nhosts": 2, "datasets": [["t1", "0"], ["t1", "00"]], "content": [["00ff10", "cloudpickle.loads"], ["aa", "numpy.load"]], "drained": False, "mode": "corpus"}
    pub = {"op": "publish", "h": 1, "ds": 0}
    tx = {"op": "transmit", "src": 1, "tgt": 2, "ds": 0, "idx": 0}
    it1, it2, it0 = ({"op": "iter", "h": h, "picks": []} for h in (1, 2, 0))
    dl = {"op": "deliver", "i": 0}
    rj = lambda h, k: {"op": "runjob", "h": h, "k": k}
    tick = {"op": "tick", "ms": 4100}
    out = []
    out.append([pub, tx, dl, it1, rj(1, 0), dl, dl, it2, rj(2, 0), it1, dl, it1, it0, tick, it1])                       # happy path
    out.append([pub, tx, dl, it1, rj(1, 0), dl, {"op": "drop", "i": 0}, it1, tick, it1, rj(1, 1), dl, it2, rj(2, 0), dl, it1, tick, it1, tick, it1])   # payload lost, resent
    out.append([pub, tx, dl, it1, rj(1, 0), dl, dl, it2, {"op": "drop", "i": 0}, rj(2, 0), it1, tick, it1, rj(1, 1), dl, it2, dl, it1, tick, tick, it1])  # ack lost
    out.append([pub, tx, dl, it1, rj(1, 0), {"op": "dup", "i": 1}, dl, dl, dl, it2, it2, rj(2, 0)])                       # duplicated payload
    out.append([pub, {"op": "publish", "h": 2, "ds": 0}, tx, dl, it1, rj(1, 0), dl, dl, it2, rj(2, 0)])                   # target already has it
    out.append([pub, tx, dl, it1, rj(1, 0), dl, dl, {"op": "purge", "h": 2, "ds": 0}, dl, {"op": "iter", "h": 2, "picks": [0]}])  # purge races the store
    out.append([pub, tx, dl, it1, rj(1, 0), {"op": "purge", "h": 2, "ds": 0}, {"op": "deliver", "i": 2}, it2, dl, dl, it2])   # payload after purge
    out.append([pub, {"op": "transmit", "src": 1, "tgt": 0, "ds": 0, "idx": 5}, dl, it1, rj(1, 0), {"op": "dup", "i": 1}, dl, dl, dl, it0, it0, it0])  # fetch, duplicated
    return [{**base, "ops": ops} for ops in out]


# ----------------------------------------------------------------------------- run / search / replay
def case_key(case):
    return hashlib.sha1(json.dumps(case, sort_keys=True).encode()).hexdigest()


def nontrivial(r):
    s = r.stats
    return bool({"transfer-completed", "fetch-completed", "purge-applied"} & s) and bool(
        {"lost-data", "lost-ack", "dup-data", "dup-ack", "payload-resent-after-grace", "purge-waited-for-running-jobs", "loop-blocked-in-wait"} & s)


def run(ctx, res):
    res.rule = ("a trace (2-3 data servers + controller, 1-3 datasets, 1-7 transfer/fetch/purge commands incl. redundant ones, random delivery / loss / "
                "duplication of command, payload and ack frames, loop iterations, pool-job completions, clock ticks across the 4 s grace period, then a "
                "loss-free drain) counts as non-trivial when a transfer or fetch completed or a purge was applied AND a payload/ack frame was lost or "
                "duplicated, or a payload was re-sent after the grace period, or the loop blocked in wait() while jobs ran; distinct = distinct resolved op lists")
    terms, metas = [], []

    def one(case, r, term, stream):
        res.evaluations += 1
        res.count("stream:" + stream)
        for s in sorted(r.stats):
            res.count("has:" + s)
        res.count(f"hosts:{case['nhosts']}")
        res.count("ops:%d-%d" % (len(case["ops"]) // 50 * 50, len(case["ops"]) // 50 * 50 + 49))
        if nontrivial(r):
            res.nontrivial_keys.add(case_key(case))
        for sig, what in r.fails[:1]:
            res.fail(sig, what, case)
        if len(res.samples) < 3 and stream == "random" and nontrivial(r):
            res.samples.append({"nhosts": case["nhosts"], "datasets": case["datasets"], "ops": case["ops"][:25], "stats": sorted(r.stats)})
        terms.append(term)
        metas.append(case)

    for case in corpus():
        r, term = execute(case)
        one(case, r, term, "corpus")
    rng = ctx.sub_rng("random")
    for _ in range(ctx.n(500, 12000)):
        case, r, term = gen_case(rng)
        one(case, r, term, "random")
    rng = ctx.sub_rng("purge-race")
    for _ in range(ctx.n(200, 5000)):
        case, r, term = gen_case(rng, mode="purge-race")
        one(case, r, term, "purge-race")
    results, logs = coq_results("C07", HEADER, terms, "check_case", tag="trace", shard=60, timeout=900)
    res.corr_checked += len(results)
    for ok, case in zip(results, metas):
        if ok is not True:
            res.disagree("Coq model (Net.DataServer.run_ops) and the real DataServer/Listener differ on the observable end state of a trace" +
                         ("" if ok is False else " (cases file did not compile: " + (logs[0][-400:] if logs else "") + ")"), case)
            break


def search(ctx, res):
    """enlarged search for a concrete failing input (oracle only)"""
    for d in res.disagreements:
        c = d.get("case")
        if c and c.get("ops"):
            r, _ = execute(c)
            if r.fails:
                return shrink(ctx, {"signature": r.fails[0][0], "what": r.fails[0][1], "case": c})
    for c in corpus():
        r, _ = execute(c)
        if r.fails:
            return {"signature": r.fails[0][0], "what": r.fails[0][1], "case": c}
    for k in range(4):
        rng = ctx.sub_rng(f"search{k}")
        for _ in range(1500):
            case, r, _ = gen_case(rng, mode=("purge-race" if k % 2 else "random"))
            if r.fails:
                return shrink(ctx, {"signature": r.fails[0][0], "what": r.fails[0][1], "case": case})
    return None


def shrink(ctx, f):
    """drop operations while the same failure class remains (index-resolved ops may become invalid: such trials are skipped)"""
    case = f["case"]
    sig = f["signature"]
    if sig in ("transfer-not-completed", "fetch-not-delivered", "arrival-not-announced-once"):
        return f   # these are judged after the loss-free drain at the end of the trace; removing operations would break the drain

    def still(ops):
        try:
            r, _ = execute({**case, "ops": ops}, lenient=True)
        except Exception:
            return None
        for s, w in r.fails:
            if s == sig:
                return w
        return None
    ops = list(case["ops"])
    what = still(ops)
    if what is None:
        return f
    changed = True
    budget = 400
    while changed and budget > 0:
        changed = False
        for i in range(len(ops) - 1, -1, -1):
            budget -= 1
            if budget <= 0:
                break
            trial = ops[:i] + ops[i + 1:]
            w = still(trial)
            if w is not None:
                ops, what, changed = trial, w, True
    return {"signature": sig, "what": what, "case": {**case, "ops": ops, "mode": case.get("mode", "?") + "+shrunk"}}


def replay(ctx, case):
    c = case.get("case") or (case.get("first_disagreement") or {}).get("case") or case
    if not c.get("ops"):
        return {"fails": None, "note": "no op list in this replay file"}
    r, _ = execute(c, lenient=True)
    return {"fails": bool(r.fails), "failures": [{"signature": s, "what": w} for s, w in r.fails], "stats": sorted(r.stats),
            "operations_not_applicable_to_this_code": r.skipped,
            "crashed": {f"h{i}": w for i, w in r.cluster.crashed.items() if w}}
