"""C10 -- lowering a graph to a job and running a task preserves what each node computes.

Generator: (a) hand-built earthkit graphs (any arity, statics / None / strings that do or do not
name inputs, placeholders in any position, repeated or missing, keyword arguments, default /
named / numeric / unsorted / duplicate / empty output lists, outputs consumed by several nodes or
by none, 1..30 outputs), every node with a recorder callable of a chosen behaviour: raises; returns a token, a
literal VALUE (None, falsy values, strings, container literals), an opaque object (function, class, async generator);
returns an OBJECT of some python kind that holds k values -- iterable containers (tuple, list, dict, dict view, deque,
object ndarray, a class with a generator __iter__), ITERATORS that are not generator objects (iter(list), iter(tuple),
map, filter, itertools.islice / chain, reversed, dict iterator, a class with __next__, io.StringIO and an open text
file with k lines), an instance of collections.abc.Generator that is not a generator object, a __getitem__-only
sequence -- whose iteration then stops or raises; is a generator (a function handing out a generator object, a
generator FUNCTION, a generator of literal values) with k yields that then stops or raises.  For one declared output
the returned object IS the value unless it is a generator object; the kind x count x outputs matrix is run
exhaustively in a small scope (kind_matrix_specs); (b) graphs built by the
fluent API (from_source / map with yields of 1..101 coordinates, explicit input placeholders);
(c) hand-written JobInstances (keyword edges, sparse positional statics, malformed edges);
(d) fluent.Node constructor parameters; (e) programs of the fluent API in which the caller's objects are
RE-USED: a pool of Payload objects / bare callables / functools.partials (two Payloads may carry the same
callable, or be built from the very same list and dict objects) handed to several from_source / map / map with
a payload array / reduce with and without batch_size (batches of unequal size, a final aggregation over fewer
inputs) / sum,max,min,prod with batch_size (backends patched to recorders) / join + reduce steps, so that one
Payload object builds nodes with increasing, decreasing and equal numbers of inputs in any order;
(f) programs of fluent.Payload / fluent.Node / Node.copy calls (random and, in a small scope, exhaustive).
Hand-built nodes of equal payload share their args list and kwargs dict objects, and every graph is lowered a
second time after all its tasks ran (lowering and running must not have written to the graph).
Run of the REAL code: cascade.low.into.graph2job, cascade.low.views.param_source,
RunnerContext.project, cascade.executor.runner.runner.run with a dict-backed Memory, every task
once in topological order, and controller.notify.is_last_output_of for every dataset.
Oracle (direct reading of the property, computed from the graph objects, not from the model):
one task per node, one edge per placeholder of an input with the declared parent output as its
source, statics kept, the callable receives exactly the declared arguments with upstream values
(by direct evaluation of the graph) in the declared positions, a node with one output that is not a generator stores
the very object its callable returned (identity) and run returns normally, the i-th yielded value is stored
under the output declared for it (fluent: under the i-th coordinate), a count mismatch makes run
raise, the last handled output is the one is_last_output_of names.  For (e) and (f) "declared" is what the
AUTHOR declared through the API -- the arguments given to Payload(...) plus placeholders for the node's own
inputs -- not what the built node happens to hold.
Correspondence: the Coq model (Low/Into.v, Low/Runner.v) evaluates the same cases and compares
the job, param_source, received arguments, every Memory.handle call, the exception names and
is_last_output_of; Low/FluentBuild.v (Payload / Node construction over a heap of shared list objects) runs the
programs of (f) and compares every node and every caller-held Payload at the end of the program."""
import builtins
import json
import warnings

from common import cN, cbool, clist, cnat, copt, coq_results, cstr, load_findings

TRUSTED = [
    "harness/c10.py: recorder callables (return/yield integer tokens naming producer and yield index; calls logged through "
    "the builtins module because the callable is cloudpickled), the literal pool (a value is identified by class and repr), "
    "the factory mkobj of returned objects (a returned object is identified by identity), "
    "identity-based conversion of real Graph objects into the id-addressed store of Graph/GStore.v, dict-backed Memory "
    "(handle records, provide raises KeyError on a missing dataset); the hashed node names of fluent graphs are replaced by short "
    "injective aliases in the Coq terms (the model only compares node names for equality)",
]
ASSUMPTIONS = [
    "Section variables of Low/Runner.v: F (callables), D (opaque Python objects), call : F -> args -> kwargs -> cres "
    "(raises | returns an object that is not iterable | iterable yielding ys then stopping or raising); every theorem holds for every call",
    "a Python value is None, a str, or an opaque object; the dict key str(i) of static_input_ps is represented by the number i (runner reads it back with int())",
    "the documented contract `key-sorted output order = yield order` (TaskDefinition.output_schema) is what `declared` means for hand-built multi-output nodes; "
    "for fluent nodes the theorem C10_fluent_yield_binding derives list order = coordinate order from the zero-padded names",
    "Memory is modelled as far as runner.run uses it (local[id] = value, provide = lookup); shm publication, serde and cloudpickle of the callable are not modelled",
    "graph traversal / serialise is the model of Graph/GStore.v + Graph/Export.v (C12); pydantic validation of JobInstance / Task2TaskEdge is not modelled",
    "the object a callable returns carries its kind (Low/Runner.v ikind: generator object | collections.abc.Generator instance | other iterator | iterable "
    "without __next__ | __getitem__ sequence) or is not iterable; the code's test inspect.isgenerator is a parameter of run_task_with, run_task is its "
    "instance is_generator; recorder behaviours gen/genfn/genv/genlen are generator objects, every kind of OBJ_KINDS / LINE_KINDS in harness/c10.py is mapped "
    "to its ikind by hand (that mapping is trusted; it is what isinstance / inspect say about those Python objects)",
    "iterating a returned object does not depend on when it happens and has no effect on other objects (the recorder objects are fresh per call)",
    "sink_input_ps is a natural number (negative positions of hand-written edges are outside the model)",
    "Low/FluentBuild.v: only list objects live on the modelled heap (Payload.args); kwargs dicts are values (the modelled code never writes to one); "
    "a functools.partial given to Payload / Node is its (func, args, keywords); the inputs of a Node are represented by their number",
    "fluent programs (generator (e)): the nodes an API call creates are attributed to the payload given to that call (element-wise for payload arrays); "
    "the graph structure (which nodes are inputs of which) is taken from the built graph, the arguments from the author's declaration",
]

HEADER = """From Coq Require Import List String NArith.
From EKW Require Import Graph.GStore Graph.Export Low.Into Low.Runner Low.RunnerCheck Low.FluentBuild Low.FluentBuildCheck.
Import ListNotations.
Open Scope string_scope.
"""

# (the former finding single-coordinate-yields-stores-generator-object is fixed by 62ec2b5: a generator is iterated also for a single output)

# ------------------------------------------------------------------------------ values
LITS = ["0", "1", "-5", "2.5", "True", "b'x'", "(1, 2)", "[1, 2]", "{'k': 1}", "7", "''",
        # (from here on: only RETURNED by callables, never drawn as arguments)
        "2", "[]", "()", "{}", "False", "0.0", "[1, 0]", "b''"]
NLIT_ARGS = 10      # the literals 0..9 are drawn as static arguments
POOL = [eval(s) for s in LITS]
CANON = {(type(v).__name__, repr(v)): i for i, v in enumerate(POOL)}
EXNS = ["KeyError", "ZeroDivisionError", "ValueError", "RuntimeError", "TypeError"]


def tok_ret(fid):
    return 1000 * (fid + 1) + 999


def tok_yield(fid, i):
    assert i < 999
    return 1000 * (fid + 1) + i


def realise_val(v):
    if v[0] == "none":
        return None
    if v[0] == "str":
        return v[1]
    return POOL[v[1]]


def _log():
    if not hasattr(builtins, "_c10_log"):
        builtins._c10_log = []
        builtins._c10_rets = []
    return builtins._c10_log, builtins._c10_rets


def canon(v):
    """real value -> ["none"] | ["str", s] | ["lit", idx] | ["ret", fid] | ["yield", fid, i]"""
    if v is None:
        return ["none"]
    if isinstance(v, str):
        return ["str", v]
    for fid, o in _log()[1]:
        if o is v:
            return ["ret", fid]
    if type(v) is int and v >= 1000:
        fid, i = v // 1000 - 1, v % 1000
        return ["ret", fid] if i == 999 else ["yield", fid, i]
    key = (type(v).__name__, repr(v))
    if key in CANON and not (type(v) is str and v == ""):
        return ["lit", CANON[key]]
    raise ValueError(f"value outside the pool: {v!r}")


# ------------------------------------------------------------------------------ kinds of returned objects
# python kind -> (kind of the model (Low/Runner.v ikind), can end its iteration with an exception)
OBJ_KINDS = {
    # iterable containers / objects with __iter__ only
    "list": ("KIterable", False), "dict": ("KIterable", False), "dictkeys": ("KIterable", False), "deque": ("KIterable", False),
    "ndarray": ("KIterable", False), "iterclass": ("KIterable", True),
    # iterators that are not generator objects
    "listiter": ("KIterator", False), "tupleiter": ("KIterator", False), "map": ("KIterator", False), "filter": ("KIterator", False),
    "islice": ("KIterator", False), "chain": ("KIterator", False), "reversed": ("KIterator", False), "dictiter": ("KIterator", False),
    "classiter": ("KIterator", True),
    # instances of collections.abc.Generator that are not generator objects
    "genlike": ("KGenLike", True),
    # old sequence protocol: __getitem__ only
    "getitem": ("KSequence", True),
}
LINE_KINDS = {"stringio": "KIterator", "textfile": "KIterator"}       # file-likes: iterating yields their lines (str)
OPAQUE_KINDS = ["asyncgen", "function", "genfunc", "object", "class", "partial"]     # iter() raises TypeError
ITERATOR_KINDS = [k for k, (m, _) in OBJ_KINDS.items() if m in ("KIterator", "KGenLike")]


class _ClassIter:
    """an iterator written as a class: __iter__ returns self, __next__"""

    def __init__(self, toks, fin):
        self.t, self.i, self.fin = list(toks), 0, fin

    def __iter__(self):
        return self

    def __next__(self):
        if self.i < len(self.t):
            self.i += 1
            return self.t[self.i - 1]
        if self.fin is not None:
            fin, self.fin = self.fin, None
            raise getattr(builtins, fin)("c10")
        raise StopIteration


def _genlike_class():
    import collections.abc

    class _GenLike(collections.abc.Generator):
        """isinstance(x, typing.Generator) holds, inspect.isgenerator(x) does not"""

        def __init__(self, toks, fin):
            self.t, self.i, self.fin = list(toks), 0, fin

        def send(self, value):
            if self.i < len(self.t):
                self.i += 1
                return self.t[self.i - 1]
            if self.fin is not None:
                fin, self.fin = self.fin, None
                raise getattr(builtins, fin)("c10")
            raise StopIteration

        def throw(self, typ=None, val=None, tb=None):
            self.i, self.fin = len(self.t), None
            return super().throw(typ, val, tb)
    return _GenLike


_GenLike = _genlike_class()


class _IterClass:
    """a re-iterable object: __iter__ is a generator function, there is no __next__"""

    def __init__(self, toks, fin):
        self.t, self.fin = list(toks), fin

    def __iter__(self):
        yield from self.t
        if self.fin is not None:
            raise getattr(builtins, self.fin)("c10")


class _GetItem:
    """iterable only through __getitem__ (not an instance of collections.abc.Iterable)"""

    def __init__(self, toks, fin):
        self.t, self.fin = list(toks), fin

    def __getitem__(self, i):
        if i < len(self.t):
            return self.t[i]
        if self.fin is not None:
            raise getattr(builtins, self.fin)("c10")
        raise IndexError(i)


def mkobj(kind, toks, fin=None):
    """a fresh object of python kind `kind` holding the values toks"""
    import collections
    import functools
    import io
    import itertools
    toks = list(toks)
    if kind == "list":
        return list(toks)
    if kind == "tuple":
        return tuple(toks)
    if kind == "dict":
        return dict.fromkeys(toks)
    if kind == "dictkeys":
        return dict.fromkeys(toks).keys()
    if kind == "deque":
        return collections.deque(toks)
    if kind == "ndarray":
        import numpy as np
        a = np.empty((len(toks),), dtype=object)
        for i, t in enumerate(toks):
            a[i] = t
        return a
    if kind == "iterclass":
        return _IterClass(toks, fin)
    if kind == "listiter":
        return iter(list(toks))
    if kind == "tupleiter":
        return iter(tuple(toks))
    if kind == "map":
        return map(int, toks)
    if kind == "filter":
        return filter(None, toks)
    if kind == "islice":
        return itertools.islice(toks + [0, 0], len(toks))
    if kind == "chain":
        return itertools.chain(toks[:1], toks[1:])
    if kind == "reversed":
        return reversed(toks[::-1])
    if kind == "dictiter":
        return iter(dict.fromkeys(toks))
    if kind == "classiter":
        return _ClassIter(toks, fin)
    if kind == "genlike":
        return _GenLike(toks, fin)
    if kind == "getitem":
        return _GetItem(toks, fin)
    if kind == "stringio":
        return io.StringIO("".join(toks))
    if kind == "textfile":
        import tempfile
        f = tempfile.TemporaryFile("w+")
        f.write("".join(toks))
        f.seek(0)
        return f
    if kind == "asyncgen":
        async def ag():
            yield 1
        return ag()
    if kind == "function":
        return lambda: toks
    if kind == "genfunc":
        def gf():
            yield 1
        return gf
    if kind == "object":
        return object()
    if kind == "class":
        return type("C10Opaque", (), {})
    if kind == "partial":
        return functools.partial(int, 1)
    raise ValueError(kind)


builtins._c10_mkobj = mkobj


def lines_of(fid, k):
    """the k lines of the file-like object callable fid returns (the last one without a newline)"""
    return [f"L{fid}.{i}" + ("\n" if i < k - 1 else "") for i in range(k)]


def iter_desc(value):
    """what iterating a returned literal yields, canonical; None = not iterable; "?" = values outside the pool"""
    try:
        it = iter(value)
    except TypeError:
        return None
    try:
        return [canon(x) for x in it]
    except ValueError:
        return "?"


def beh_sem(beh, nargs=0):
    """the meaning of a behaviour: {"raises": exn} | {"ret": canonical value of the returned object or None for
    `the object callable fid returned`, "isgen": it is a generator object, "ys": what iterating it yields (None = not
    iterable), "fin": how the iteration ends}"""
    kind = beh[0]
    if kind == "raise":
        return {"raises": beh[1]}
    if kind in ("ret", "opaque"):
        return {"ret": None, "isgen": False, "ys": None, "fin": None}
    if kind in ("gen", "genfn"):
        return {"ret": None, "isgen": True, "ys": beh[1], "fin": beh[2]}
    if kind == "genv":
        return {"ret": None, "isgen": True, "ys": [list(v) for v in beh[1]], "fin": beh[2]}
    if kind == "genlen":
        return {"ret": None, "isgen": True, "ys": nargs, "fin": None}
    if kind == "tuple":
        return {"ret": None, "isgen": False, "ys": beh[1], "fin": None}
    if kind == "obj":
        return {"ret": None, "isgen": False, "ys": beh[2], "fin": beh[3]}
    if kind == "lines":
        return {"ret": None, "isgen": False, "ys": [["str", l] for l in beh[2]], "fin": None}
    if kind == "val":
        return {"ret": beh[1], "isgen": False, "ys": iter_desc(realise_val(beh[1])), "fin": None}
    raise ValueError(kind)


def sem_of(beh, fid, nargs=0):
    """beh_sem with the token lists written out"""
    s = dict(beh_sem(beh, nargs))
    if "raises" in s:
        return s
    if s["ret"] is None:
        s["ret"] = ["ret", fid]
    if isinstance(s["ys"], int):
        s["ys"] = [["yield", fid, i] for i in range(s["ys"])]
    return s


def make_callable(fid, beh):
    """recorder: logs (fid, args, kwargs) at call time, then behaves as `beh` says"""
    kind = beh[0]
    if kind == "ret":
        def f(*args, **kwargs):
            import builtins as b
            b._c10_log.append((fid, args, kwargs))
            return 1000 * (fid + 1) + 999
    elif kind == "raise":
        exn = beh[1]

        def f(*args, **kwargs):
            import builtins as b
            b._c10_log.append((fid, args, kwargs))
            raise getattr(b, exn)("c10")
    elif kind == "gen":
        k, fin = beh[1], beh[2]

        def f(*args, **kwargs):
            import builtins as b
            b._c10_log.append((fid, args, kwargs))

            def g():
                for i in range(k):
                    yield 1000 * (fid + 1) + i
                if fin is not None:
                    raise getattr(b, fin)("c10")
            r = g()
            b._c10_rets.append((fid, r))
            return r
    elif kind == "genfn":
        # the callable IS a generator function (not a function that hands out a generator): its body, and with it the
        # record of the call, runs when the result is first iterated
        k, fin = beh[1], beh[2]

        def f(*args, **kwargs):
            import builtins as b
            b._c10_log.append((fid, args, kwargs))
            for i in range(k):
                yield 1000 * (fid + 1) + i
            if fin is not None:
                raise getattr(b, fin)("c10")
    elif kind == "genv":
        # a generator that yields literal VALUES (None, falsy values, strings, containers)
        vals, fin = beh[1], beh[2]

        def f(*args, **kwargs):
            import builtins as b
            b._c10_log.append((fid, args, kwargs))

            def g():
                for v in vals:
                    yield b._c10_realise(v)
                if fin is not None:
                    raise getattr(b, fin)("c10")
            r = g()
            b._c10_rets.append((fid, r))
            return r
    elif kind == "genlen":
        # a parametrised generator: as many values as it received positional arguments
        def f(*args, **kwargs):
            import builtins as b
            b._c10_log.append((fid, args, kwargs))
            n = len(args)

            def g():
                for i in range(n):
                    yield 1000 * (fid + 1) + i
            r = g()
            b._c10_rets.append((fid, r))
            return r
    elif kind == "tuple":
        k = beh[1]

        def f(*args, **kwargs):
            import builtins as b
            b._c10_log.append((fid, args, kwargs))
            r = tuple(1000 * (fid + 1) + i for i in range(k))
            b._c10_rets.append((fid, r))
            return r
    elif kind in ("obj", "lines", "opaque"):
        # returns a fresh object of a python kind (OBJ_KINDS / LINE_KINDS / OPAQUE_KINDS) holding k tokens / the given lines
        pykind = beh[1]
        fin = beh[3] if kind == "obj" else None
        k = beh[2] if kind == "obj" else 0
        lines = list(beh[2]) if kind == "lines" else None

        def f(*args, **kwargs):
            import builtins as b
            b._c10_log.append((fid, args, kwargs))
            r = b._c10_mkobj(pykind, lines if lines is not None else [1000 * (fid + 1) + i for i in range(k)], fin)
            b._c10_rets.append((fid, r))
            return r
    elif kind == "val":
        # returns a literal: None, a str, an object of the pool (the very object POOL[i])
        v = beh[1]

        def f(*args, **kwargs):
            import builtins as b
            b._c10_log.append((fid, args, kwargs))
            return b._c10_realise(v)
    else:
        raise ValueError(kind)
    f._c10_fid = fid
    f.__name__ = f"rec{fid}"
    return f


builtins._c10_realise = realise_val


class FakeMemory:
    def __init__(self):
        self.local = {}
        self.handled = []

    def handle(self, outputId, outputSchema, outputValue, isPublish):
        self.local[outputId] = outputValue
        self.handled.append((outputId, outputValue, bool(isPublish)))

    def provide(self, inputId, annotation):
        return self.local[inputId]


# ------------------------------------------------------------------------------ hand-built graphs
NODE_OUT_CHOICES = [None, None, None, None, ["0", "1"], ["a", "b", "c"], ["b", "a"], ["0", "1", "2"], ["x"], ["1", "0"],
                    [], ["a", "a", "b"], ["out", "0"], ["10", "9", "8"], ["A", "a", "B"], ["a", "ab", "a0"]]
INPUT_NAMES = ["x", "y", "z", "input0", "input1", "a", "0"]
STATIC_STRS = ["x", "s", "", "input0", "a b", "y"]
KW_NAMES = ["k", "q", "x", "axis", "y"]


def numeric_outs(n, padded):
    w = len(str(n - 1)) if padded else 0
    return [str(i).zfill(w) for i in range(n)]


RETVALS = [["none"], ["none"], ["str", ""], ["str", "a"], ["str", "ab"], ["str", "input0"], ["lit", 0], ["lit", 15], ["lit", 16], ["lit", 3], ["lit", 4],
           ["lit", 12], ["lit", 14], ["lit", 17], ["lit", 7], ["lit", 6], ["lit", 8], ["lit", 18]]
# (not the empty tuple: CPython has one `()` object, the recorder behaviour ["tuple", 0] returns the very same one)


def gen_obj_beh(rng, k, fin_ok=False, kinds=None):
    """the callable returns an object of some python kind that holds k values"""
    r = rng.random()
    if kinds is None and r < 0.12 and k <= 3:
        return ["lines", rng.choice(sorted(LINE_KINDS)), lines_of(0, k)]      # (the lines do not name the callable: they are str values)
    kind = rng.choice(kinds or sorted(OBJ_KINDS))
    fin = rng.choice(EXNS) if (fin_ok and OBJ_KINDS[kind][1] and rng.random() < 0.5) else None
    return ["obj", kind, k, fin]


def gen_gen_beh(rng, k, fin=None):
    """a generator of k values: a function handing out a generator object, a generator function, a generator of literal values"""
    r = rng.random()
    if r < 0.6:
        return ["gen", k, fin]
    if r < 0.8:
        return ["genfn", k, fin]
    return ["genv", [rng.choice(RETVALS) for _ in range(k)], fin]


def gen_value_beh(rng):
    """behaviour of a callable whose node declares ONE output and that does not stream: what it returns IS the value --
    a token, None / a falsy / a str / a container literal, an opaque object, an iterable or iterator object holding 0..3 values"""
    r = rng.random()
    if r < 0.2:
        return ["val", rng.choice(RETVALS)]
    if r < 0.3:
        return ["opaque", rng.choice(OPAQUE_KINDS)]
    if r < 0.65:
        return gen_obj_beh(rng, rng.choice([0, 1, 1, 1, 2, 2, 3]), fin_ok=True, kinds=ITERATOR_KINDS if rng.random() < 0.6 else None)
    return gen_obj_beh(rng, rng.choice([0, 1, 1, 2, 3]), fin_ok=True)


def gen_beh(rng, nout, sloppy):
    """behaviour for a node declaring nout (distinct) outputs"""
    r = rng.random()
    if not sloppy:
        if nout == 1:
            return ["ret"] if r < 0.45 else (gen_gen_beh(rng, rng.choice([0, 1, 1, 2])) if r < 0.55 else ["tuple", 2] if r < 0.6 else gen_value_beh(rng))
        # a generator; or (accepted by the runner, not demanded by the property) any other iterable of nout values
        return gen_gen_beh(rng, nout) if r < 0.7 else ["tuple", nout] if r < 0.8 else gen_obj_beh(rng, nout)
    if r < 0.12:
        return ["raise", rng.choice(EXNS)]
    if r < 0.17:
        return ["ret"]
    if r < 0.2:
        return ["opaque", rng.choice(OPAQUE_KINDS)] if rng.random() < 0.5 else ["val", rng.choice(RETVALS)]
    if r < 0.3:
        return ["tuple", max(1, nout + rng.choice([-1, 0, 0, 1]))]
    k = max(0, nout + rng.choice([-2, -1, -1, -1, 0, 1, 1, 2]))
    if rng.random() < 0.1:
        k = 0
    if r < 0.5:
        return gen_obj_beh(rng, k, fin_ok=True)
    return gen_gen_beh(rng, k, rng.choice(EXNS) if rng.random() < 0.2 else None)


def gen_val(rng):
    r = rng.random()
    if r < 0.15:
        return ["none"]
    if r < 0.35:
        return ["str", rng.choice(STATIC_STRS)]
    return ["lit", rng.randrange(NLIT_ARGS)]


def gen_graph_spec(rng, flavour):
    n = rng.choice([1, 2, 2, 3, 3, 4, 5, 6, 8])
    nodes = []
    behs = {}
    for i in range(n):
        r = rng.random()
        if flavour == "many-outputs" and r < 0.4:
            k = rng.choice([10, 11, 12, 13, 20, 30])
            outs = numeric_outs(k, padded=rng.random() < 0.6)
        else:
            outs = rng.choice(NODE_OUT_CHOICES)
        # inputs
        inputs = []
        if i > 0:
            for iname in rng.sample(INPUT_NAMES, rng.choice([0, 1, 1, 2, 2, 3])):
                p = rng.randrange(i)
                pouts = nodes[p]["outputs"]
                avail = ["0"] if pouts is None else list(pouts)
                if not avail:
                    continue
                inputs.append([iname, p, rng.choice(avail)])
        # args: placeholders + statics, shuffled
        args = [["str", iname] for iname, _, _ in inputs]
        if flavour == "odd":
            if args and rng.random() < 0.35:
                args.append(rng.choice(args))            # a placeholder twice
            if args and rng.random() < 0.15:
                args.pop(rng.randrange(len(args)))       # a placeholder missing
        for _ in range(rng.choice([0, 0, 1, 2, 3])):
            args.append(gen_val(rng))
        rng.shuffle(args)
        kwargs = [[k, gen_val(rng)] for k in rng.sample(KW_NAMES, rng.choice([0, 0, 1, 2]))]
        payload = {"kind": "tuple", "fid": i, "args": args, "kwargs": kwargs}
        if flavour == "odd" and rng.random() < 0.05:
            payload = rng.choice([None, {"kind": "other"}])
        name = f"n{i}"
        if flavour == "odd" and rng.random() < 0.06 and i > 0:
            name = nodes[rng.randrange(i)]["name"]       # duplicate name: serialise asserts
        elif rng.random() < 0.2:
            name = rng.choice(["t.1", "a b", "n", "0", "x"]) + str(i)
        nodes.append({"name": name, "outputs": outs, "payload": payload, "inputs": inputs})
        nout = 1 if not outs else len(dict.fromkeys(outs))
        behs[i] = gen_beh(rng, nout, sloppy=(flavour in ("odd", "mismatch") and rng.random() < (0.5 if flavour == "mismatch" else 0.25)))
    consumed = {p for nd in nodes for _, p, _ in nd["inputs"]}
    sinks = [i for i in range(n) if i not in consumed]
    if rng.random() < 0.3:
        extra = [i for i in range(n) if i in consumed and rng.random() < 0.3]
        sinks += extra
    rng.shuffle(sinks)
    return {"kind": "graph", "flavour": flavour, "nodes": nodes, "sinks": sinks, "behs": {str(k): v for k, v in behs.items()},
            "publish_seed": rng.randrange(2**32)}


def gen_shared_spec(rng):
    """hand-built graph in which several nodes carry the SAME callable object, with outputs declared per node
    (a parametrised generator used with different output counts / names, a function used with and without a named output)"""
    npool = rng.choice([1, 2, 2, 3])
    behs = {}
    for f in range(npool):
        behs[f] = rng.choice([["ret"], ["genlen"], ["genlen"], ["gen", rng.choice([2, 3]), None], ["tuple", 2],
                              gen_obj_beh(rng, rng.choice([1, 2, 3]), kinds=sorted(OBJ_KINDS)), gen_value_beh(rng)])
    fkw = {f: rng.sample(KW_NAMES, rng.choice([0, 0, 1])) for f in range(npool)}
    letters = ["a", "b", "c", "d", "e", "f", "g", "h", "i", "j", "k", "l", "m", "n", "o"]
    n = rng.choice([2, 3, 4, 5, 6])
    nodes = []
    for i in range(n):
        fid = rng.randrange(npool)
        inputs = []
        if i > 0:
            for iname in rng.sample(INPUT_NAMES, rng.choice([0, 1, 1, 2])):
                p = rng.randrange(i)
                avail = ["0"] if nodes[p]["outputs"] is None else list(nodes[p]["outputs"])
                if avail:
                    inputs.append([iname, p, rng.choice(avail)])
        args = [["str", iname] for iname, _, _ in inputs]
        for _ in range(rng.choice([0, 1, 2, 3, 11]) if behs[fid][0] == "genlen" else rng.choice([0, 1, 2])):
            args.append(["lit", rng.randrange(NLIT_ARGS)])
        rng.shuffle(args)
        kwnames = fkw[fid] if rng.random() < 0.85 else rng.sample(KW_NAMES, 1)
        kwargs = [[k, gen_val(rng)] for k in kwnames]
        b = behs[fid]
        k = len(args) if b[0] == "genlen" else b[1] if b[0] in ("gen", "tuple") else b[2] if b[0] == "obj" else 1
        if rng.random() < 0.1:
            k = max(1, k + rng.choice([-1, 1]))
        if k <= 1 or (b[0] != "genlen" and rng.random() < 0.3):
            outs = rng.choice([None, None, ["x"], ["out"], ["0"]])
        else:
            outs = rng.choice([numeric_outs(k, True), letters[:k], list(reversed(letters[:k])), numeric_outs(k, True)])
        nodes.append({"name": f"n{i}", "outputs": outs, "payload": {"kind": "tuple", "fid": fid, "args": args, "kwargs": kwargs}, "inputs": inputs})
    consumed = {p for nd in nodes for _, p, _ in nd["inputs"]}
    sinks = [i for i in range(n) if i not in consumed]
    rng.shuffle(sinks)
    return {"kind": "graph", "flavour": "shared-callable", "nodes": nodes, "sinks": sinks, "behs": {str(k): v for k, v in behs.items()},
            "publish_seed": rng.randrange(2**32)}


def build_graph(spec):
    """spec -> (real Graph, list of real Node objects by spec index, fid -> callable)"""
    from earthkit.workflows.graph import Graph, Node
    objs, funcs = [], {}
    shared = {}       # nodes with equal (callable, args, kwargs) hold the very same list and dict objects
    for nd in spec["nodes"]:
        p = nd["payload"]
        if p is None:
            payload = None
        elif p["kind"] == "other":
            payload = "not-a-tuple"
        else:
            if p["fid"] not in funcs:     # nodes with the same fid carry the very same callable object
                funcs[p["fid"]] = make_callable(p["fid"], spec["behs"][str(p["fid"])])
            f = funcs[p["fid"]]
            key = json.dumps([p["fid"], p["args"], p["kwargs"]])
            if key not in shared:
                shared[key] = ([realise_val(a) for a in p["args"]], {k: realise_val(v) for k, v in p["kwargs"]})
            payload = (f, shared[key][0], shared[key][1])
        node = Node(nd["name"], None if nd["outputs"] is None else list(nd["outputs"]), payload)
        for iname, pi, oname in nd["inputs"]:      # set through .inputs: any input name is expressible
            node.inputs[iname] = objs[pi].get_output(oname)
        objs.append(node)
    return Graph([objs[i] for i in spec["sinks"]]), objs, funcs


# ------------------------------------------------------------------------------ real graph -> description
def describe_graph(g, with_nodes=False):
    """identity-based traversal of a real Graph: nodes in a topological order (parents first) with
    everything the property talks about.  Returns (descs, sink indices[, the node objects in the same order])."""
    order, seen = [], {}

    def visit(node):
        if id(node) in seen:
            return
        seen[id(node)] = None
        for src in node.inputs.values():
            visit(src.parent)
        seen[id(node)] = len(order)
        order.append(node)
    for s in g.sinks:
        visit(s)
    descs = []
    for node in order:
        p = node.payload
        if p is None:
            pay = None
        elif isinstance(p, tuple) and len(p) == 3 and hasattr(p[0], "_c10_fid"):
            pay = {"kind": "tuple", "fid": p[0]._c10_fid, "args": [canon(a) for a in p[1]], "kwargs": [[k, canon(v)] for k, v in p[2].items()]}
        else:
            pay = {"kind": "other"}
        descs.append({"name": node.name, "outputs": list(node.outputs), "payload": pay,
                      "inputs": [[iname, seen[id(src.parent)], src.name] for iname, src in node.inputs.items()]})
    if with_nodes:
        return descs, [seen[id(s)] for s in g.sinks], order
    return descs, [seen[id(s)] for s in g.sinks]


# ------------------------------------------------------------------------------ running the implementation
def exn_name(e):
    return type(e).__name__


def job_canon(job):
    tasks = []
    for name, t in job.tasks.items():
        from cascade.low.core import TaskDefinition
        f = TaskDefinition.func_dec(t.definition.func)
        tasks.append([name, {"fid": f._c10_fid if hasattr(f, "_c10_fid") else -1,
                             "ischema": list(t.definition.input_schema.items()), "oschema": list(t.definition.output_schema.items()),
                             "skw": [[k, canon(v)] for k, v in t.static_input_kw.items()],
                             "sps": [[int(k), canon(v)] for k, v in t.static_input_ps.items()]}])
    edges = [[e.source.task, e.source.output, e.sink_task, e.sink_input_kw, e.sink_input_ps] for e in job.edges]
    return {"tasks": tasks, "edges": edges}


def topo_tasks(job):
    """tasks of the job, sources before sinks (Kahn, stable in dict order); tasks on a cycle are dropped"""
    deps = {t: set() for t in job.tasks}
    for e in job.edges:
        if e.sink_task in deps and e.source.task in deps:
            deps[e.sink_task].add(e.source.task)
    out, done = [], set()
    progress = True
    while progress:
        progress = False
        for t in job.tasks:
            if t not in done and deps[t] <= done:
                out.append(t)
                done.add(t)
                progress = True
    return out


def run_job(job, publish_seed, order=None):
    """real param_source + project + run for every task.  Returns observation dict."""
    import random
    from cascade.controller.notify import is_last_output_of
    from cascade.executor.msg import TaskSequence
    from cascade.executor.runner.entrypoint import RunnerContext
    from cascade.executor.runner.runner import run
    from cascade.low.core import DatasetId, WorkerId
    from cascade.low.views import param_source
    obs = {"ps": None, "runs": [], "lasts": []}
    for name, t in job.tasks.items():
        for o in list(t.definition.output_schema) + ["zz"]:
            try:
                r = ["ok", bool(is_last_output_of(DatasetId(name, o), job))]
            except Exception as e:
                r = ["err", exn_name(e)]
            obs["lasts"].append([name, o, r])
    try:
        r = ["err", exn_name(is_last_output_of(DatasetId("no such task", "0"), job))]
    except Exception as e:
        r = ["err", exn_name(e)]
    obs["lasts"].append(["no such task", "0", r])
    try:
        ps = param_source(job.edges)
    except Exception as e:
        obs["ps"] = ["err", exn_name(e)]
        return obs
    obs["ps"] = ["ok", [[t, [[k, [d.task, d.output]] for k, d in m.items()]] for t, m in ps.items()]]
    rng = random.Random(publish_seed)
    all_ds = [DatasetId(n, o) for n, t in job.tasks.items() for o in t.definition.output_schema]
    publish = {d for d in all_ds if rng.random() < 0.4}
    mem = FakeMemory()
    log, rets = _log()
    del rets[:]
    wid = WorkerId("h0", "w0")
    rc = RunnerContext(workerId=wid, job=job, callback="nowhere", param_source=ps)
    for t in (order if order is not None else topo_tasks(job)):
        try:
            ec = rc.project(TaskSequence(worker=wid, tasks=[t], publish=publish))
        except KeyError:
            # an edge from an undeclared output: the executor cannot even prepare the task (outside runner.run)
            obs["runs"].append({"task": t, "skipped": "project-KeyError"})
            continue
        del log[:]
        n0 = len(mem.handled)
        exn = None
        try:
            run(t, ec, mem)
        except Exception as e:
            exn = exn_name(e)
        call = None
        if log:
            fid, a, k = log[0]
            call = [[canon(x) for x in a], [[kk, canon(v)] for kk, v in k.items()]]
        obs["runs"].append({"task": t, "publish": sorted([d.task, d.output] for d in publish if d.task == t),
                            "call": call, "ncalls": len(log),
                            "handled": [[d.task, d.output, canon(v), p] for d, v, p in mem.handled[n0:]], "exn": exn})
    return obs


# ------------------------------------------------------------------------------ oracle
def node_sem(behs, d):
    """meaning of the node's callable on this node (genlen yields one value per positional argument)"""
    fid = d["payload"]["fid"]
    return sem_of(behs[str(fid)], fid, len(d["payload"]["args"]))


def oracle_graph(descs, sinks, fluent_coords, behs, lowered, obs, fails, single=()):
    """direct reading of the property.  descs: the graph as the author declared it (reachable nodes,
    parents first); fluent_coords: {(node name, output name): coordinate index} for fluent multi-output
    nodes, None for hand-built graphs; lowered: ("job", canon) | ("raised", name); obs None = only the
    lowering is judged (no task was run on this job)."""
    names = [d["name"] for d in descs]
    if len(set(names)) != len(names):
        return          # names must be unique within a graph (documented; serialise asserts)
    in_dom = all(d["payload"] is not None and d["payload"]["kind"] == "tuple" for d in descs)
    if not in_dom:
        return
    placeholders_ok = True
    for d in descs:
        args = d["payload"]["args"]
        for iname, _, _ in d["inputs"]:
            if ["str", iname] not in args:
                placeholders_ok = False    # an input that no argument names: not a graph of the property's domain
    if not placeholders_ok:
        return
    if lowered[0] != "job":
        fails.append(("lowering-raised", f"graph2job raised {lowered[1]} on a well-formed graph"))
        return
    job = lowered[1]
    tasks = dict((n, t) for n, t in job["tasks"])
    # one task per node
    if sorted(tasks) != sorted(names) or len(job["tasks"]) != len(names):
        fails.append(("lowering-task-set", f"tasks {sorted(tasks)} for nodes {sorted(names)}"))
        return
    # one edge per placeholder of an input, from the declared parent output
    exp_edges = []
    for d in descs:
        args = d["payload"]["args"]
        inames = {iname: (descs[p]["name"], o) for iname, p, o in d["inputs"]}
        for pos, a in enumerate(args):
            if a[0] == "str" and a[1] in inames:
                exp_edges.append([inames[a[1]][0], inames[a[1]][1], d["name"], None, pos])
    if sorted(map(json.dumps, exp_edges)) != sorted(map(json.dumps, job["edges"])):
        fails.append(("lowering-edges", f"edges {job['edges']} expected {exp_edges}"))
    for d in descs:
        t = tasks[d["name"]]
        args = d["payload"]["args"]
        inames = {iname for iname, _, _ in d["inputs"]}
        exp_ps = [[i, a] for i, a in enumerate(args) if not (a[0] == "str" and a[1] in inames)]
        got_ps = [[i, a] for i, a in t["sps"] if not (a == ["none"] and args[i][0] == "str" and args[i][1] in inames)] if all(i < len(args) for i, _ in t["sps"]) else None
        if got_ps is None or sorted(map(json.dumps, got_ps)) != sorted(map(json.dumps, exp_ps)) or len({i for i, _ in t["sps"]}) != len(t["sps"]):
            fails.append(("lowering-statics", f"node {d['name']}: positional statics {t['sps']} for args {args}"))
        if sorted(map(json.dumps, t["skw"])) != sorted(map(json.dumps, d["payload"]["kwargs"])):
            fails.append(("lowering-statics", f"node {d['name']}: keyword statics {t['skw']} for kwargs {d['payload']['kwargs']}"))
        exp_out = list(dict.fromkeys(d["outputs"])) or ["0"]
        if sorted(k for k, _ in t["oschema"]) != sorted(exp_out):
            fails.append(("lowering-outputs", f"node {d['name']}: outputs {t['oschema']} for declared {d['outputs']}"))
        if t["fid"] != d["payload"]["fid"]:
            fails.append(("lowering-callable", f"node {d['name']}: task carries callable {t['fid']}, node {d['payload']['fid']}"))

    if obs is None:
        return

    # direct evaluation of the graph
    def outs_of(d):
        return list(dict.fromkeys(d["outputs"])) or ["0"]

    def yield_index(d, o):
        if fluent_coords is not None and (d["name"], o) in fluent_coords:
            return fluent_coords[(d["name"], o)]
        return sorted(outs_of(d)).index(o)     # documented contract: key-sorted order = yield order

    obs_runs = {r["task"]: r for r in obs["runs"]}
    succeeds = {}     # name -> True if, by the graph's own meaning, the node computes all of its outputs
    value = {}        # (name, output) -> canonical value
    for d in descs:
        sem = node_sem(behs, d)
        outs = outs_of(d)
        ok_inputs = all(succeeds[descs[p]["name"]] for _, p, _ in d["inputs"])
        if not ok_inputs:
            succeeds[d["name"]] = False
            continue
        if "raises" in sem:
            succeeds[d["name"]] = False
        elif len(outs) == 1 and not sem["isgen"]:
            # a single output and no generator: the returned object -- a number, None, a container, an iterator, a file --
            # is the value
            succeeds[d["name"]] = True
            value[(d["name"], outs[0])] = sem["ret"]
        else:
            ys = sem["ys"]
            good = isinstance(ys, list) and len(ys) == len(outs) and sem["fin"] is None
            if good and not sem["isgen"]:
                # the property speaks of generators; that another iterable (a tuple, a list, an iterator) is accepted is
                # not demanded, only that IF run accepts it the values are bound correctly
                good = (obs_runs.get(d["name"]) or {}).get("exn", "x") is None
            succeeds[d["name"]] = good
            if good:
                for o in outs:
                    value[(d["name"], o)] = ys[yield_index(d, o)]
    runs = {r["task"]: r for r in obs["runs"]}
    for d in descs:
        r = runs.get(d["name"])
        if r is None or "skipped" in r:
            fails.append(("task-not-runnable", f"task {d['name']} could not be prepared/run: {r}"))
            continue
        fid = d["payload"]["fid"]
        beh = behs[str(fid)]
        sem = node_sem(behs, d)
        outs = outs_of(d)
        if not all(succeeds[descs[p]["name"]] for _, p, _ in d["inputs"]):
            continue        # an upstream node has no value: nothing is claimed
        n0 = len(fails)
        declared_gen = len(outs) >= 2 or sem.get("isgen", False)      # a generator yields its outputs, also a single one
        inames = {iname: (descs[p]["name"], o) for iname, p, o in d["inputs"]}
        exp_args = [value[inames[a[1]]] if (a[0] == "str" and a[1] in inames) else a for a in d["payload"]["args"]]
        exp_kwargs = d["payload"]["kwargs"]
        if r["call"] is None:
            fails.append(("callable-not-called", f"task {d['name']}: the callable was never called (run raised {r['exn']})"))
            continue
        if r["ncalls"] != 1:
            fails.append(("callable-args", f"task {d['name']}: callable called {r['ncalls']} times"))
        if r["call"][0] != exp_args or sorted(map(json.dumps, r["call"][1])) != sorted(map(json.dumps, exp_kwargs)):
            sig = "callable-args"
            fails.append((sig, f"task {d['name']}: callable received args={r['call'][0]} kwargs={r['call'][1]}, declared args={exp_args} kwargs={exp_kwargs}"))
        stored = {(t, o): v for t, o, v, _ in r["handled"]}
        if succeeds[d["name"]]:
            if r["exn"] is not None:
                fails.append(("run-raised-unexpectedly", f"task {d['name']} ({beh}, outputs {outs}) raised {r['exn']}"))
                continue
            exp_store = {(d["name"], o): value[(d["name"], o)] for o in outs}
            if stored != exp_store or len(r["handled"]) != len(outs):
                fails.append(("output-binding", f"task {d['name']}: stored {sorted(stored.items())}, declared {sorted(exp_store.items())}"))
        elif "raises" not in sem and isinstance(sem["ys"], list) and declared_gen and len(sem["ys"]) != len(outs) and r["exn"] is None:
            fails.append(("count-mismatch-ignored", f"task {d['name']}: {len(sem['ys'])} results for {len(outs)} declared outputs {outs}, run returned normally; stored {sorted(stored)}"))
        # completion is inferred from the last output: it must be the last one handled, all others before it
        if r["exn"] is None and r["handled"]:
            lasts = {(t, o): res for t, o, res in obs["lasts"]}
            flags = [lasts.get((t, o)) for t, o, _, _ in r["handled"]]
            if flags[-1] != ["ok", True] or any(f != ["ok", False] for f in flags[:-1]):
                fails.append(("last-output-inconsistent", f"task {d['name']}: handled in order {[o for _, o, _, _ in r['handled']]}, is_last_output_of says {flags}"))


# ------------------------------------------------------------------------------ Coq terms
ALIAS = {}     # long (hashed) fluent node names -> short injective aliases, for the Coq terms only


def cname(s):
    return cstr(ALIAS.get(s, s))


def cval(v):
    if v[0] == "none":
        return "PNone"
    if v[0] == "str":
        return f"(PStr {cstr(v[1])})"
    if v[0] == "lit":
        return f"(PObj (OLit {cN(v[1])}))"
    if v[0] == "ret":
        return f"(PObj (ORet {cN(v[1])}))"
    return f"(PObj (OYield {cN(v[1])} {cnat(v[2])}))"


def ckw(items):
    return clist([f"({cstr(k)}, {cval(v)})" for k, v in items])


def cpayload(p):
    if p is None:
        return "None"
    if p["kind"] == "other":
        return "(Some PayOther)"
    return f"(Some (PayTuple {cN(p['fid'])} {clist(p['args'], cval)} {ckw(p['kwargs'])}))"


def cgraph(descs, sinks):
    nodes = []
    for d in descs:
        ins = clist([f"({cstr(i)}, ({cnat(p)}, {cstr(o)}))" for i, p, o in d["inputs"]])
        nodes.append(f"mkNode {cname(d['name'])} {clist(d['outputs'], cstr)} {cpayload(d['payload'])} {ins}")
    return f"(mkGraph {clist(nodes)} {clist(sinks, cnat)})"


def cds(t, o):
    return f"({cname(t)}, {cstr(o)})"


def cjob(j):
    ts = []
    for name, t in j["tasks"]:
        sd = lambda items: clist([f"({cstr(k)}, {cstr(v)})" for k, v in items])
        sps = clist([f"({cnat(i)}, {cval(v)})" for i, v in t["sps"]])
        if t["fid"] < 0:
            raise ValueError("foreign callable")
        ts.append(f"({cname(name)}, mkT {cN(t['fid'])} {sd(t['ischema'])} {sd(t['oschema'])} {ckw(t['skw'])} {sps})")
    es = []
    for s, o, k, kw, ps in j["edges"]:
        if ps is not None and ps < 0:
            raise ValueError("negative position")
        es.append(f"mkE {cds(s, o)} {cname(k)} {copt(kw, cstr)} {copt(ps, cnat)}")
    return f"(mkJ {clist(ts)} {clist(es)})"


def cbeh(b):
    if b[0] == "ret":
        return "BRet"
    if b[0] == "raise":
        return f"(BRaise {cstr(b[1])})"
    if b[0] == "genlen":
        return "BGenLen"
    if b[0] in ("gen", "genfn"):
        return f"(BGen {cnat(b[1])} {copt(b[2], cstr)})"
    if b[0] == "genv":
        return f"(BObjL KGenerator {clist(b[1], cval)} {copt(b[2], cstr)})"
    if b[0] == "opaque":
        return "BRet"          # an object that cannot be iterated, like the token
    if b[0] == "obj":
        return f"(BObj {OBJ_KINDS[b[1]][0]} {cnat(b[2])} {copt(b[3], cstr)})"
    if b[0] == "lines":
        return f"(BObjL {LINE_KINDS[b[1]]} {clist([['str', l] for l in b[2]], cval)} None)"
    if b[0] == "val":
        ys = iter_desc(realise_val(b[1]))
        if ys == "?":
            raise ValueError(f"returned literal {b[1]} iterates over values outside the pool")
        return f"(BVal {cval(b[1])} {copt(ys, lambda l: clist(l, cval))})"
    if b[0] != "tuple":
        raise ValueError(b[0])
    return f"(BTuple {cnat(b[1])})"


def cbehs(behs):
    return clist([f"({cN(int(k))}, {cbeh(v)})" for k, v in behs.items()])


def cobs_tail(obs):
    """psobs, runs, lasts"""
    if obs["ps"][0] == "err":
        ps = f"(Err {cstr(obs['ps'][1])})"
    else:
        def ckey(k):
            return f"KKw {cstr(k)}" if isinstance(k, str) else f"KPos {cnat(k)}"
        ps = "(Ok " + clist([f"({cname(t)}, {clist([f'({ckey(k)}, {cds(*d)})' for k, d in m])})" for t, m in obs["ps"][1]]) + ")"
    runs = []
    for r in obs["runs"]:
        if "skipped" in r:
            continue
        call = "None" if r["call"] is None else f"(Some ({clist(r['call'][0], cval)}, {ckw(r['call'][1])}))"
        hs = clist([f"({cds(t, o)}, {cval(v)}, {cbool(p)})" for t, o, v, p in r["handled"]])
        runs.append(f"mkRun {cname(r['task'])} {clist([cds(*d) for d in r['publish']])} {call} {hs} {copt(r['exn'], cstr)}")
    lasts = clist([f"({cds(t, o)}, " + (f"Ok {cbool(r[1])}" if r[0] == "ok" else f"Err {cstr(r[1])}") + ")" for t, o, r in obs["lasts"]])
    return f"{ps}, {clist(runs)}, {lasts}"


def clow(lowered):
    return f"LowJob {cjob(lowered[1])}" if lowered[0] == "job" else f"LowRaised {cstr(lowered[1])}"


# ------------------------------------------------------------------------------ one graph case, end to end
def declared_args(args, nin):
    """fluent API contract: the declared arguments, then a placeholder for every input of the node that they do not name"""
    out = [list(a) for a in args]
    for x in range(nin):
        if ["str", f"input{x}"] not in out:
            out.append(["str", f"input{x}"])
    return out


def run_graph_case(g, behs, publish_seed, fluent_coords=None, single=(), declared=None):
    """returns (coq term or None, fails, info).  declared: {id(node): (fid, args, kwargs)} -- what the author of a
    fluent program declared for the nodes of g (generator (e)); the oracle then judges against THAT, the Coq model of
    lowering is compared on the graph as it was really built"""
    from cascade.low.into import graph2job
    fails = []
    descs, sinks, order = describe_graph(g, with_nodes=True)
    odescs = descs
    if declared is not None:
        odescs = []
        for d, node in zip(descs, order):
            dec = declared.get(id(node))
            if dec is None or d["payload"] is None or d["payload"]["kind"] != "tuple":
                odescs.append(d)
                continue
            want = {"kind": "tuple", "fid": dec[0], "args": declared_args(dec[1], len(d["inputs"])), "kwargs": [list(kv) for kv in dec[2]]}
            got = d["payload"]
            if (got["fid"], got["args"]) != (want["fid"], want["args"]) or sorted(map(json.dumps, got["kwargs"])) != sorted(map(json.dumps, want["kwargs"])):
                fails.append(("fluent-node-arguments-not-as-declared",
                              f"node {d['name'][:24]} with {len(d['inputs'])} inputs: payload args={got['args']} kwargs={got['kwargs']} (callable {got['fid']}), "
                              f"declared args={want['args']} kwargs={want['kwargs']} (callable {want['fid']})"))
            odescs.append({**d, "payload": want})
    try:
        job = graph2job(g)
        lowered = ("job", job_canon(job))
    except Exception as e:
        job, lowered = None, ("raised", exn_name(e))
    obs = {"ps": ["ok", []], "runs": [], "lasts": []}
    if job is not None:
        obs = run_job(job, publish_seed)
    oracle_graph(odescs, sinks, fluent_coords, behs, lowered, obs, fails, single)
    if job is not None:
        # lowering and running must not have written to the graph: lowered once more it is judged like the first time
        try:
            again = ("job", job_canon(graph2job(g)))
        except Exception as e:
            again = ("raised", exn_name(e))
        if again != lowered:
            n0 = len(fails)
            oracle_graph(odescs, sinks, fluent_coords, behs, again, None, fails, single)
            fails[n0:] = [("second-" + sig, "the graph lowered a second time, after its tasks ran: " + what) for sig, what in fails[n0:]]
    ALIAS.clear()
    if fluent_coords is not None:
        ALIAS.update({d["name"]: f"N{i}" for i, d in enumerate(descs)})
    term = f"({cgraph(descs, sinks)}, {clow(lowered)}, {cbehs(behs)}, {cobs_tail(obs)})"
    ALIAS.clear()
    info = {"nodes": len(descs), "edges": len(lowered[1]["edges"]) if job is not None else 0, "lowered": lowered[0] if job is not None else "raised:" + lowered[1],
            "runs": obs["runs"], "maxout": max([len(d["outputs"]) for d in descs] + [0]), "descs": descs}
    return term, fails, info


# ------------------------------------------------------------------------------ fluent graphs
def gen_fluent_spec(rng):
    ny = rng.choice([None, None, 1, 2, 3, 5, 10, 11, 12, 13, 25, 101])
    nsrc = rng.choice([1, 1, 2, 3]) if (ny or 1) <= 5 else 1
    steps = []
    for _ in range(rng.choice([0, 1, 1, 2]) if (ny or 1) <= 13 else rng.choice([0, 1])):
        args = [gen_val(rng) for _ in range(rng.choice([0, 0, 1, 2]))]
        r = rng.random()
        if r < 0.3:
            args.insert(rng.randrange(len(args) + 1), ["str", "input0"])
        kwargs = [[k, gen_val(rng)] for k in rng.sample(KW_NAMES, rng.choice([0, 0, 1]))]
        wide = (ny or 1) * nsrc * max([s["yields"] or 1 for s in steps] + [1]) > 6
        steps.append({"args": args, "kwargs": kwargs, "yields": None if wide else rng.choice([None, None, 2, 3, 11, 12])})
    # a second map over the sources with the SAME callable as the first step but other yields (a parametrised generator)
    branch = None
    if (ny or 1) * nsrc <= 6 and rng.random() < 0.5:
        branch = {"nlits": rng.choice([1, 2, 4, 11]), "first": rng.choice([None, 1, 2])}
    return {"kind": "fluent", "nsrc": nsrc, "src_yields": ny, "steps": steps, "publish_seed": rng.randrange(2**32), "mismatch": rng.random() < 0.15,
            "mseed": rng.randrange(2**32), "branch": branch, "values": rng.random() < 0.7}


def build_fluent(spec):
    """real fluent program -> (graph, behs, coords {(node name, output): coordinate index}, single-yield node names)"""
    import random
    import numpy as np
    from earthkit.workflows import fluent
    mr = random.Random(spec["mseed"])
    behs, coords, single = {}, {}, set()
    fid = [0]

    def mk(ny):
        n = 1 if ny is None else ny
        if ny is None:
            # no `yields`: one output, and whatever the callable returns is its value
            beh = gen_value_beh(mr) if (spec.get("values") and mr.random() < 0.6) else ["ret"]
        else:
            k = ny
            if spec["mismatch"] and mr.random() < 0.5:
                k = max(0, ny + mr.choice([-1, 1, -2, 2]))
            beh = ["gen", k, None] if not spec.get("values") else gen_gen_beh(mr, k)
        f = make_callable(fid[0], beh)
        behs[str(fid[0])] = beh
        fid[0] += 1
        return f

    def note(action, ny):
        if ny is None:
            return
        data = action.nodes.data
        flat = data.reshape(-1, data.shape[-1])
        for row in flat:
            for i, out in enumerate(row):
                coords[(out.parent.name, out.name)] = i
                if ny == 1:
                    single.add(out.parent.name)
    ny = spec["src_yields"]
    srcs = np.empty((spec["nsrc"],), dtype=object)
    for i in range(spec["nsrc"]):
        srcs[i] = mk(ny)
    y = None if ny is None else ("yd0", list(range(ny)))
    action = fluent.from_source(srcs, yields=y, dims=["s"])
    note(action, ny)
    sinks = []
    if spec.get("branch"):
        # one generator callable (yields one value per positional argument) mapped twice over the sources:
        # with `first` static arguments (+ the input) and with `nlits` static arguments (+ the input)
        br = spec["branch"]
        f = make_callable(fid[0], ["genlen"])
        behs[str(fid[0])] = ["genlen"]
        fid[0] += 1
        for bi, nl in enumerate([br["first"], br["nlits"]]):
            if nl is None or (bi == 0 and nl == br["nlits"]):
                continue
            pay = fluent.Payload(f, [POOL[1]] * nl)
            ba = action.map(pay, yields=(f"yb{bi}", list(range(nl + 1))))
            note(ba, nl + 1)
            ba = ba.map(fluent.Payload(mk(None)))
            sinks += list(ba.graph().sinks)
    for si, st in enumerate(spec["steps"]):
        ny = st["yields"]
        shape = action.nodes.shape
        pl = np.empty(shape, dtype=object)
        for idx in np.ndindex(*shape):
            pl[idx] = fluent.Payload(mk(ny), [realise_val(a) for a in st["args"]], {k: realise_val(v) for k, v in st["kwargs"]})
        y = None if ny is None else (f"yd{si + 1}", list(range(ny)))
        action = action.map(pl, yields=y)
        note(action, ny)
    g = action.graph()
    if sinks:
        from earthkit.workflows.graph import Graph
        g = Graph(list(dict.fromkeys(list(g.sinks) + sinks)))
    return g, behs, coords, single


def gen_fnode_case(rng):
    args = [gen_val(rng) for _ in range(rng.choice([0, 1, 2, 3]))]
    nin = rng.choice([0, 1, 1, 2, 3, 11])
    for x in range(nin):
        if rng.random() < 0.3:
            args.insert(rng.randrange(len(args) + 1), ["str", f"input{x}"])
    nout = rng.choice([1, 2, 3, 9, 10, 11, 12, 99, 100, 101, 102, rng.randrange(1, 130)])
    return {"args": args, "nin": nin, "nout": nout}


def run_fnode_case(c):
    from earthkit.workflows import fluent
    from earthkit.workflows.graph import Node as BaseNode
    parents = [BaseNode(f"p{i}", payload=None) for i in range(c["nin"])]
    f = make_callable(0, ["ret"])
    node = fluent.Node(fluent.Payload(f, [realise_val(a) for a in c["args"]], {}), parents, num_outputs=c["nout"])
    oargs = [canon(a) for a in node.payload[1]]
    term = f"({clist(c['args'], cval)}, {cnat(c['nin'])}, {cnat(c['nout'])}, ({clist(oargs, cval)}, {clist(list(node.inputs), cstr)}, {clist(node.outputs, cstr)}))"
    fails = []
    # the property's reading: outputs in list order are the yield order under the key-sorted contract
    if sorted(node.outputs) != list(node.outputs):
        fails.append(("fluent-output-names-not-in-yield-order", f"num_outputs={c['nout']}: outputs {node.outputs[:13]}... are not in key-sorted order"))
    if len(set(node.outputs)) != c["nout"]:
        fails.append(("fluent-output-names-not-in-yield-order", f"num_outputs={c['nout']}: {len(set(node.outputs))} distinct names"))
    for x in range(c["nin"]):
        if f"input{x}" not in node.payload[1]:
            fails.append(("fluent-input-not-placed", f"input{x} is not named by any argument: {node.payload[1]}"))
    return term, fails


# ------------------------------------------------------------------------------ fluent programs with re-used objects
BUILTIN_REDUCTIONS = ["sum", "max", "min", "prod"]
SRC_SIZES = [1, 2, 3, 3, 4, 5, 5, 7, 8, 8]
BATCHES = [0, 0, 2, 3, 3, 4, 5]


def gen_decl_args(rng, explicit):
    """arguments as an author writes them: statics, sometimes explicit placeholders (in any order, any subset)"""
    args = [gen_val(rng) for _ in range(rng.choice([0, 0, 0, 1, 2]))]
    if explicit:
        for x in rng.sample([0, 1, 2, 3], rng.choice([1, 1, 2])):
            args.insert(rng.randrange(len(args) + 1), ["str", f"input{x}"])
    return args


def gen_fprog_spec(rng):
    """a program of the fluent API over a POOL of caller-held payloads that are used again and again"""
    npool = rng.choice([1, 1, 2, 2, 3])
    pool = []
    for i in range(npool):
        form = rng.choice(["payload", "payload", "payload", "payload", "partial", "callable"])
        fid = i if (i == 0 or rng.random() < 0.7) else rng.randrange(i)      # one callable in two payloads
        e = {"fid": fid, "form": form, "args": [], "kwargs": [], "alias_of": None}
        prev = [j for j in range(i) if pool[j]["form"] == "payload"]
        if form == "payload" and prev and rng.random() < 0.3:
            j = rng.choice(prev)       # built from the very same list and dict objects as payload j
            e.update(args=stored(pool[j]["args"]), kwargs=stored(pool[j]["kwargs"]), alias_of=j)
        elif form != "callable":
            e["args"] = gen_decl_args(rng, rng.random() < 0.3)
            e["kwargs"] = [[k, gen_val(rng)] for k in rng.sample(KW_NAMES, rng.choice([0, 0, 1]))]
        pool.append(e)
    steps, acts, done = [], [], set()      # acts: the dims [(name, size)] of the action each step yields
    nnodes = 0

    def content(pi):
        return json.dumps([pool[pi]["fid"], pool[pi]["args"], pool[pi]["kwargs"]])

    def source():
        n = rng.choice(SRC_SIZES)
        els = [rng.randrange(npool)] * n if rng.random() < 0.5 else [rng.randrange(npool) for _ in range(n)]
        steps.append(["source", els])
        acts.append([(f"d{len(steps) - 1}", n)])
        return n
    nnodes += source()
    for _ in range(rng.choice([1, 2, 2, 3, 3, 4, 5])):
        if nnodes > 22:
            break
        r = rng.random()
        a = rng.randrange(len(acts))
        if rng.random() < 0.5:
            a = len(acts) - 1
        dims = acts[a]
        size = 1
        for _, n in dims:
            size *= n
        pi = rng.randrange(npool)
        with_dim = [i for i, d in enumerate(acts) if d]
        if r < 0.12:
            nnodes += source()
        elif r < 0.4 or not with_dim:
            if dims and rng.random() < 0.3:
                steps.append(["mapa", a, [rng.randrange(npool) for _ in range(size)]])
            else:
                key = ("map", a, content(pi))
                if key in done:
                    continue
                done.add(key)
                steps.append(["map", a, pi])
            acts.append(list(dims))
            nnodes += size
        elif r < 0.9:
            if not dims:
                a = rng.choice(with_dim)
                dims = acts[a]
            batch = rng.choice(BATCHES)
            if rng.random() < 0.3:
                name = rng.choice(BUILTIN_REDUCTIONS)
                kwargs = [[k, gen_val(rng)] for k in rng.sample(KW_NAMES, rng.choice([0, 0, 1]))]
                key = ("builtin", a, name, json.dumps(kwargs), batch)
                step = ["builtin", a, name, batch, kwargs]
            else:
                key = ("reduce", a, content(pi), batch)
                step = ["reduce", a, pi, batch]
            if key in done:
                continue
            done.add(key)
            steps.append(step)
            acts.append(list(dims[1:]))
            nnodes += size // dims[0][1] * (1 + (dims[0][1] // batch + 1 if 1 < batch < dims[0][1] else 0))
        else:
            same = [b for b in range(len(acts)) if b != a and acts[b] == dims]
            if not same:
                continue
            b = rng.choice(same)
            key = ("binop", a, b, content(pi))
            if key in done:
                continue
            done.add(key)
            steps.append(["binop", a, b, pi])
            acts.append(list(dims))
            nnodes += size
    behs = {str(f): gen_value_beh(rng) for f in sorted({e["fid"] for e in pool}) if rng.random() < 0.5}
    return {"kind": "fprog", "pool": pool, "steps": steps, "publish_seed": rng.randrange(2**32), "behs": behs}


def realise_payload(e, funcs, objs, fluent):
    """pool entry -> the object the author holds: a Payload, a functools.partial or the bare callable;
    objs (by pool position): the list and dict objects a Payload was constructed from"""
    import functools
    f = funcs[e["fid"]]
    if e["form"] != "payload":
        objs.append(None)
        if e["form"] == "callable":
            return f
        return functools.partial(f, *[realise_val(a) for a in e["args"]], **{k: realise_val(v) for k, v in e["kwargs"]})
    if e.get("alias_of") is not None:
        la, ka = objs[e["alias_of"]]
    else:
        la, ka = [realise_val(a) for a in e["args"]], {k: realise_val(v) for k, v in e["kwargs"]}
    objs.append((la, ka))
    return fluent.Payload(f, la, ka)


def reach(nodes_data):
    """all nodes an action's array leads to (parents first)"""
    from earthkit.workflows.graph import Output
    out, seen = [], set()

    def visit(n):
        if id(n) in seen:
            return
        seen.add(id(n))
        for src in n.inputs.values():
            visit(src.parent)
        out.append(n)
    for x in nodes_data.flatten():
        visit(x.parent if isinstance(x, Output) else x)
    return out


def build_fprog(spec):
    """real fluent program -> (graph, behs, declared {id(node): (fid, args, kwargs)}, keep-alive list, notes)"""
    import numpy as np
    from earthkit.workflows import fluent
    from earthkit.workflows.graph import Graph
    pool = spec["pool"]
    nb = max(e["fid"] for e in pool) + 1
    behs = {str(f): ["ret"] for f in range(nb + len(BUILTIN_REDUCTIONS))}
    behs.update({k: v for k, v in spec.get("behs", {}).items() if int(k) < nb})     # what the author's callables return (always ONE value)
    funcs = {}
    for f in range(nb + len(BUILTIN_REDUCTIONS)):
        funcs[f] = make_callable(f, behs[str(f)])
        funcs[f].batchable = True
    objs, held = [], []
    for e in pool:
        held.append(realise_payload(e, funcs, objs, fluent))
    declared, alive, actions = {}, [], []

    def decl_of(pi):
        return (pool[pi]["fid"], pool[pi]["args"], pool[pi]["kwargs"])

    def attribute(action, whole=None, each=None):
        if each is not None:
            data = action.nodes.data
            for idx, pi in zip(np.ndindex(*data.shape), each):
                n = data[idx]
                if id(n) not in declared:
                    declared[id(n)] = decl_of(pi)
                    alive.append(n)
        for n in reach(action.nodes.data):
            if id(n) not in declared:
                declared[id(n)] = whole     # None = not attributed: judged as built
                alive.append(n)
        actions.append(action)

    patched = []
    try:
        for bi, name in enumerate(BUILTIN_REDUCTIONS):
            had = name in vars(fluent.backends)
            patched.append((name, had, vars(fluent.backends).get(name)))
            setattr(fluent.backends, name, funcs[nb + bi])
        for si, st in enumerate(spec["steps"]):
            if st[0] == "source":
                els = st[1]
                arr = np.empty((len(els),), dtype=object)
                for i, pi in enumerate(els):
                    arr[i] = held[pi]
                dim = f"d{si}"
                attribute(fluent.from_source(arr, dims=[dim], coords={dim: list(range(len(els)))}), each=els)
            elif st[0] == "map":
                attribute(actions[st[1]].map(held[st[2]]), whole=decl_of(st[2]))
            elif st[0] == "mapa":
                src = actions[st[1]]
                arr = np.empty(src.nodes.shape, dtype=object)
                for idx, pi in zip(np.ndindex(*arr.shape), st[2]):
                    arr[idx] = held[pi]
                attribute(src.map(arr), each=st[2])
            elif st[0] == "reduce":
                attribute(actions[st[1]].reduce(held[st[2]], batch_size=st[3]), whole=decl_of(st[2]))
            elif st[0] == "builtin":
                bi = BUILTIN_REDUCTIONS.index(st[2])
                act = getattr(actions[st[1]], st[2])(batch_size=st[3], backend_kwargs={k: realise_val(v) for k, v in st[4]})
                attribute(act, whole=(nb + bi, [], st[4]))
            elif st[0] == "binop":
                joined = actions[st[1]].join(actions[st[2]], f"j{si}", match_coord_values=True)
                attribute(joined.reduce(held[st[3]], dim=f"j{si}"), whole=decl_of(st[3]))
            else:
                raise ValueError(st[0])
    finally:
        for name, had, val in patched:
            if had:
                setattr(fluent.backends, name, val)
            elif name in vars(fluent.backends):
                delattr(fluent.backends, name)
    # one graph out of the actions, latest first; an action whose node names clash with nodes already taken is left out
    taken, names, skipped = [], {}, 0
    for act in reversed(actions):
        ns = reach(act.nodes.data)
        if any(names.get(n.name, n) is not n for n in ns):
            skipped += 1
            continue
        for n in ns:
            if n.name not in names:
                names[n.name] = n
                taken.append(n)
    parents = {id(src.parent) for n in taken for src in n.inputs.values()}
    g = Graph([n for n in taken if id(n) not in parents])
    return g, behs, declared, (alive, held, objs), {"skipped_actions": skipped}


# ------------------------------------------------------------------------------ programs of Payload / Node / copy calls
NIN_CHOICES = [0, 0, 1, 1, 2, 2, 3, 4, 11, 12]


def gen_fbuild_spec(rng):
    ops, npay, nnode = [], 0, 0
    for _ in range(rng.choice([3, 4, 5, 6, 8])):
        r = rng.random()
        if npay == 0 or r < 0.2:
            prev = [i for i, o in enumerate(ops) if o[0] == "payload" and o[4] == "plain"]
            if prev and rng.random() < 0.35:
                j = rng.choice(prev)       # same list and dict objects as that earlier Payload(...) call (referred to by its payload number)
                ops.append(["payload", rng.choice([ops[j][1], npay]), stored(ops[j][2]), stored(ops[j][3]), "plain", sum(1 for o in ops[:j] if o[0] == "payload")])
            else:
                ops.append(["payload", npay if rng.random() < 0.7 else rng.randrange(npay + 1), gen_decl_args(rng, rng.random() < 0.4),
                            [[k, gen_val(rng)] for k in rng.sample(KW_NAMES, rng.choice([0, 0, 1]))], rng.choice(["plain", "plain", "partial"]), None])
            npay += 1
        elif r < 0.8:
            ops.append(["node", rng.randrange(npay) if rng.random() < 0.4 else npay - 1, rng.choice(NIN_CHOICES), rng.choice([1, 1, 1, 2, 11])])
            nnode += 1
        elif r < 0.9 and nnode:
            ops.append(["copy", rng.randrange(nnode)])
            nnode += 1
        else:
            part = rng.random() < 0.5
            ops.append(["nodef", rng.randrange(npay + 1), gen_decl_args(rng, rng.random() < 0.4) if part else [],
                        [[k, gen_val(rng)] for k in rng.sample(KW_NAMES, rng.choice([0, 1]))] if part else [],
                        rng.choice(NIN_CHOICES), 1, "partial" if part else "callable"])
            nnode += 1
    return {"kind": "fbuild", "ops": ops}


def small_fbuild_specs(thorough):
    """small scope, exhaustively: one Payload object used for every sequence of input counts"""
    import itertools
    decls = [[], [["str", "input1"], ["lit", 3]], [["lit", 3]], [["str", "input0"]], [["str", "input2"], ["str", "input0"]]] if thorough else [[], [["str", "input1"], ["lit", 3]]]
    out = []
    for args in decls:
        for ln in ([2, 3] if thorough else [2]):
            for seq in itertools.product(range(4), repeat=ln):
                out.append({"kind": "fbuild", "flavour": "small-scope",
                            "ops": [["payload", 0, stored(args), [], "plain", None]] + [["node", 0, n, 1] for n in seq]})
    return out


def run_fbuild_case(spec):
    import functools
    from earthkit.workflows import fluent
    from earthkit.workflows.graph import Node as BaseNode
    parents = [BaseNode(f"p{i}", payload=None) for i in range(13)]
    funcs, pays, given, nodes, decl, fails = {}, [], [], [], [], []

    def fn(fid):
        if fid not in funcs:
            funcs[fid] = make_callable(fid, ["ret"])
        return funcs[fid]

    def partial_of(fid, args, kwargs):
        return functools.partial(fn(fid), *[realise_val(a) for a in args], **{k: realise_val(v) for k, v in kwargs})
    for o in spec["ops"]:
        if o[0] == "payload":
            _, fid, args, kwargs, form, alias = o
            if form == "partial":
                obj = (None, None)
                pays.append(fluent.Payload(partial_of(fid, args, kwargs)))
            else:
                obj = given[alias] if alias is not None else ([realise_val(a) for a in args], {k: realise_val(v) for k, v in kwargs})
                pays.append(fluent.Payload(fn(fid), obj[0], obj[1]))
            given.append(obj)
            decl.append((fid, args, kwargs))
        elif o[0] == "node":
            nodes.append(fluent.Node(pays[o[1]], parents[:o[2]], num_outputs=o[3]))
        elif o[0] == "nodef":
            _, fid, args, kwargs, nin, nout, form = o
            nodes.append(fluent.Node(partial_of(fid, args, kwargs) if form == "partial" else fn(fid), parents[:nin], num_outputs=nout))
        elif o[0] == "copy":
            nodes.append(nodes[o[1]].copy())
        else:
            raise ValueError(o[0])
    # what the author declared for each node
    want = []
    for o in spec["ops"]:
        if o[0] == "node":
            want.append((decl[o[1]], o[2]))
        elif o[0] == "nodef":
            want.append(((o[1], o[2], o[3]), o[4]))
        elif o[0] == "copy":
            want.append(want[o[1]])
    nobs = []
    for node, ((fid, args, kwargs), nin) in zip(nodes, want):
        got = (node.payload[0]._c10_fid, [canon(a) for a in node.payload[1]], [[k, canon(v)] for k, v in node.payload[2].items()])
        nobs.append(got + (list(node.inputs), list(node.outputs)))
        exp_args = declared_args(args, nin)
        if got[0] != fid or got[1] != exp_args or sorted(map(json.dumps, got[2])) != sorted(map(json.dumps, kwargs)):
            fails.append(("fluent-node-arguments-not-as-declared",
                          f"node #{len(nobs) - 1} with {nin} inputs: payload args={got[1]} kwargs={got[2]} (callable {got[0]}), declared args={exp_args} kwargs={kwargs} (callable {fid})"))
        for x in range(nin):
            if f"input{x}" not in node.payload[1]:
                fails.append(("fluent-input-not-placed", f"input{x} is not named by any argument: {node.payload[1]}"))
    pobs = [(p.func._c10_fid, [canon(a) for a in p.args], [[k, canon(v)] for k, v in p.kwargs.items()]) for p in pays]
    cops = []
    for o in spec["ops"]:
        if o[0] == "payload":
            cops.append(f"OPayload {cN(o[1])} {clist(o[2], cval)} {ckw(o[3])}")
        elif o[0] == "node":
            cops.append(f"ONode {cnat(o[1])} {cnat(o[2])} {cnat(o[3])}")
        elif o[0] == "nodef":
            cops.append(f"ONodeFunc {cN(o[1])} {clist(o[2], cval)} {ckw(o[3])} {cnat(o[4])} {cnat(o[5])}")
        else:
            cops.append(f"OCopyNode {cnat(o[1])}")
    cn = clist([f"({cN(f)}, {clist(a, cval)}, {ckw(k)}, {clist(i, cstr)}, {clist(u, cstr)})" for f, a, k, i, u in nobs])
    cp = clist([f"({cN(f)}, {clist(a, cval)}, {ckw(k)})" for f, a, k in pobs])
    return f"({clist(cops)}, {cn}, {cp})", fails


# ------------------------------------------------------------------------------ hand-written jobs
def gen_job_spec(rng):
    n = rng.choice([1, 2, 3, 4])
    tasks, behs = [], {}
    for i in range(n):
        outs = rng.choice([["0"], ["0"], ["0", "1"], ["b", "a"], ["0", "1", "10", "2"], [], numeric_outs(12, False)])
        sps = [[p, gen_val(rng)] for p in rng.sample(range(6), rng.choice([0, 1, 2, 3]))]
        skw = [[k, gen_val(rng)] for k in rng.sample(KW_NAMES, rng.choice([0, 1, 2]))]
        tasks.append({"name": f"t{i}", "fid": i, "oschema": outs, "sps": sps, "skw": skw})
        behs[str(i)] = gen_beh(rng, max(1, len(outs)), sloppy=rng.random() < 0.3)
    edges = []
    for i in range(1, n):
        for _ in range(rng.choice([0, 1, 2, 3])):
            p = rng.randrange(i)
            po = tasks[p]["oschema"]
            if not po:
                continue
            o = rng.choice(po)
            r = rng.random()
            if r < 0.45:
                kw, ps = rng.choice(KW_NAMES), None
            elif r < 0.92:
                kw, ps = None, rng.randrange(7)
            elif r < 0.96:
                kw, ps = None, None
            else:
                kw, ps = "k", 1
            edges.append([f"t{p}", o, f"t{i}", kw, ps])
    return {"kind": "job", "tasks": tasks, "edges": edges, "behs": behs, "publish_seed": rng.randrange(2**32)}


def build_job(spec):
    from cascade.low.core import DatasetId, JobInstance, Task2TaskEdge, TaskDefinition, TaskInstance
    tasks = {}
    for t in spec["tasks"]:
        f = make_callable(t["fid"], spec["behs"][str(t["fid"])])
        d = TaskDefinition(func=TaskDefinition.func_enc(f), environment=[], entrypoint="", input_schema={k: "Any" for k, _ in t["skw"]},
                           output_schema={o: "Any" for o in t["oschema"]})
        tasks[t["name"]] = TaskInstance(definition=d, static_input_kw={k: realise_val(v) for k, v in t["skw"]},
                                        static_input_ps={str(p): realise_val(v) for p, v in t["sps"]})
    edges = [Task2TaskEdge(source=DatasetId(s, o), sink_task=k, sink_input_kw=kw, sink_input_ps=ps) for s, o, k, kw, ps in spec["edges"]]
    return JobInstance(tasks=tasks, edges=edges)


def oracle_job(spec, obs, fails):
    """runner-level reading: statics at their positions / names, upstream values at the edge's position / name (later edges win)"""
    if obs["ps"][0] != "ok":
        if all((kw is None) != (ps is None) for _, _, _, kw, ps in spec["edges"]):
            fails.append(("param-source-raised", f"param_source raised {obs['ps'][1]} on well-formed edges"))
        return
    stored = {}
    tasks = {t["name"]: t for t in spec["tasks"]}
    for r in obs["runs"]:
        if "skipped" in r:
            continue
        t = tasks[r["task"]]
        ins = [e for e in spec["edges"] if e[2] == r["task"]]
        if all((e[0], e[1]) in stored for e in ins) and r["call"] is not None:
            n = max([p + 1 for p, _ in t["sps"]] + [e[4] + 1 for e in ins if e[4] is not None] + [0])
            exp = [["none"]] * n
            for p, v in t["sps"]:
                exp[p] = v
            kw = dict((k, v) for k, v in t["skw"])
            for s, o, _, k, p in ins:
                if k is not None:
                    kw[k] = stored[(s, o)]
                else:
                    exp[p] = stored[(s, o)]
            if r["call"][0] != exp or dict((k, json.dumps(v)) for k, v in r["call"][1]) != {k: json.dumps(v) for k, v in kw.items()}:
                fails.append(("callable-args", f"task {r['task']}: callable received args={r['call'][0]} kwargs={r['call'][1]}, declared args={exp} kwargs={kw}"))
        elif all((e[0], e[1]) in stored for e in ins) and t["oschema"]:
            fails.append(("callable-not-called", f"task {r['task']}: the callable was never called (run raised {r['exn']})"))
        outs = sorted(set(t["oschema"]))
        beh = spec["behs"][str(t["fid"])]
        sem = sem_of(beh, t["fid"], len(r["call"][0]) if r["call"] else 0)
        got = [(o, v) for _, o, v, _ in r["handled"]]
        if len(outs) == 1 and "raises" not in sem and not sem["isgen"] and r["call"] is not None:
            # a single declared output and no generator: whatever object the callable returned is the value
            if r["exn"] is not None:
                fails.append(("run-raised-unexpectedly", f"task {r['task']} ({beh}, single output {outs}) raised {r['exn']} after its callable returned"))
            elif got != [(outs[0], sem["ret"])]:
                fails.append(("output-binding", f"task {r['task']} ({beh}): stored {got}, the returned object is {sem['ret']}"))
        if r["exn"] is None:
            unpack = "raises" not in sem and isinstance(sem["ys"], list) and (len(outs) >= 2 or (len(outs) == 1 and sem["isgen"]))
            if unpack and len(sem["ys"]) != len(outs):
                fails.append(("count-mismatch-ignored", f"task {r['task']}: {len(sem['ys'])} results for {len(outs)} declared outputs, run returned normally"))
            if unpack and len(sem["ys"]) == len(outs):
                exp = [(o, sem["ys"][i]) for i, o in enumerate(outs)]
                if got != exp:
                    fails.append(("output-binding", f"task {r['task']}: stored {got}, contract (key-sorted = yield order) {exp}"))
            for tt, o, v, _ in r["handled"]:
                stored[(tt, o)] = v


def run_job_case(spec):
    fails = []
    job = build_job(spec)
    order = [t["name"] for t in spec["tasks"]]
    # one task runs a second time (a retried task): the job object must not have been written to by the first run
    order.append(order[spec["publish_seed"] % len(order)])
    obs = run_job(job, spec["publish_seed"], order=order)
    oracle_job(spec, obs, fails)
    term = f"({cjob(job_canon(job))}, {cbehs(spec['behs'])}, {cobs_tail(obs)})"
    return term, fails, obs


# ------------------------------------------------------------------------------ driver
def stored(spec):
    return json.loads(json.dumps(spec))


def run_spec(spec):
    """(kind, term, fails, info)"""
    if spec["kind"] == "graph":
        g, _, _ = build_graph(spec)
        term, fails, info = run_graph_case(g, spec["behs"], spec["publish_seed"])
        return "graph", term, fails, info
    if spec["kind"] == "fluent":
        g, behs, coords, single = build_fluent(spec)
        term, fails, info = run_graph_case(g, behs, spec["publish_seed"], fluent_coords=coords, single=single)
        return "graph", term, fails, info
    if spec["kind"] == "job":
        term, fails, obs = run_job_case(spec)
        return "job", term, fails, {"runs": obs["runs"], "nodes": len(spec["tasks"]), "edges": len(spec["edges"]), "maxout": 0}
    if spec["kind"] == "fnode":
        term, fails = run_fnode_case(spec)
        return "fnode", term, fails, {}
    if spec["kind"] == "fprog":
        try:
            g, behs, declared, keep, notes = build_fprog(spec)
        except Exception as e:
            # whether the fluent API accepts a program is not C10's business (shapes, coordinates: C13 / C14)
            return "none", None, [], {"build_raised": exn_name(e)}
        term, fails, info = run_graph_case(g, behs, spec["publish_seed"], fluent_coords={}, declared=declared)
        info.update(notes)
        info["arities"] = sorted({(d["payload"]["fid"], len(d["inputs"])) for d in info["descs"] if d["payload"] and d["payload"]["kind"] == "tuple"})
        return "graph", term, fails, info
    if spec["kind"] == "fbuild":
        term, fails = run_fbuild_case(spec)
        return "fbuild", term, fails, {}
    raise ValueError(spec["kind"])


def classify(spec, fails, info, listed, res):
    """report failures"""
    for sig, what in fails:
        res.fail(sig, what, stored(spec))


WITNESSES = [
    # C10 *_before_fix witnesses, replayed on the implementation on every run
    {"kind": "fluent", "nsrc": 1, "src_yields": 12, "steps": [{"args": [], "kwargs": [], "yields": None}], "publish_seed": 1, "mismatch": False, "mseed": 0},
    {"kind": "graph", "flavour": "witness-one-yield-missing", "nodes": [{"name": "s", "outputs": ["0", "1", "2"], "payload": {"kind": "tuple", "fid": 0, "args": [], "kwargs": []}, "inputs": []}],
     "sinks": [0], "behs": {"0": ["gen", 2, None]}, "publish_seed": 1},
    {"kind": "graph", "flavour": "witness-placeholder-twice", "nodes": [
        {"name": "a", "outputs": None, "payload": {"kind": "tuple", "fid": 0, "args": [], "kwargs": []}, "inputs": []},
        {"name": "b", "outputs": None, "payload": {"kind": "tuple", "fid": 1, "args": [["str", "x"], ["str", "x"], ["lit", 3]], "kwargs": [["q", ["lit", 1]]]}, "inputs": [["x", 0, "0"]]}],
     "sinks": [1], "behs": {"0": ["ret"], "1": ["ret"]}, "publish_seed": 1},
]


def fixed_fprog_specs():
    """always present, whatever the seed: one Payload object building nodes with a DECREASING number of inputs"""
    src = {"fid": 0, "form": "callable", "args": [], "kwargs": [], "alias_of": None}
    red = {"fid": 1, "form": "payload", "args": [], "kwargs": [], "alias_of": None}
    red_s = {"fid": 1, "form": "payload", "args": [["lit", 3], ["str", "input1"]], "kwargs": [["k", ["none"]]], "alias_of": None}
    out = []
    for n, b in ((8, 3), (8, 4), (7, 5), (5, 2)):
        out.append({"kind": "fprog", "flavour": "fixed", "pool": [src, red], "steps": [["source", [0] * n], ["reduce", 0, 1, b]], "publish_seed": n})
    out.append({"kind": "fprog", "flavour": "fixed", "pool": [src, red_s], "steps": [["source", [0] * 8], ["reduce", 0, 1, 3]], "publish_seed": 1})
    out.append({"kind": "fprog", "flavour": "fixed", "pool": [src], "steps": [["source", [0] * 8], ["builtin", 0, "sum", 3, [["q", ["lit", 1]]]]], "publish_seed": 2})
    # a Payload held by the caller: a reduce over 3, a map (1 input), then a source (no input)
    out.append({"kind": "fprog", "flavour": "fixed", "pool": [src, red], "steps": [["source", [0] * 3], ["reduce", 0, 1, 0], ["map", 0, 1], ["source", [1]]], "publish_seed": 3})
    return out


def kind_matrix_specs(thorough):
    """small scope, exhaustively: every kind of returned object x every number k of values it holds x the number of
    declared outputs n (k = 0..n+1): one source node per kind, and for n = 1 one consumer per source"""
    out = []
    for n in ((1, 2, 3, 11) if thorough else (1, 2)):
        for k in (range(0, n + 2) if n <= 3 else (n - 1, n, n + 1)):
            behs = [["gen", k, None], ["tuple", k], ["genfn", k, None], ["genfn", k, "RuntimeError"], ["genv", [RETVALS[(3 * i + k) % len(RETVALS)] for i in range(k)], None]]
            behs += [["obj", kind, k, None] for kind in sorted(OBJ_KINDS)]
            behs += [["obj", kind, k, "RuntimeError"] for kind in sorted(OBJ_KINDS) if OBJ_KINDS[kind][1]] + [["gen", k, "RuntimeError"]]
            if k <= 3:
                behs += [["lines", kind, lines_of(0, k)] for kind in sorted(LINE_KINDS)]
            if k == 0:
                behs += [["val", v] for v in RETVALS[1:]] + [["opaque", kind] for kind in OPAQUE_KINDS] + [["ret"]]
            outs = None if n == 1 else numeric_outs(n, True)
            nodes = [{"name": f"s{i}", "outputs": outs, "payload": {"kind": "tuple", "fid": i, "args": [], "kwargs": []}, "inputs": []} for i in range(len(behs))]
            bd = {str(i): b for i, b in enumerate(behs)}
            sinks = list(range(len(behs)))
            if n == 1:
                for i in range(len(behs)):
                    nodes.append({"name": f"c{i}", "outputs": None, "payload": {"kind": "tuple", "fid": len(behs) + i, "args": [["lit", 1], ["str", "x"]], "kwargs": []},
                                  "inputs": [["x", i, "0"]]})
                    bd[str(len(behs) + i)] = ["ret"]
                sinks = list(range(len(behs), 2 * len(behs)))
            out.append({"kind": "graph", "flavour": "kind-matrix", "nodes": nodes, "sinks": sinks, "behs": bd, "publish_seed": 10 * n + k})
    return out


def gen_specs(ctx, rng):
    specs = list(WITNESSES) + stored(fixed_fprog_specs())
    for fl, n in (("plain", ctx.n(110, 5000)), ("odd", ctx.n(100, 4000)), ("mismatch", ctx.n(80, 3000)), ("many-outputs", ctx.n(30, 1000))):
        specs += [gen_graph_spec(rng, fl) for _ in range(n)]
    specs += [gen_shared_spec(rng) for _ in range(ctx.n(90, 3000))]
    specs += [gen_fluent_spec(rng) for _ in range(ctx.n(40, 1200))]
    specs += [gen_job_spec(rng) for _ in range(ctx.n(100, 4000))]
    specs += [{"kind": "fnode", **gen_fnode_case(rng)} for _ in range(ctx.n(60, 2000))]
    specs += [gen_fprog_spec(rng) for _ in range(ctx.n(60, 2500))]
    specs += [gen_fbuild_spec(rng) for _ in range(ctx.n(80, 3000))]
    specs += small_fbuild_specs(ctx.tier == "thorough")
    specs += kind_matrix_specs(ctx.tier == "thorough")
    # small scope, exhaustively: every output count n against every yield count n-2..n+2 (hand-built, zero-padded names), and n coordinates through fluent
    for n in (list(range(1, 61)) if ctx.tier == "thorough" else [1, 2, 3, 9, 10, 11, 12, 13, 20, 30]):
        for k in range(max(0, n - 2), n + 3):
            specs.append({"kind": "graph", "flavour": "count-matrix", "nodes": [
                {"name": "s", "outputs": numeric_outs(n, True), "payload": {"kind": "tuple", "fid": 0, "args": [], "kwargs": []}, "inputs": []},
                {"name": "c", "outputs": None, "payload": {"kind": "tuple", "fid": 1, "args": [["str", "x"], ["str", "y"]], "kwargs": []},
                 "inputs": [["x", 0, numeric_outs(n, True)[0]], ["y", 0, numeric_outs(n, True)[-1]]]}],
                "sinks": [1], "behs": {"0": ["gen", k, None], "1": ["ret"]}, "publish_seed": n})
        specs.append({"kind": "fluent", "nsrc": 1, "src_yields": n, "steps": [{"args": [], "kwargs": [], "yields": None}], "publish_seed": n, "mismatch": False, "mseed": 0})
    return specs


def run(ctx, res):
    warnings.simplefilter("ignore")
    listed = {f["signature"] for f in load_findings().get("open", []) if f.get("property") == "C10"}
    res.rule = ("one evaluation = one runner.run of one task (graphs, fluent graphs, hand-written jobs) or one graph2job / fluent.Node construction that has no runs; "
                "non-trivial = a run whose callable was reached with at least one upstream value or static argument, or that stored >= 2 outputs, or that ended in an exception; "
                "distinct = distinct (received arguments, handle calls, exception) observation")
    rng = ctx.sub_rng("cases")
    specs = gen_specs(ctx, rng)
    rng.shuffle(specs)          # big (fluent, many-output) cases spread over the shards
    terms = {"graph": [], "job": [], "fnode": [], "fbuild": []}
    metas = {"graph": [], "job": [], "fnode": [], "fbuild": []}
    for spec in specs:
        try:
            kind, term, fails, info = run_spec(spec)
        except ValueError as e:
            res.disagree(f"case cannot be run / written as a Coq term: {e}", stored(spec))
            continue
        classify(spec, fails, info, listed, res)
        if kind == "none":
            res.count("case:" + spec["kind"] + ":build-raised:" + info.get("build_raised", "?"))
            continue
        terms[kind].append(term)
        metas[kind].append(spec)
        res.count("case:" + spec["kind"] + (":" + spec["flavour"] if spec.get("flavour") else ""))
        for b in (spec.get("behs") or {}).values():
            # what the callables of the case return (model kind of the returned object)
            res.count("callable-returns:" + (OBJ_KINDS[b[1]][0] if b[0] == "obj" else LINE_KINDS[b[1]] + "(file)" if b[0] == "lines" else
                                             "generator" if b[0] in ("gen", "genfn", "genv", "genlen") else "KIterable(tuple)" if b[0] == "tuple" else
                                             "not-iterable" if b[0] in ("ret", "opaque") or (b[0] == "val" and iter_desc(realise_val(b[1])) is None) else
                                             "KIterable(literal)" if b[0] == "val" else b[0]))
        if spec["kind"] == "fprog":
            # how one callable's nodes differ in their number of inputs within one program (the re-use the generator is after)
            by = {}
            for f, n in info["arities"]:
                by.setdefault(f, []).append(n)
            res.count("fprog-input-counts-per-callable:" + str(min(3, max(len(v) for v in by.values()))) + ("+" if max(len(v) for v in by.values()) >= 3 else ""))
            res.count("fprog-actions-left-out:" + str(info["skipped_actions"]))
        runs = [r for r in info.get("runs", []) if "skipped" not in r]
        if not runs:
            res.evaluations += 1
        if "lowered" in info:
            res.count("lowering:" + info["lowered"])
            res.count("graph-nodes:" + str(min(info["nodes"], 8)))
            mo = info["maxout"]
            res.count("max-outputs:" + ("1" if mo <= 1 else "2-10" if mo <= 10 else "11-30" if mo <= 30 else ">30"))
        for r in runs:
            res.evaluations += 1
            res.count("run:" + ("ok" if r["exn"] is None else "raised:" + r["exn"]))
            res.count("run-outputs-stored:" + ("0" if not r["handled"] else "1" if len(r["handled"]) == 1 else "2-10" if len(r["handled"]) <= 10 else ">10"))
            if (r["call"] and (r["call"][0] or r["call"][1])) or len(r["handled"]) >= 2 or r["exn"]:
                res.nontrivial_keys.add(json.dumps([r["call"], r["handled"], r["exn"]]))
        if len(res.samples) < 4 and spec["kind"] in ("graph", "fluent") and info.get("edges", 0) >= 2 and spec not in WITNESSES:
            res.samples.append({"kind": spec["kind"], "nodes": [{k: d[k] for k in ("name", "outputs", "inputs")} for d in info["descs"]][:6],
                                "runs": [{k: r[k] for k in ("task", "call", "handled", "exn")} for r in runs][:4]})
    groups = (("graph", "check_graph"), ("job", "check_job"), ("fnode", "check_fluent"), ("fbuild", "check_fbuild"))

    def coq_group(kind, checker):
        # coqc time grows faster than linearly with the size of a cases file
        return coq_results("C10", HEADER, terms[kind], checker, shard=400 if kind in ("fnode", "fbuild") else ctx.n(55, 60), tag=kind)
    # the few shards of the three small groups are evaluated (one after the other) while the graph shards are
    from concurrent.futures import ThreadPoolExecutor
    with ThreadPoolExecutor(max_workers=1) as ex:
        small = ex.submit(lambda: [coq_group(k, c) for k, c in groups[1:]])
        outs = [coq_group(*groups[0])] + small.result()
    for (kind, checker), (r, logs) in zip(groups, outs):
        res.corr_checked += len(r)
        for ok, spec in zip(r, metas[kind]):
            if ok is not True:
                res.disagree(f"Coq model ({checker}) disagrees with the implementation" +
                             ("" if ok is False else " (cases file did not compile: " + (logs[0][-600:] if logs else "") + ")"), stored(spec))
                break


def search(ctx, res):
    warnings.simplefilter("ignore")
    from common import Result
    rng = ctx.sub_rng("search")
    listed = {f["signature"] for f in load_findings().get("open", []) if f.get("property") == "C10"}
    fixed = kind_matrix_specs(False)       # first the small scope of returned-object kinds, then random cases
    for i in range(2000 + len(fixed)):
        spec = fixed[i] if i < len(fixed) else [
            gen_graph_spec(rng, "plain"), gen_shared_spec(rng), gen_fluent_spec(rng), gen_graph_spec(rng, "mismatch"), gen_graph_spec(rng, "many-outputs"),
            gen_fprog_spec(rng), gen_fbuild_spec(rng), gen_job_spec(rng)][i % 8]
        try:
            _, _, fails, info = run_spec(spec)
        except Exception as e:
            return {"signature": "harness-cannot-drive-implementation", "what": repr(e), "case": stored(spec)}
        r2 = Result()
        classify(spec, fails, info, listed, r2)
        if r2.failures:
            return r2.failures[0]
    return None


def replay(ctx, case):
    warnings.simplefilter("ignore")
    c = case.get("case", case)
    if not isinstance(c, dict) or c.get("kind") not in ("graph", "fluent", "job", "fnode", "fprog", "fbuild"):
        return {"fails": None, "note": "no concrete input stored (proof / correspondence breakage): re-run ./check C10"}
    _, _, fails, _ = run_spec(c)
    sig = case.get("signature")
    hit = [f for f in fails if sig is None or f[0] == sig]
    return {"fails": bool(hit), "failures": [list(f) for f in fails[:5]]}
