"""C18 -- the gateway attributes progress/results to the right job and keeps the newest.

The REAL cascade.gateway.router.JobRouter is driven through the REAL server.handle_fe /
server.handle_controller (and the real client.request_response / parse_request /
serialize_response / report.serialize / report.deserialize glue) over scripted fake sockets
and a real (pure-python part of) zmq.Poller.  _spawn_subprocess is patched out, uuid.uuid4 is
scripted so that collisions with existing ids can be forced.

* oracle: a direct reading of the property on the observed responses (independent of the model);
* correspondence: the same histories are evaluated by the Coq model (Gateway/Router.v) and the
  outputs compared inside Coq (Gateway/RouterCheck.check_case)."""
import base64
import contextlib
import hashlib
import itertools
import json
import logging
import re
import types

from common import cN, cZ, cbool, clist, copt, cstr, coq_results

TRUSTED = [
    "harness/c18.py fakes: scripted PULL/REP sockets, scripted uuid.uuid4, patched _spawn_subprocess/get_context/getfqdn; "
    "the dispatch of server.serve (read a socket only while it is registered in the zmq.Poller) is re-enacted by the driver",
    "string -> number maps for job ids / task names / output names (injective per history); base64 + JSON + pickle transport is in the "
    "loop on the implementation side and not modelled",
]
ASSUMPTIONS = [
    "a history is a sequence of dispatches of the serve loop: frontend requests and controller reports read from a job's PULL socket "
    "while that socket is registered in the poller (zmq drops nothing and delivers nothing from an unregistered socket)",
    "never_crashes / keeps-serving theorems: every report read from the socket created for job j names job j (each controller is started "
    "with its own job id and address); a report naming an untracked job is outside the property and does raise KeyError out of the loop",
    "uuid4 is an arbitrary (adversarial) candidate stream; an exhausted script stands for a generator that never yields a fresh id",
    "requests are well-formed API objects (parse_request failures on malformed JSON are not modelled)",
    "after a ShutdownRequest the model keeps processing events (serve finishes the current poll batch); histories are prefixes of that",
]

HEADER = """From Coq Require Import List NArith ZArith String.
From EKW Require Import Gateway.Router Gateway.RouterCheck.
Import ListNotations.
Open Scope string_scope.
"""

STARTED = "0.00"
SHUTDOWN = "Shutdown"


# ----------------------------------------------------------------------------- driver of the real code
class FakeSock:
    def __init__(self, port):
        self.port = port
        self.inbox = []
        self.sent = []

    def bind_to_random_port(self, addr, *a, **k):
        return self.port

    def bind(self, *a, **k):
        pass

    def recv(self, *a, **k):
        return self.inbox.pop(0)

    def send(self, b, *a, **k):
        self.sent.append(b)

    def close(self, *a, **k):
        pass

    def set(self, *a, **k):
        pass

    setsockopt = set


class FakeUUID:
    def __init__(self, s):
        self.s = s
        self.hex = s

    def __str__(self):
        return self.s

    __repr__ = __str__


class Gateway:
    """one gateway instance: real JobRouter + real handlers, fake sockets"""

    def __init__(self):
        import zmq
        import cascade.gateway.router as router
        import cascade.gateway.server as server
        import cascade.gateway.client as client
        import cascade.gateway.api as api
        import cascade.controller.report as report
        from cascade.low.core import DatasetId
        self.zmq, self.routermod, self.server, self.client, self.api, self.report, self.DatasetId = zmq, router, server, client, api, report, DatasetId
        self.poller = zmq.Poller()
        self.fe = FakeSock(1)
        self.poller.register(self.fe, zmq.POLLIN)
        self.router = router.JobRouter(self.poller)
        self.next_port = 20000
        self.sock_by_addr = {}
        self.sock_of_job = {}
        self.uuid_script = None
        self.spawn_ok = True
        self.last_alloc = None
        self.fe_exc = None
        self.fe_stop = None

    # ---- seams
    def _ctx_socket(self, kind):
        self.next_port += 1
        s = FakeSock(self.next_port)
        self.sock_by_addr[self.next_port] = s
        return s

    def _spawn(self, job_spec, addr, job_id):
        port = int(str(addr).rsplit(":", 1)[1])
        self.sock_of_job.setdefault(job_id, self.sock_by_addr.get(port))
        self.last_alloc = job_id
        if not self.spawn_ok:
            raise OSError("spawn failed (scripted)")

    def _uuid4(self):
        if self.uuid_script is None:
            return self._real_uuid4()
        if not self.uuid_script:
            raise RuntimeError("uuid script exhausted")
        return FakeUUID(self.uuid_script.pop(0))

    @contextlib.contextmanager
    def patched(self):
        import uuid as uuidmod
        import threading
        router, client = self.routermod, self.client
        saved = (router.get_context, router.getfqdn, router._spawn_subprocess, uuidmod.uuid4, client.threading, getattr(router, "uuid4", None))
        self._real_uuid4 = uuidmod.uuid4
        gw = self

        class ReqSock:
            def set(self, *a, **k):
                pass

            def connect(self, url):
                pass

            def send(self, b):
                gw.fe.inbox.append(b)
                try:
                    gw.fe_stop = gw.server.handle_fe(gw.fe, gw.router)
                except BaseException as e:
                    gw.fe_exc = type(e).__name__
                    raise
                self.reply = gw.fe.sent.pop(0)

            def poll(self, *a, **k):
                return 1

            def recv(self):
                return self.reply

        class L:
            context = types.SimpleNamespace(socket=lambda kind: ReqSock())

        router.get_context = lambda: types.SimpleNamespace(socket=self._ctx_socket)
        router.getfqdn = lambda *a: "gateway.test"
        router._spawn_subprocess = self._spawn
        uuidmod.uuid4 = self._uuid4
        if saved[5] is not None:
            router.uuid4 = self._uuid4
        client.threading = types.SimpleNamespace(local=lambda: L)
        prev_disable = logging.root.manager.disable
        logging.disable(logging.CRITICAL)
        try:
            yield self
        finally:
            logging.disable(prev_disable)
            router.get_context, router.getfqdn, router._spawn_subprocess, uuidmod.uuid4, client.threading = saved[:5]
            if saved[5] is not None:
                router.uuid4 = saved[5]

    # ---- one event -> canonical observation (list, JSON-able) ; raises Crash
    def fe_request(self, req):
        self.fe_exc, self.fe_stop = None, None
        try:
            resp = self.client.request_response(req, "fake://gateway")
        except Exception as e:
            raise Crash(self.fe_exc or type(e).__name__, repr(e)[:300])
        return resp

    def do(self, ev):
        api = self.api
        op = ev["op"]
        if op == "submit":
            self.uuid_script = list(ev["cands"])
            self.spawn_ok = bool(ev["spawn_ok"])
            self.last_alloc = None
            try:
                spec = api.JobSpec(benchmark_name="bench", envvars={}, job_instance=None, workers_per_host=1, hosts=1, use_slurm=False)
                r = self.fe_request(api.SubmitJobRequest(job=spec))
            finally:
                self.uuid_script = None
            if r.job_id is not None:  # where the controller of this job reports to, as far as the harness can know
                self.sock_of_job.setdefault(r.job_id, None)
            return ["submit", r.job_id, errkind(r.error), self.last_alloc]
        if op == "progress":
            r = self.fe_request(api.JobProgressRequest(job_ids=list(ev["ids"])))
            return ["progress", sorted(r.progresses.items()), errkind(r.error)]
        if op == "result":
            r = self.fe_request(api.ResultRetrievalRequest(job_id=ev["job"], dataset_id=self.DatasetId(ev["ds"][0], ev["ds"][1])))
            res = None if r.result is None else base64.b64decode(r.result).hex()
            return ["result", res, errkind(r.error)]
        if op == "stop":
            r = self.fe_request(api.ShutdownRequest())
            return ["stop", errkind(r.error), bool(self.fe_stop)]
        if op == "deliver":
            sock = self.sock_of_job.get(ev["sock"])
            if sock is None or sock not in self.poller:
                return ["dropped"]
            rp = ev["report"]
            rep = self.report.ControllerReport(rp["job"], rp["status"], rp["ts"],
                                               [(self.DatasetId(d[0], d[1]), bytes.fromhex(b)) for d, b in rp["results"]])
            sock.inbox.append(self.report.serialize(rep))
            try:
                self.server.handle_controller(sock, self.router)
            except Exception as e:
                raise Crash(type(e).__name__, repr(e)[:300])
            return ["handled"]
        raise ValueError(op)


class Crash(Exception):
    def __init__(self, kind, what):
        super().__init__(kind, what)
        self.kind, self.what = kind, what


def errkind(err):
    if err is None:
        return None
    m = re.match(r"[A-Za-z_][A-Za-z_0-9.]*", err)
    return m.group(0) if m else "?"


def run_history(events):
    """-> (observations, crash) ; crash = None | [kind, what, index]"""
    gw = Gateway()
    obs, crash = [], None
    with gw.patched():
        for i, ev in enumerate(events):
            try:
                obs.append(gw.do(ev))
            except Crash as c:
                crash = [c.kind, c.what, i]
                break
    return obs, crash


# ----------------------------------------------------------------------------- oracle: the property, read directly
def is_wf(events):
    """the histories the property quantifies over: reports of job j arrive on j's own socket, timestamps as monotonic_ns gives them"""
    for ev in events:
        if ev["op"] == "deliver" and (ev["sock"] != ev["report"]["job"] or ev["report"]["ts"] < 0):
            return False
    return True


def oracle(events, obs, crash, wf=None):
    """list of (signature, what).  Never demands more than the property states."""
    wf = is_wf(events) if wf is None else wf
    out = []
    good = set()      # ids handed to a client by a successful SubmitJobResponse
    shaky = set()     # ids allocated by a submit that then failed (tracked by the gateway, never handed out): no expectation
    prog, ups = {}, {}
    for i, (ev, ob) in enumerate(zip(events, obs)):
        op = ev["op"]
        if op == "submit":
            _, jid, err, alloc = ob
            for x in {jid, alloc} - {None}:
                if x in good or x in shaky:
                    out.append(("job-id-reused", f"event {i}: submit was given id {x!r} which an earlier job already has"))
            if jid is not None and err is None:
                good.add(jid)
                if alloc is not None and alloc != jid:
                    shaky.add(alloc)
            elif alloc is not None:
                shaky.add(alloc)
            if jid is None and err is None:
                out.append(("submit-no-id-no-error", f"event {i}: SubmitJobResponse with neither id nor error"))
        elif op == "deliver" and ob[0] == "handled":
            rp = ev["report"]
            j = rp["job"]
            if rp["status"] is not None and rp["status"] != SHUTDOWN:
                prog.setdefault(j, []).append((rp["ts"], rp["status"]))
            for d, b in rp["results"]:
                ups.setdefault((j, tuple(d)), []).append(b)
        elif op == "progress" and wf:
            _, items, err = ob
            ids = list(ev["ids"])
            if any(x in shaky for x in ids) or (not ids and shaky):
                continue
            if all(x in good for x in ids):
                want = set(ids) if ids else set(good)
                if err is not None:
                    out.append(("known-job-query-error", f"event {i}: progress of tracked jobs {ids} answered with error {err}"))
                    continue
                got = dict(items)
                if set(got) != want:
                    out.append(("progress-wrong-jobs", f"event {i}: asked {sorted(want)}, got {sorted(got)}"))
                    continue
                for j, v in got.items():
                    reps = prog.get(j, [])
                    if not reps:
                        ok, exp = v == STARTED, {STARTED}
                    else:
                        m = max(t for t, _ in reps)
                        exp = {s for t, s in reps if t == m}
                        ok = v in exp
                    if not ok:
                        out.append(("progress-not-newest", f"event {i}: job {j!r} shows {v!r}; received progress reports (ts, status) {reps}; newest is {sorted(exp)}"))
            else:
                if err is None:
                    out.append(("unknown-job-no-error", f"event {i}: progress request naming untracked job in {ids} got no error: {items}"))
        elif op == "result" and wf:
            _, res, err = ob
            j, d = ev["job"], tuple(ev["ds"])
            if j in shaky:
                continue
            uploaded = ups.get((j, d), []) if j in good else []
            if uploaded:
                if err is not None or res is None:
                    out.append(("result-lost", f"event {i}: result ({j!r},{d}) was uploaded {uploaded} but the answer is error {err}"))
                elif res not in uploaded:
                    out.append(("result-not-as-uploaded", f"event {i}: result ({j!r},{d}) returned {res!r}, uploaded were {uploaded}"))
            else:
                if err is None or res is not None:
                    out.append(("result-for-wrong-key", f"event {i}: nothing was uploaded for ({j!r},{d}) yet the answer is {res!r} (error {err})"))
        elif op == "stop":
            if ob[1] is not None or ob[2] is not True:
                out.append(("shutdown-request", f"event {i}: ShutdownRequest answered {ob}"))
    if crash is not None and wf:
        out.append(("gateway-crash", f"event {crash[2]} {events[crash[2]]}: {crash[0]} left the serve loop ({crash[1]}); the gateway stops serving every job"))
    return out


# ----------------------------------------------------------------------------- Coq terms
class Names:
    def __init__(self):
        self.t = {}

    def n(self, s):
        if s not in self.t:
            self.t[s] = len(self.t)
        return cN(self.t[s])


def c_ds(nm, d):
    return f"({nm.n('t:' + d[0])}, {nm.n('o:' + d[1])})"


def c_bytes(hexs):
    return clist([cN(x) for x in bytes.fromhex(hexs)])


def c_event(nm, ev):
    op = ev["op"]
    if op == "submit":
        return f"Fe (SubmitJobRequest {clist([nm.n('j:' + c) for c in ev['cands']])} {cbool(ev['spawn_ok'])})"
    if op == "progress":
        return f"Fe (JobProgressRequest {clist([nm.n('j:' + c) for c in ev['ids']])})"
    if op == "result":
        return f"Fe (ResultRetrievalRequest {nm.n('j:' + ev['job'])} {c_ds(nm, ev['ds'])})"
    if op == "stop":
        return "Fe ShutdownRequest"
    rp = ev["report"]
    rs = clist([f"({c_ds(nm, d)}, {c_bytes(b)})" for d, b in rp["results"]])
    return f"Ctl {nm.n('j:' + ev['sock'])} (mkReport {nm.n('j:' + rp['job'])} {copt(rp['status'], cstr)} {cZ(rp['ts'])} {rs})"


def c_output(nm, ob):
    k = ob[0]
    if k == "submit":
        return f"Resp (SubmitJobResponse {copt(ob[1], lambda s: nm.n('j:' + s))} {copt(ob[2], cstr)})"
    if k == "progress":
        ps = clist([f"({nm.n('j:' + a)}, {cstr(b)})" for a, b in ob[1]])
        return f"Resp (JobProgressResponse {ps} {copt(ob[2], cstr)})"
    if k == "result":
        return f"Resp (ResultRetrievalResponse {copt(ob[1], c_bytes)} {copt(ob[2], cstr)})"
    if k == "stop":
        return "Resp ShutdownResponse" if (ob[1] is None and ob[2]) else "Dropped"  # anything else can never match the model
    return "Handled" if k == "handled" else "Dropped"


def c_case(events, obs, crash):
    nm = Names()
    evs = clist([c_event(nm, e) for e in events])
    outs = clist([c_output(nm, o) for o in obs])
    return f"(({evs},\n    {outs},\n    {copt(crash[0] if crash else None, cstr)}) : list event * list output * option string)"


# ----------------------------------------------------------------------------- generators
DS_POOL = [["a", "b.c"], ["a.b", "c"], ["t", "0"], ["t", "1"], ["", "x"], ["t.0", ""]]
TS_POOL = [0, 1, 2, 3, 4, 5, 7, 9, 10**9, 2**63 - 1, 2**63, 2**64 + 3]


def rbytes(rng):
    return bytes(rng.randrange(256) for _ in range(rng.choice([0, 1, 1, 2, 3, 5]))).hex()


def job_script(rng, jid):
    """what a controller of job jid would send, in causal order, then perturbed"""
    nprog = rng.choice([0, 1, 2, 3, 3, 4, 5])
    tss = sorted(rng.choice(TS_POOL) for _ in range(nprog)) if rng.random() < 0.4 else sorted(rng.sample(TS_POOL, nprog))
    reps = []
    for k, ts in enumerate(tss):
        status = rng.choice(["%.2f" % (100.0 * (k + 1) / nprog), "%.2f" % (rng.randrange(10000) / 100), "100.00", STARTED, "", "shutdown", "Shutdown "])
        reps.append({"job": jid, "status": status, "ts": ts, "results": []})
        if rng.random() < 0.15:
            reps[-1]["results"] = [[rng.choice(DS_POOL), rbytes(rng)]]
    base_ts = tss[-1] if tss else 0
    for _ in range(rng.choice([0, 1, 1, 2, 3])):
        rs = [[rng.choice(DS_POOL[:4] if rng.random() < 0.8 else DS_POOL), rbytes(rng)] for _ in range(rng.choice([1, 1, 1, 2, 3]))]
        reps.insert(rng.randrange(len(reps) + 1), {"job": jid, "status": None, "ts": rng.choice(TS_POOL + [base_ts]), "results": rs})
    if rng.random() < 0.7:
        reps.append({"job": jid, "status": SHUTDOWN, "ts": rng.choice([base_ts + 1, 0, base_ts]), "results": [] if rng.random() < 0.85 else [[rng.choice(DS_POOL), rbytes(rng)]]})
    mode = rng.choice(["inorder", "swap", "shuffle", "shuffle", "reverse"])
    if mode == "swap" and len(reps) > 1:
        for _ in range(rng.randrange(1, 3)):
            i = rng.randrange(len(reps) - 1)
            reps[i], reps[i + 1] = reps[i + 1], reps[i]
    elif mode == "shuffle":
        rng.shuffle(reps)
    elif mode == "reverse":
        reps.reverse()
    if reps and rng.random() < 0.5:
        for _ in range(rng.randrange(1, 4)):
            reps.insert(rng.randrange(len(reps) + 1), json.loads(json.dumps(rng.choice(reps))))
    return reps


def gen_history(rng, malformed=False):
    njobs = rng.choice([1, 1, 2, 2, 2, 3, 3, 4])
    prefix = rng.choice(["j", "job-", "0f3c9a2e-", ""])
    ids = [f"{prefix}{k}" for k in range(njobs)]
    lanes = []
    for k, jid in enumerate(ids):
        lane = [{"op": "deliver", "sock": jid, "report": r} for r in job_script(rng, jid)]
        sub = {"op": "submit", "cands": [jid], "spawn_ok": True, "_new": jid}
        pos = 0 if rng.random() < 0.9 else rng.randrange(len(lane) + 1)   # sometimes reports "arrive" before the job exists: no socket, dropped
        lane.insert(pos, sub)
        lanes.append(lane)
    # random interleaving of the lanes
    events = []
    idx = [0] * njobs
    live = [k for k in range(njobs) if lanes[k]]
    while live:
        k = rng.choice(live) if rng.random() < 0.8 else live[0]
        events.append(lanes[k][idx[k]])
        idx[k] += 1
        if idx[k] == len(lanes[k]):
            live.remove(k)
    # adversarial uuid candidates: collisions with ids already tracked, exhausted scripts, failing spawns
    tracked = []
    extra = []
    for ev in events:
        if ev["op"] == "submit":
            new = ev.pop("_new")
            if tracked and rng.random() < 0.4:
                ev["cands"] = [rng.choice(tracked) for _ in range(rng.randrange(1, 4))] + [new]
            if rng.random() < 0.06:
                ev["spawn_ok"] = False
            tracked.append(new)
    if tracked and rng.random() < 0.25:
        pos = rng.randrange(1, len(events) + 1)
        before = [e["cands"][-1] for e in events[:pos] if e["op"] == "submit"]
        if before:
            events.insert(pos, {"op": "submit", "cands": [rng.choice(before) for _ in range(rng.randrange(0, 3))], "spawn_ok": True})
    # frontend queries
    unknown = ["nope", "", ids[0] + "x", "J0", ids[-1][:-1]]

    def query(pos_ids):
        r = rng.random()
        if r < 0.22:
            return {"op": "progress", "ids": []}
        if r < 0.5:
            pool = pos_ids or ids
            return {"op": "progress", "ids": [rng.choice(pool) for _ in range(rng.randrange(1, 4))]}
        if r < 0.62:
            q = [rng.choice(ids) for _ in range(rng.randrange(0, 3))]
            q.insert(rng.randrange(len(q) + 1), rng.choice(unknown + ids))
            return {"op": "progress", "ids": q}
        if r < 0.9:
            return {"op": "result", "job": rng.choice(ids), "ds": rng.choice(DS_POOL[:4] if rng.random() < 0.85 else DS_POOL)}
        return {"op": "result", "job": rng.choice(unknown), "ds": rng.choice(DS_POOL)}

    for _ in range(rng.choice([1, 2, 3, 4, 6])):
        pos = rng.randrange(len(events) + 1)
        known = [e["cands"][-1] for e in events[:pos] if e["op"] == "submit" and e["cands"]]
        events.insert(pos, query(known))
    if rng.random() < 0.1:
        events.insert(rng.randrange(len(events) + 1), {"op": "stop"})
    if malformed:
        dl = [e for e in events if e["op"] == "deliver"]
        for e in rng.sample(dl, min(len(dl), rng.randrange(1, 3))):
            how = rng.choice(["sock", "job", "neg", "unknownjob"])
            if how == "sock":
                e["sock"] = rng.choice(ids)
            elif how == "job":
                e["report"]["job"] = rng.choice(ids)
            elif how == "neg":
                e["report"]["ts"] = rng.choice([-1, -1, -2, -10**12])
            else:
                e["report"]["job"] = rng.choice(unknown)
    # final probes: everything the frontend can observe
    events.append({"op": "progress", "ids": []})
    seen = []
    for e in events:
        if e["op"] == "deliver":
            for d, _ in e["report"]["results"]:
                if d not in seen:
                    seen.append(d)
    for jid in ids:
        events.append({"op": "progress", "ids": [jid]})
        for d in seen[:4]:
            events.append({"op": "result", "job": jid, "ds": d})
    return events


def small_scope(maxlen):
    """every history of at most maxlen controller reports over two tracked jobs from a fixed alphabet, followed by the probes"""
    A, B = "A", "B"
    d = ["t", "0"]
    alpha = []
    for j in (A, B):
        alpha += [
            {"op": "deliver", "sock": j, "report": {"job": j, "status": "10.00", "ts": 1, "results": []}},
            {"op": "deliver", "sock": j, "report": {"job": j, "status": "20.00", "ts": 2, "results": []}},
            {"op": "deliver", "sock": j, "report": {"job": j, "status": SHUTDOWN, "ts": 3, "results": []}},
            {"op": "deliver", "sock": j, "report": {"job": j, "status": None, "ts": 2, "results": [[d, "aa" if j == A else "bb"]]}},
        ]
    head = [{"op": "submit", "cands": [A], "spawn_ok": True}, {"op": "submit", "cands": [A, A, B], "spawn_ok": True}]
    tail = [{"op": "progress", "ids": []}, {"op": "result", "job": A, "ds": d}, {"op": "result", "job": B, "ds": d},
            {"op": "progress", "ids": [A, "C"]}, {"op": "progress", "ids": [B]}]
    for n in range(maxlen + 1):
        for mid in itertools.product(alpha, repeat=n):
            yield head + list(mid) + tail


# hand-written regression histories (the first is the witness of the defect repaired by the `fix:` commit)
def corpus():
    def rep(j, st, ts, rs=()):
        return {"op": "deliver", "sock": j, "report": {"job": j, "status": st, "ts": ts, "results": [list(x) for x in rs]}}
    sub = lambda *c: {"op": "submit", "cands": list(c), "spawn_ok": True}
    pa = {"op": "progress", "ids": []}
    d0, d1 = ["a", "b.c"], ["a.b", "c"]
    return [
        [sub("x"), rep("x", "50.00", 200), rep("x", "10.00", 100), pa],
        [sub("x"), rep("x", "50.00", 200), rep("x", SHUTDOWN, 300), pa, rep("x", "60.00", 400), pa],
        [sub("x"), rep("x", "50.00", 0), rep("x", "60.00", 0), pa],
        [sub("x"), sub("x", "x", "y"), sub("x", "y"), pa, rep("y", "5.00", 5), rep("x", "7.00", 5), pa, {"op": "progress", "ids": ["y", "y", "x"]}],
        [sub("x"), sub("y"), rep("x", None, 1, [(d0, "00ff")]), rep("y", None, 1, [(d1, "01")]),
         {"op": "result", "job": "x", "ds": d0}, {"op": "result", "job": "x", "ds": d1}, {"op": "result", "job": "y", "ds": d0},
         {"op": "result", "job": "y", "ds": d1}, {"op": "result", "job": "z", "ds": d0}, {"op": "progress", "ids": ["x", "z"]}, pa],
        [sub("x"), rep("x", SHUTDOWN, 1), rep("x", SHUTDOWN, 1), rep("x", None, 2, [(d0, "")]), {"op": "result", "job": "x", "ds": d0}, pa],
        [sub("x"), rep("x", None, 9, [(d0, "01"), (d0, "02")]), rep("x", "1.00", 2**64), rep("x", "2.00", 2**63), {"op": "result", "job": "x", "ds": d0}, pa, {"op": "stop"}, pa],
        [{"op": "submit", "cands": ["x"], "spawn_ok": False}, sub("x", "w"), pa, rep("x", "3.00", 3), pa],
    ]


# ----------------------------------------------------------------------------- run / search / replay / shrink
def evaluate(events):
    obs, crash = run_history(events)
    return obs, crash, oracle(events, obs, crash)


def hist_key(events):
    return hashlib.sha1(json.dumps(events, sort_keys=True).encode()).hexdigest()


def nontrivial(events, obs):
    handled_at = [i for i, o in enumerate(obs) if o[0] == "handled"]
    if not handled_at:
        return False
    return any(o[0] in ("progress", "result") for o in obs[handled_at[0] + 1:])


def classify(events, obs, res):
    jobs = sum(1 for o in obs if o[0] == "submit" and o[1] is not None)
    res.count(f"jobs:{min(jobs, 4)}")
    per = {}
    late = dup = aftershut = False
    seen = set()
    for e, o in zip(events, obs):
        if e["op"] != "deliver":
            continue
        rp = e["report"]
        key = json.dumps(rp, sort_keys=True)
        if key in seen:
            dup = True
        seen.add(key)
        if o[0] == "dropped" and rp["job"] in per:
            aftershut = True
        if o[0] == "handled" and rp["status"] not in (None, SHUTDOWN):
            if rp["ts"] < per.get(rp["job"], -1):
                late = True
            per[rp["job"]] = max(per.get(rp["job"], -1), rp["ts"])
        per.setdefault(rp["job"], -1)
    if late:
        res.count("has-late-older-progress-report")
    if dup:
        res.count("has-duplicated-report")
    if aftershut:
        res.count("has-report-after-shutdown(dropped)")
    if any(o[0] == "progress" and o[2] for o in obs) or any(o[0] == "result" and o[2] for o in obs):
        res.count("has-error-response")
    if any(e["op"] == "submit" and len(e["cands"]) != 1 for e in events):
        res.count("has-uuid-collision-or-exhaustion")


def run(ctx, res):
    res.rule = ("a history (submits with scripted uuid candidates, controller reports on per-job sockets -- in order, swapped, shuffled, reversed, duplicated, "
                "after shutdown, before the job exists --, progress/result queries incl. unknown ids, final probes of every job and dataset) counts as "
                "non-trivial when at least one report was handled by handle_controller and a frontend query was answered after it; distinct = distinct event lists")
    streams = []
    for h in corpus():
        streams.append(("corpus", h))
    rng = ctx.sub_rng("wf")
    for _ in range(ctx.n(1500, 30000)):
        streams.append(("random", gen_history(rng)))
    rng2 = ctx.sub_rng("malformed")
    for _ in range(ctx.n(300, 6000)):
        streams.append(("malformed", gen_history(rng2, malformed=True)))
    for h in small_scope(ctx.n(4, 5)):
        streams.append(("small-scope", h))
    terms, metas = [], []
    for kind, events in streams:
        obs, crash, bad = evaluate(events)
        res.evaluations += 1
        wf = is_wf(events)
        res.count(f"stream:{kind}")
        if kind != "small-scope":
            classify(events, obs, res)
        if crash:
            res.count("loop-left-by-exception" + ("" if wf else " (report naming a foreign/untracked job)"))
        if nontrivial(events, obs):
            res.nontrivial_keys.add(hist_key(events))
        case = {"events": events, "stream": kind}
        for sig, what in bad[:1]:
            res.fail(sig, what, case)
        if len(res.samples) < 3 and kind == "random" and nontrivial(events, obs):
            res.samples.append({"events": events[:12], "observations": obs[:12]})
        try:
            terms.append(c_case(events, obs, crash))
            metas.append((case, obs, crash))
        except ValueError as e:  # a string the literal printer refuses: counted, not compared
            res.count("not-compared:" + str(e)[:40])
    results, logs = coq_results("C18", HEADER, terms, "check_case", tag="hist", shard=300)
    res.corr_checked += len(results)
    for r, (case, obs, crash) in zip(results, metas):
        if r is not True:
            res.disagree("Coq model (Gateway.Router.run) and the real gateway differ on a history" +
                         ("" if r is False else " (cases file did not compile: " + (logs[0][-400:] if logs else "") + ")"),
                         {**case, "observations": obs, "crash": crash})
            break


def search(ctx, res):
    """enlarged search for a concrete failing input (oracle only): more seeds, deeper small scope, shrinking around the disagreement"""
    first = []
    for d in res.disagreements:
        ev = (d.get("case") or {}).get("events")
        if ev:
            first.append(ev)
    cands = itertools.chain(first, corpus(),
                            (gen_history(ctx.sub_rng(f"search{k}")) for k in range(1)),
                            _many(ctx), small_scope(4))
    for events in cands:
        obs, crash, bad = evaluate(events)
        if bad:
            f = {"signature": bad[0][0], "what": bad[0][1], "case": {"events": events, "stream": "search"}}
            return shrink(ctx, f)
    return None


def _many(ctx):
    rng = ctx.sub_rng("search-many")
    for _ in range(6000):
        yield gen_history(rng)


def shrink(ctx, f):
    """drop events while the same failure class remains"""
    events = list(f["case"]["events"])
    sig = f["signature"]

    def still(evs):
        try:
            _, _, bad = evaluate(evs)
        except Exception:
            return None
        for s, w in bad:
            if s == sig:
                return w
        return None
    what = still(events)
    if what is None:
        return f
    changed = True
    while changed and len(events) > 1:
        changed = False
        for i in range(len(events) - 1, -1, -1):
            trial = events[:i] + events[i + 1:]
            w = still(trial)
            if w is not None:
                events, what, changed = trial, w, True
    return {"signature": sig, "what": what, "case": {"events": events, "stream": f["case"].get("stream", "?") + "+shrunk"}}


def replay(ctx, case):
    c = case.get("case") or (case.get("first_disagreement") or {}).get("case") or case
    events = c.get("events")
    if not events:
        return {"fails": None, "note": "no event list in this replay file"}
    obs, crash, bad = evaluate(events)
    return {"fails": bool(bad), "failures": [{"signature": s, "what": w} for s, w in bad], "observations": obs, "crash": crash}
