"""C18 -- the gateway attributes progress/results to the right job and keeps the newest.

The REAL cascade.gateway.router.JobRouter is driven through the REAL server.handle_fe /
server.handle_controller (and the real client.request_response / parse_request /
serialize_response / report.serialize / report.deserialize glue) over scripted fake sockets
and a real (pure-python part of) zmq.Poller.  _spawn_subprocess is patched out, the id source is
scripted so that collisions with existing ids can be forced: the real uuid.uuid1/uuid4 (and the
entropy call os.urandom) are wrapped under EVERY name they are bound to in the uuid/os/random
modules and in every loaded cascade module.  A draw of the scripted source is either a legacy
id-like string (round 1-4 streams) or a real uuid.UUID value (round 5): the job id is then whatever
the implementation makes of it, later events name the job by reference ("@<tag of the submit>").

Round 6: the controller side of the channel runs too.  `rsend` events call the REAL cascade.controller.report.Reporter
(send_progress / send_result / shutdown; one Reporter per job, made from the address the router handed to the spawn) over a fake
PUSH socket below the code (zmq.Context.socket and comms.get_context wherever bound) and a scripted clock (every clock function of
`time`, wrapped wherever it is bound; each controller "process" has its own epoch); what it puts on the wire is delivered to the
job's PULL socket by `rdeliver` events (in order, lagging, reordered, duplicated, after the shutdown notice) and read by the real
handle_controller.  The oracle for these histories orders the reports by the harness's own clock at the time of the send.

* oracle: a direct reading of the property on the observed responses (independent of the model);
* correspondence: the same histories are evaluated by the Coq model (Gateway/Router.v) and the
  outputs compared inside Coq (Gateway/RouterCheck.check_case)."""
import base64
import contextlib
import hashlib
import itertools
import json
import logging
import os
import random
import re
import sys
import threading
import time
import types
import uuid as uuidmod

from common import cN, cZ, cbool, clist, copt, cstr, coq_results

TRUSTED = [
    "harness/c18.py fakes: scripted PULL/REP sockets, scripted id source (uuid.uuid1/uuid4/os.urandom wrapped wherever bound), "
    "patched _spawn_subprocess/get_context/getfqdn; fake PUSH socket + scripted clock (time.* wrapped wherever bound) under the real Reporter, "
    "report address rebuilt as '<addr>,<job id>' like router._spawn_local does; "
    "the dispatch of server.serve (read a socket only while it is registered in the zmq.Poller) is re-enacted by the driver",
    "string -> number maps for job ids / task names / output names (injective per history); base64 + JSON + pickle transport is in the "
    "loop on the implementation side and not modelled",
]
ASSUMPTIONS = [
    "a history is a sequence of dispatches of the serve loop: frontend requests and controller reports read from a job's PULL socket "
    "while that socket is registered in the poller (zmq drops nothing and delivers nothing from an unregistered socket)",
    "never_crashes / keeps-serving theorems: every report read from the socket created for job j names job j (each controller is started "
    "with its own job id and address); a report naming an untracked job is outside the property and does raise KeyError out of the loop",
    "uuid4 is an arbitrary (adversarial) candidate stream; an exhausted script stands for a generator that never yields a fresh id",
    "round 5 streams: the job id is a function of ONE draw of the id source (the rendering str(u) / u.hex / a prefix ... is observed on a fresh "
    "router per uuid value and handed to the model as a table); a history on which the implementation contradicts that table, or does not draw "
    "from the scripted source at all, is checked by the oracle only (counted as not-compared)",
    "reporter streams: 'newest' is decided by the harness clock at the call of the Reporter method (two sends at the same instant tie: either may "
    "be shown); a Reporter is used by one controller process for one job",
    "requests are well-formed API objects (parse_request failures on malformed JSON are not modelled)",
    "after a ShutdownRequest the model keeps processing events (serve finishes the current poll batch); histories are prefixes of that",
]

HEADER = """From Coq Require Import List NArith ZArith String.
From EKW Require Import Gateway.Router Gateway.IdSource Gateway.RouterCheck.
Import ListNotations.
Open Scope string_scope.
"""

STARTED = "0.00"
SHUTDOWN = "Shutdown"


# ----------------------------------------------------------------------------- driver of the real code
class FakeSock:
    def __init__(self, port):
        self.port = port
        self.inbox = []
        self.sent = []

    def bind_to_random_port(self, addr, *a, **k):
        return self.port

    def bind(self, *a, **k):
        pass

    def recv(self, *a, **k):
        return self.inbox.pop(0)

    def send(self, b, *a, **k):
        self.sent.append(b)

    def close(self, *a, **k):
        pass

    def set(self, *a, **k):
        pass

    setsockopt = set


class FakeUUID:
    def __init__(self, s):
        self.s = s
        self.hex = s

    def __str__(self):
        return self.s

    __repr__ = __str__


# the process's id sources, captured before anything is patched
_REAL_UUID_FNS = {n: getattr(uuidmod, n) for n in ("uuid1", "uuid4", "uuid6", "uuid7", "uuid8") if hasattr(uuidmod, n)}
_REAL_URANDOM = os.urandom
_BINDINGS = {"n": -1, "list": [], "depth": 0}


def _bindings():
    """(namespace dict, attribute, kind) of every name bound to a real id-source function: the uuid / os / random / secrets modules
    themselves and every loaded module of the implementation (`from uuid import uuid4`, `uuid4 = uuid.uuid4` ...)"""
    if _BINDINGS["n"] == len(sys.modules) or _BINDINGS["depth"] > 0:   # never look for the real functions while they are replaced
        return _BINDINGS["list"]
    out = []
    for name, mod in list(sys.modules.items()):
        if mod is None or not (name in ("uuid", "os", "posix", "random", "secrets") or name.split(".")[0] in ("cascade", "earthkit")):
            continue
        d = getattr(mod, "__dict__", None)
        if not isinstance(d, dict):
            continue
        for attr, val in list(d.items()):
            if val is _REAL_URANDOM:
                out.append((d, attr, "urandom"))
                continue
            for kind, real in _REAL_UUID_FNS.items():
                if val is real:
                    out.append((d, attr, kind))
    _BINDINGS["n"], _BINDINGS["list"] = len(sys.modules), out
    return out


_CLOCK_NAMES = ("monotonic_ns", "monotonic", "time_ns", "time", "perf_counter_ns", "perf_counter")
_REAL_CLOCKS = {n: getattr(time, n) for n in _CLOCK_NAMES}
_CBIND = {"n": -1, "list": []}
_CTX_REAL = {}


def _clock_bindings():
    """(namespace dict, attribute, clock name) of every name bound to a clock function of `time`: the time module itself and every loaded
    module of the implementation; also (dict, attr, 'get_context') for cascade.executor.comms.get_context"""
    if _CBIND["n"] == len(sys.modules) or _BINDINGS["depth"] > 0:
        return _CBIND["list"]
    out = []
    try:
        import cascade.executor.comms as comms
        _CTX_REAL.setdefault("fn", comms.get_context)
    except Exception:
        pass
    for name, mod in list(sys.modules.items()):
        if mod is None or not (name == "time" or name.split(".")[0] in ("cascade", "earthkit")):
            continue
        d = getattr(mod, "__dict__", None)
        if not isinstance(d, dict):
            continue
        for attr, val in list(d.items()):
            for kind, real in _REAL_CLOCKS.items():
                if val is real:
                    out.append((d, attr, kind))
            if _CTX_REAL.get("fn") is not None and val is _CTX_REAL["fn"] and name != "cascade.gateway.router":
                out.append((d, attr, "get_context"))
    _CBIND["n"], _CBIND["list"] = len(sys.modules), out
    return out


# epochs of the controller processes' clocks (ns): unrelated to each other and to the order in which the jobs were made
MONO_EPOCHS = [5 * 10**13, 10**12, 9 * 10**13, 3 * 10**9, 2 * 10**13, 7 * 10**10]
WALL0 = 1_790_000_000 * 10**9
PERF_SHIFT = 123_456_789


class PushSock:
    """the controller's end of the report channel: what is sent is in flight until an `rdeliver` event hands it to the gateway"""

    def __init__(self, gw):
        self.gw = gw
        self.port = None

    def connect(self, addr, *a, **k):
        try:
            self.port = int(str(addr).rsplit(":", 1)[1])
        except Exception:
            self.port = None

    def send(self, b, *a, **k):
        self.gw.wire.setdefault(self.port, []).append(bytes(b))

    def close(self, *a, **k):
        pass

    def set(self, *a, **k):
        pass

    setsockopt = set


def is_uuid_hex(c):
    return isinstance(c, str) and len(c) == 32 and all(x in "0123456789abcdef" for x in c)


class Gateway:
    """one gateway instance: real JobRouter + real handlers, fake sockets"""

    def __init__(self):
        import zmq
        import cascade.gateway.router as router
        import cascade.gateway.server as server
        import cascade.gateway.client as client
        import cascade.gateway.api as api
        import cascade.controller.report as report
        from cascade.low.core import DatasetId
        self.zmq, self.routermod, self.server, self.client, self.api, self.report, self.DatasetId = zmq, router, server, client, api, report, DatasetId
        self.poller = zmq.Poller()
        self.fe = FakeSock(1)
        self.poller.register(self.fe, zmq.POLLIN)
        self.router = router.JobRouter(self.poller)
        self.next_port = 20000
        self.sock_by_addr = {}
        self.sock_of_job = {}
        self.uuid_script = None
        self.consumed = 0
        self.uuid_objs = {}
        self.id_of_tag = {}
        self.spawn_ok = True
        self.last_alloc = None
        self.fe_exc = None
        self.fe_stop = None
        # controller side (round 6)
        self.addr_of_job = {}     # job id -> report address the router handed to the spawn
        self.wire = {}            # port -> [raw message]: everything the job's Reporter has put on the wire
        self.sent_meta = {}       # job id -> [(clock instant, seq, kind, payload)] per wire message of that job
        self.reporters = {}       # job id -> (Reporter, epoch index)
        self.clock_t = 0
        self.clock_on = None      # epoch index while a Reporter method runs
        self.clock_reads = []     # what the clock functions returned during the current Reporter call (ns; None = a float)
        self.thread = threading.get_ident()
        self.seq = 0

    # ---- seams
    def _any_socket(self, kind=None, *a, **k):
        if kind == self.zmq.PUSH:
            return PushSock(self)
        return self._ctx_socket(kind)

    def _clock_fn(self, name):
        real = _REAL_CLOCKS[name]

        def clock(*a, **k):
            if self.clock_on is None or threading.get_ident() != self.thread:
                return real(*a, **k)
            mono = MONO_EPOCHS[self.clock_on % len(MONO_EPOCHS)] + self.clock_t
            ns = {"monotonic": mono, "time": WALL0 + self.clock_t, "perf_counter": mono + PERF_SHIFT}[name.replace("_ns", "")]
            self.clock_reads.append(ns if name.endswith("_ns") else None)     # None: a float reading
            return ns if name.endswith("_ns") else ns / 1e9
        clock.__name__ = name
        return clock
    def _ctx_socket(self, kind):
        self.next_port += 1
        s = FakeSock(self.next_port)
        self.sock_by_addr[self.next_port] = s
        return s

    def _spawn(self, job_spec, addr, job_id):
        port = int(str(addr).rsplit(":", 1)[1])
        self.sock_of_job.setdefault(job_id, self.sock_by_addr.get(port))
        self.addr_of_job.setdefault(job_id, f"{addr},{job_id}")
        self.last_alloc = job_id
        if not self.spawn_ok:
            raise OSError("spawn failed (scripted)")

    def _draw(self):
        if not self.uuid_script:
            raise RuntimeError("uuid script exhausted")
        self.consumed += 1
        return self.uuid_script.pop(0)

    def _uuid_fn(self, kind):
        real = _REAL_UUID_FNS[kind]

        def scripted(*a, **k):
            if self.uuid_script is None:
                return real(*a, **k)
            c = self._draw()
            if not is_uuid_hex(c):
                return FakeUUID(c)           # legacy streams: an id-like string
            if c not in self.uuid_objs:      # a real UUID value; a repeated draw is the same object again
                self.uuid_objs[c] = uuidmod.UUID(hex=c)
            return self.uuid_objs[c]
        scripted.__name__ = kind
        return scripted

    def _urandom(self, n):
        if self.uuid_script is None:
            return _REAL_URANDOM(n)
        c = self._draw()
        b = bytes.fromhex(c) if is_uuid_hex(c) else hashlib.sha256(c.encode()).digest()
        return (b * (n // len(b) + 1))[:n]

    @contextlib.contextmanager
    def patched(self):
        router, client = self.routermod, self.client
        saved = (router.get_context, router.getfqdn, router._spawn_subprocess, client.threading)
        gw = self

        class ReqSock:
            def set(self, *a, **k):
                pass

            def connect(self, url):
                pass

            def send(self, b):
                gw.fe.inbox.append(b)
                try:
                    gw.fe_stop = gw.server.handle_fe(gw.fe, gw.router)
                except BaseException as e:
                    gw.fe_exc = type(e).__name__
                    raise
                self.reply = gw.fe.sent.pop(0)

            def poll(self, *a, **k):
                return 1

            def recv(self):
                return self.reply

        class L:
            context = types.SimpleNamespace(socket=lambda kind: ReqSock())

        router.get_context = lambda: types.SimpleNamespace(socket=self._any_socket)
        router.getfqdn = lambda *a: "gateway.test"
        router._spawn_subprocess = self._spawn
        fns = {kind: self._uuid_fn(kind) for kind in _REAL_UUID_FNS}
        fns["urandom"] = self._urandom
        for name in _CLOCK_NAMES:
            fns[name] = self._clock_fn(name)
        fns["get_context"] = lambda: types.SimpleNamespace(socket=self._any_socket)
        real_ctx_socket = self.zmq.Context.socket
        self.zmq.Context.socket = lambda ctx, kind=None, *a, **k: self._any_socket(kind)
        todo = list(_bindings()) + list(_clock_bindings())
        bound = [(d, attr, d[attr]) for d, attr, kind in todo]
        _BINDINGS["depth"] += 1
        for d, attr, kind in todo:
            d[attr] = fns[kind]
        client.threading = types.SimpleNamespace(local=lambda: L)
        prev_disable = logging.root.manager.disable
        logging.disable(logging.CRITICAL)
        try:
            yield self
        finally:
            logging.disable(prev_disable)
            self.zmq.Context.socket = real_ctx_socket
            router.get_context, router.getfqdn, router._spawn_subprocess, client.threading = saved
            for d, attr, val in reversed(bound):
                d[attr] = val
            _BINDINGS["depth"] -= 1

    # ---- "@<tag>" names the job the submit tagged <tag> created; "@<tag>:<how>" a string derived from that id
    def resolve(self, s):
        m = re.fullmatch(r"@(\d+)(?::([a-z0-9-]+))?", s) if isinstance(s, str) else None
        if not m:
            return s
        jid = self.id_of_tag.get(int(m.group(1)))
        if jid is None:
            return s                                   # no such job (yet): an untracked name
        how = m.group(2)
        if how is None:
            return jid
        return {"x": jid + "x", "-1": jid[:-1], "p12": jid[:12], "p8": jid[:8], "sfx": jid[-12:], "up": jid.upper(), "sp": jid + " ",
                "nodash": jid.replace("-", ""), "sw": jid.swapcase()}.get(how, s)

    def resolved(self, ev):
        op = ev["op"]
        if op == "progress":
            return {**ev, "ids": [self.resolve(x) for x in ev["ids"]]}
        if op == "result":
            return {**ev, "job": self.resolve(ev["job"])}
        if op == "deliver":
            return {**ev, "sock": self.resolve(ev["sock"]), "report": {**ev["report"], "job": self.resolve(ev["report"]["job"])}}
        if op == "rsend":
            return {**ev, "job": self.resolve(ev["job"])}
        if op == "rdeliver":
            # the pick-th message the job's Reporter has put on the wire so far -> an ordinary delivery of what that message says
            jid = self.resolve(ev["job"])
            sock = self.sock_of_job.get(jid)
            msgs = self.wire.get(getattr(sock, "port", None), [])
            meta = self.sent_meta.get(jid, [])
            k = ev["pick"]
            if sock is None or k >= len(msgs) or k >= len(meta):
                return {"op": "noop", "why": "nothing on the wire"}
            try:
                rep = self.report.deserialize(msgs[k])
                rp = {"job": rep.job_id, "status": rep.current_status, "ts": rep.timestamp,
                      "results": [[[d.task, d.output], bytes(b).hex()] for d, b in rep.results]}
                if not (isinstance(rp["job"], str) and isinstance(rp["ts"], int) and (rp["status"] is None or isinstance(rp["status"], str))):
                    raise TypeError("report fields")
            except Exception as e:
                return {"op": "deliver", "sock": jid, "report": None, "_raw": msgs[k], "sent": meta[k], "undecodable": type(e).__name__}
            return {"op": "deliver", "sock": jid, "report": rp, "_raw": msgs[k], "sent": meta[k]}
        return ev

    # ---- one event -> canonical observation (list, JSON-able) ; raises Crash
    def fe_request(self, req):
        self.fe_exc, self.fe_stop = None, None
        try:
            resp = self.client.request_response(req, "fake://gateway")
        except Exception as e:
            raise Crash(self.fe_exc or type(e).__name__, repr(e)[:300])
        return resp

    def do(self, ev):
        api = self.api
        op = ev["op"]
        if op == "submit":
            self.uuid_script = list(ev["draws"] if "draws" in ev else ev["cands"])
            self.consumed = 0
            self.spawn_ok = bool(ev["spawn_ok"])
            self.last_alloc = None
            try:
                spec = api.JobSpec(benchmark_name="bench", envvars={}, job_instance=None, workers_per_host=1, hosts=1, use_slurm=False)
                r = self.fe_request(api.SubmitJobRequest(job=spec))
            finally:
                self.uuid_script = None
            if r.job_id is not None:  # where the controller of this job reports to, as far as the harness can know
                self.sock_of_job.setdefault(r.job_id, None)
            if "tag" in ev:
                self.id_of_tag[ev["tag"]] = r.job_id if r.job_id is not None else self.last_alloc
            return ["submit", r.job_id, errkind(r.error), self.last_alloc, self.consumed]
        if op == "progress":
            r = self.fe_request(api.JobProgressRequest(job_ids=list(ev["ids"])))
            return ["progress", sorted(r.progresses.items()), errkind(r.error)]
        if op == "result":
            r = self.fe_request(api.ResultRetrievalRequest(job_id=ev["job"], dataset_id=self.DatasetId(ev["ds"][0], ev["ds"][1])))
            res = None if r.result is None else base64.b64decode(r.result).hex()
            return ["result", res, errkind(r.error)]
        if op == "stop":
            r = self.fe_request(api.ShutdownRequest())
            return ["stop", errkind(r.error), bool(self.fe_stop)]
        if op == "noop":
            return ["noop"]
        if op == "rsend":
            return self.reporter_send(ev)
        if op == "deliver":
            sock = self.sock_of_job.get(ev["sock"])
            if sock is None or sock not in self.poller:
                return ["dropped"]
            if "_raw" in ev:
                sock.inbox.append(ev["_raw"])
            else:
                rp = ev["report"]
                rep = self.report.ControllerReport(rp["job"], rp["status"], rp["ts"],
                                                   [(self.DatasetId(d[0], d[1]), bytes.fromhex(b)) for d, b in rp["results"]])
                sock.inbox.append(self.report.serialize(rep))
            try:
                self.server.handle_controller(sock, self.router)
            except Exception as e:
                raise Crash(type(e).__name__, repr(e)[:300])
            return ["handled"]
        raise ValueError(op)

    def reporter_send(self, ev):
        """one call of a method of the job's REAL Reporter, dt ns after the previous call of any Reporter"""
        jid = ev["job"]
        addr = self.addr_of_job.get(jid)
        sock = self.sock_of_job.get(jid)
        if addr is None or sock is None:
            return ["sent", 0, "no-such-job"]
        self.clock_t += int(ev.get("dt", 0))
        if jid not in self.reporters:
            self.clock_on = len(self.reporters)
            try:
                self.reporters[jid] = (self.report.Reporter(addr), len(self.reporters))
            except Exception as e:
                return ["sent", 0, "Reporter():" + type(e).__name__]
            finally:
                self.clock_on = None
        rep, epoch = self.reporters[jid]
        before = len(self.wire.get(sock.port, []))
        what = ev["what"]
        exc = None
        self.clock_on = epoch
        self.clock_reads = []
        try:
            if what == "progress":
                rep.send_progress(types.SimpleNamespace(remaining=ev["rem"], total=ev["total"]))
            elif what == "result":
                rep.send_result(self.DatasetId(ev["ds"][0], ev["ds"][1]), bytes.fromhex(ev["bytes"]))
            elif what == "shutdown":
                rep.shutdown()
            else:
                raise ValueError(what)
        except Exception as e:
            exc = type(e).__name__
        finally:
            self.clock_on = None
        n = len(self.wire.get(sock.port, [])) - before
        for _ in range(n):
            self.seq += 1
            self.sent_meta.setdefault(jid, []).append([self.clock_t, self.seq, what, [list(ev["ds"]), ev["bytes"]] if what == "result" else None])
        # for the correspondence with the Reporter model: the clock reading taken in the call and what the messages say
        now = self.clock_reads[-1] if self.clock_reads else "none"
        seen = []
        for raw in self.wire.get(sock.port, [])[before:]:
            try:
                r = self.report.deserialize(raw)
                seen.append([r.job_id, r.current_status, r.timestamp, [[[d.task, d.output], bytes(b).hex()] for d, b in r.results]])
            except Exception as e:
                seen.append(type(e).__name__)
        return ["sent", n, exc, now, seen]


class Crash(Exception):
    def __init__(self, kind, what):
        super().__init__(kind, what)
        self.kind, self.what = kind, what


def errkind(err):
    if err is None:
        return None
    m = re.match(r"[A-Za-z_][A-Za-z_0-9.]*", err)
    return m.group(0) if m else "?"


def run_history(events):
    """-> (observations, crash, events with the job references resolved) ; crash = None | [kind, what, index]"""
    gw = Gateway()
    obs, crash, revents = [], None, []
    with gw.patched():
        for i, ev in enumerate(events):
            rev = gw.resolved(ev)
            revents.append(rev)
            try:
                obs.append(gw.do(rev))
            except Crash as c:
                crash = [c.kind, c.what, i]
                break
    return obs, crash, revents + events[len(revents):]


_RENDER = {}


def render_of(h):
    """the job id the implementation makes of the draw h (uuid value / id-like string): observed on a fresh router whose id source yields h once.
    None when the id is not a function of one draw (no draw / several draws / no id)"""
    if h not in _RENDER:
        out = None
        try:
            gw = Gateway()
            with gw.patched():
                ob = gw.do({"op": "submit", "draws": [h], "spawn_ok": True})
            if ob[1] is not None and ob[4] == 1:
                out = ob[1]
        except Crash:
            pass
        _RENDER[h] = out
    return _RENDER[h]


# ----------------------------------------------------------------------------- oracle: the property, read directly
def is_wf(events):
    """the histories the property quantifies over: reports of job j arrive on j's own socket, timestamps as monotonic_ns gives them"""
    for ev in events:
        if ev["op"] == "deliver" and (ev["report"] is None or ev["sock"] != ev["report"]["job"] or ev["report"]["ts"] < 0):
            return False
    return True


def oracle(events, obs, crash, wf=None):
    """list of (signature, what).  Never demands more than the property states."""
    wf = is_wf(events) if wf is None else wf
    out = []
    good = set()      # ids handed to a client by a successful SubmitJobResponse
    shaky = set()     # ids allocated by a submit that then failed (tracked by the gateway, never handed out): no expectation
    prog, ups = {}, {}
    for i, (ev, ob) in enumerate(zip(events, obs)):
        op = ev["op"]
        if op == "submit":
            jid, err, alloc = ob[1:4]
            for x in {jid, alloc} - {None}:
                if x in good or x in shaky:
                    out.append(("job-id-reused", f"event {i}: submit was given id {x!r} which an earlier job already has"))
            if jid is not None and err is None:
                good.add(jid)
                if alloc is not None and alloc != jid:
                    shaky.add(alloc)
            elif alloc is not None:
                shaky.add(alloc)
            if jid is None and err is None:
                out.append(("submit-no-id-no-error", f"event {i}: SubmitJobResponse with neither id nor error"))
        elif op == "deliver" and ob[0] == "handled":
            rp = ev["report"]
            j = rp["job"]
            if rp["status"] is not None and rp["status"] != SHUTDOWN:
                prog.setdefault(j, []).append((rp["ts"], rp["status"]))
            for d, b in rp["results"]:
                ups.setdefault((j, tuple(d)), []).append(b)
        elif op == "progress" and wf:
            _, items, err = ob
            ids = list(ev["ids"])
            if any(x in shaky for x in ids) or (not ids and shaky):
                continue
            if all(x in good for x in ids):
                want = set(ids) if ids else set(good)
                if err is not None:
                    out.append(("known-job-query-error", f"event {i}: progress of tracked jobs {ids} answered with error {err}"))
                    continue
                got = dict(items)
                if set(got) != want:
                    out.append(("progress-wrong-jobs", f"event {i}: asked {sorted(want)}, got {sorted(got)}"))
                    continue
                for j, v in got.items():
                    reps = prog.get(j, [])
                    if not reps:
                        ok, exp = v == STARTED, {STARTED}
                    else:
                        m = max(t for t, _ in reps)
                        exp = {s for t, s in reps if t == m}
                        ok = v in exp
                    if not ok:
                        out.append(("progress-not-newest", f"event {i}: job {j!r} shows {v!r}; received progress reports (ts, status) {reps}; newest is {sorted(exp)}"))
            else:
                if err is None:
                    out.append(("unknown-job-no-error", f"event {i}: progress request naming untracked job in {ids} got no error: {items}"))
        elif op == "result" and wf:
            _, res, err = ob
            j, d = ev["job"], tuple(ev["ds"])
            if j in shaky:
                continue
            uploaded = ups.get((j, d), []) if j in good else []
            if uploaded:
                if err is not None or res is None:
                    out.append(("result-lost", f"event {i}: result ({j!r},{d}) was uploaded {uploaded} but the answer is error {err}"))
                elif res not in uploaded:
                    out.append(("result-not-as-uploaded", f"event {i}: result ({j!r},{d}) returned {res!r}, uploaded were {uploaded}"))
            else:
                if err is None or res is not None:
                    out.append(("result-for-wrong-key", f"event {i}: nothing was uploaded for ({j!r},{d}) yet the answer is {res!r} (error {err})"))
        elif op == "stop":
            if ob[1] is not None or ob[2] is not True:
                out.append(("shutdown-request", f"event {i}: ShutdownRequest answered {ob}"))
    if crash is not None and wf:
        out.append(("gateway-crash", f"event {crash[2]} {events[crash[2]]}: {crash[0]} left the serve loop ({crash[1]}); the gateway stops serving every job"))
    return out


def oracle_reporter(events, obs, crash):
    """the same clauses for jobs whose reports come from the REAL Reporter: `newest` = sent last by the harness clock (a tie = sent at the same
    instant: either), `uploaded` = the bytes handed to send_result.  Jobs that also get hand-built reports, or whose Reporter does not put
    exactly one message on the wire per call, are left to the other oracle."""
    out = []
    rjobs = {e["job"] for e in events if e["op"] == "rsend"} | {e["sock"] for e in events if e["op"] == "deliver" and "sent" in e}
    if not rjobs:
        return out
    skip = set()
    for e, o in itertools.zip_longest(events, obs):
        if e["op"] == "deliver" and "sent" not in e:
            skip.add(e["sock"])
            if e["report"] is not None:
                skip.add(e["report"]["job"])
        if e["op"] == "rsend" and o is not None and (o[1] != 1 or o[2] is not None):
            skip.add(e["job"])
    good, prog, ups = set(), {}, {}
    for i, (ev, ob) in enumerate(zip(events, obs)):
        op = ev["op"]
        if op == "submit":
            if ob[1] is not None and ob[2] is None:
                good.add(ob[1])
        elif op == "deliver" and "sent" in ev and ob[0] == "handled":
            j = ev["sock"]
            t, seq, what, payload = ev["sent"]
            if what == "progress":
                prog.setdefault(j, []).append((t, seq, ev["report"]["status"]))
            elif what == "result":
                ups.setdefault((j, tuple(payload[0])), []).append(payload[1])
        elif op == "progress" and ob[2] is None:
            for j, v in ob[1]:
                if j not in rjobs or j in skip or j not in good:
                    continue
                reps = prog.get(j, [])
                if not reps:
                    exp = {STARTED}
                else:
                    m = max(t for t, _, _ in reps)
                    exp = {s for t, _, s in reps if t == m}
                if v not in exp:
                    out.append(("progress-not-newest-sent", f"event {i}: job {j!r} shows {v!r}; progress reports of its Reporter received so far "
                                f"(clock ns at send_progress, send no., status) {reps}; the newest says {sorted(exp)}"))
        elif op == "result":
            j, d = ev["job"], tuple(ev["ds"])
            if j not in rjobs or j in skip or j not in good:
                continue
            _, res, err = ob
            uploaded = ups.get((j, d), [])
            if uploaded:
                if err is not None or res is None:
                    out.append(("reporter-result-lost", f"event {i}: send_result({j!r},{d}) of {uploaded} was received but the answer is error {err}"))
                elif res not in uploaded:
                    out.append(("reporter-result-not-as-uploaded", f"event {i}: result ({j!r},{d}) returned {res!r}, send_result was given {uploaded}"))
            elif err is None or res is not None:
                out.append(("reporter-result-for-wrong-key", f"event {i}: no received send_result for ({j!r},{d}) yet the answer is {res!r} (error {err})"))
    if crash is not None and crash[2] < len(events) and "sent" in events[crash[2]]:
        e = events[crash[2]]
        out.append(("gateway-crash-on-reporter-message", f"event {crash[2]}: a message of the real Reporter of job {e['sock']!r} (sent as {e['sent'][2]}) made "
                    f"handle_controller raise {crash[0]} ({crash[1]}); the gateway stops serving every job"))
    return out


# ----------------------------------------------------------------------------- Coq terms
class Names:
    def __init__(self):
        self.t = {}

    def n(self, s):
        if s not in self.t:
            self.t[s] = len(self.t)
        return cN(self.t[s])


def c_ds(nm, d):
    return f"({nm.n('t:' + d[0])}, {nm.n('o:' + d[1])})"


def c_bytes(hexs):
    return clist([cN(x) for x in bytes.fromhex(hexs)])


def c_event(nm, ev):
    op = ev["op"]
    if op == "submit":
        # what the id source yields (uuid values, or the id-like strings of the older streams); the table of c_case renders them
        return f"Fe (SubmitJobRequest {clist([nm.n('u:' + c) for c in ev.get('draws', ev.get('cands'))])} {cbool(ev['spawn_ok'])})"
    if op == "progress":
        return f"Fe (JobProgressRequest {clist([nm.n('j:' + c) for c in ev['ids']])})"
    if op == "result":
        return f"Fe (ResultRetrievalRequest {nm.n('j:' + ev['job'])} {c_ds(nm, ev['ds'])})"
    if op == "stop":
        return "Fe ShutdownRequest"
    if op != "deliver" or ev.get("report") is None:
        raise ValueError("no model event for " + op)
    rp = ev["report"]
    rs = clist([f"({c_ds(nm, d)}, {c_bytes(b)})" for d, b in rp["results"]])
    return f"Ctl {nm.n('j:' + ev['sock'])} (mkReport {nm.n('j:' + rp['job'])} {copt(rp['status'], cstr)} {cZ(rp['ts'])} {rs})"


def c_output(nm, ob):
    k = ob[0]
    if k == "submit":
        return f"Resp (SubmitJobResponse {copt(ob[1], lambda s: nm.n('j:' + s))} {copt(ob[2], cstr)})"
    if k == "progress":
        ps = clist([f"({nm.n('j:' + a)}, {cstr(b)})" for a, b in ob[1]])
        return f"Resp (JobProgressResponse {ps} {copt(ob[2], cstr)})"
    if k == "result":
        return f"Resp (ResultRetrievalResponse {copt(ob[1], c_bytes)} {copt(ob[2], cstr)})"
    if k == "stop":
        return "Resp ShutdownResponse" if (ob[1] is None and ob[2]) else "Dropped"  # anything else can never match the model
    return "Handled" if k == "handled" else "Dropped"


def render_table(events, obs):
    """[(uuid value, job id)] for every draw of the history; ValueError when the implementation's ids are not the observed
    one-draw rendering (then the model has nothing to say about this history: oracle only)"""
    tbl = {}
    for ev, ob in itertools.zip_longest(events, obs):
        if ev["op"] != "submit":
            continue
        draws = ev.get("draws", ev.get("cands"))
        for h in draws:
            if h not in tbl:
                tbl[h] = render_of(h)
                if tbl[h] is None:
                    raise ValueError("job id is not a rendering of one draw")
        if ob is not None and (ob[1] is not None or ob[3] is not None):
            got = ob[1] if ob[1] is not None else ob[3]
            k = ob[4]
            if k == 0:
                raise ValueError("id source not scripted (no draw taken)")
            if k > len(draws) or tbl[draws[k - 1]] != got:
                raise ValueError("job id depends on more than the last draw")
    return sorted(tbl.items())


def c_case(events, obs, crash):
    """events: with resolved job references"""
    nm = Names()
    tbl = clist([f"({nm.n('u:' + h)}, {nm.n('j:' + j)})" for h, j in render_table(events, obs)])
    evs = clist([c_event(nm, e) for e in events])
    outs = clist([c_output(nm, o) for o in obs])
    return (f"(({tbl},\n    {evs},\n    {outs},\n    {copt(crash[0] if crash else None, cstr)})"
            " : list (N * jobid) * list event * list output * option string)")


def c_sends(events, obs):
    """one term per history with calls of a Reporter: [(job, clock reading, call, reports on the wire)]; None when there is nothing to compare;
    ValueError when the Reporter took a float reading of the clock or none the model could be given"""
    nm = Names()
    items = []
    for ev, ob in zip(events, obs):
        if ev["op"] != "rsend" or ob[2] is not None or len(ob) < 5:
            continue
        now, seen = ob[3], ob[4]
        if now is None:
            raise ValueError("Reporter reads a float clock")
        if any(not isinstance(x, list) for x in seen):
            raise ValueError("unreadable Reporter message")
        if now == "none":                    # no clock read in the call: the model's call is stamped with the monotonic reading
            now = -1
        if ev["what"] == "progress":
            sts = [x[1] for x in seen if isinstance(x[1], str)]
            call = f"SendProgress {cstr(sts[0] if sts else '?')}"
        elif ev["what"] == "result":
            call = f"SendResult {c_ds(nm, ev['ds'])} {c_bytes(ev['bytes'])}"
        else:
            call = "SendShutdown"
        wire = clist([f"(mkReport {nm.n('j:' + str(x[0]))} {copt(x[1], cstr)} {cZ(x[2])} " +
                      clist([f"({c_ds(nm, d)}, {c_bytes(b)})" for d, b in x[3]]) + ")" for x in seen])
        items.append(f"({nm.n('j:' + ev['job'])}, {cZ(now)}, {call}, {wire})")
    return clist(items) if items else None


# ----------------------------------------------------------------------------- generators
DS_POOL = [["a", "b.c"], ["a.b", "c"], ["t", "0"], ["t", "1"], ["", "x"], ["t.0", ""]]
TS_POOL = [0, 1, 2, 3, 4, 5, 7, 9, 10**9, 2**63 - 1, 2**63, 2**64 + 3]


def rbytes(rng):
    return bytes(rng.randrange(256) for _ in range(rng.choice([0, 1, 1, 2, 3, 5]))).hex()


def job_script(rng, jid):
    """what a controller of job jid would send, in causal order, then perturbed"""
    nprog = rng.choice([0, 1, 2, 3, 3, 4, 5])
    tss = sorted(rng.choice(TS_POOL) for _ in range(nprog)) if rng.random() < 0.4 else sorted(rng.sample(TS_POOL, nprog))
    reps = []
    for k, ts in enumerate(tss):
        status = rng.choice(["%.2f" % (100.0 * (k + 1) / nprog), "%.2f" % (rng.randrange(10000) / 100), "100.00", STARTED, "", "shutdown", "Shutdown "])
        reps.append({"job": jid, "status": status, "ts": ts, "results": []})
        if rng.random() < 0.15:
            reps[-1]["results"] = [[rng.choice(DS_POOL), rbytes(rng)]]
    base_ts = tss[-1] if tss else 0
    for _ in range(rng.choice([0, 1, 1, 2, 3])):
        rs = [[rng.choice(DS_POOL[:4] if rng.random() < 0.8 else DS_POOL), rbytes(rng)] for _ in range(rng.choice([1, 1, 1, 2, 3]))]
        reps.insert(rng.randrange(len(reps) + 1), {"job": jid, "status": None, "ts": rng.choice(TS_POOL + [base_ts]), "results": rs})
    if rng.random() < 0.7:
        reps.append({"job": jid, "status": SHUTDOWN, "ts": rng.choice([base_ts + 1, 0, base_ts]), "results": [] if rng.random() < 0.85 else [[rng.choice(DS_POOL), rbytes(rng)]]})
    mode = rng.choice(["inorder", "swap", "shuffle", "shuffle", "reverse"])
    if mode == "swap" and len(reps) > 1:
        for _ in range(rng.randrange(1, 3)):
            i = rng.randrange(len(reps) - 1)
            reps[i], reps[i + 1] = reps[i + 1], reps[i]
    elif mode == "shuffle":
        rng.shuffle(reps)
    elif mode == "reverse":
        reps.reverse()
    if reps and rng.random() < 0.5:
        for _ in range(rng.randrange(1, 4)):
            reps.insert(rng.randrange(len(reps) + 1), json.loads(json.dumps(rng.choice(reps))))
    return reps


def gen_history(rng, malformed=False):
    njobs = rng.choice([1, 1, 2, 2, 2, 3, 3, 4])
    prefix = rng.choice(["j", "job-", "0f3c9a2e-", ""])
    ids = [f"{prefix}{k}" for k in range(njobs)]
    lanes = []
    for k, jid in enumerate(ids):
        lane = [{"op": "deliver", "sock": jid, "report": r} for r in job_script(rng, jid)]
        sub = {"op": "submit", "cands": [jid], "spawn_ok": True, "_new": jid}
        pos = 0 if rng.random() < 0.9 else rng.randrange(len(lane) + 1)   # sometimes reports "arrive" before the job exists: no socket, dropped
        lane.insert(pos, sub)
        lanes.append(lane)
    # random interleaving of the lanes
    events = []
    idx = [0] * njobs
    live = [k for k in range(njobs) if lanes[k]]
    while live:
        k = rng.choice(live) if rng.random() < 0.8 else live[0]
        events.append(lanes[k][idx[k]])
        idx[k] += 1
        if idx[k] == len(lanes[k]):
            live.remove(k)
    # adversarial uuid candidates: collisions with ids already tracked, exhausted scripts, failing spawns
    tracked = []
    extra = []
    for ev in events:
        if ev["op"] == "submit":
            new = ev.pop("_new")
            if tracked and rng.random() < 0.4:
                ev["cands"] = [rng.choice(tracked) for _ in range(rng.randrange(1, 4))] + [new]
            if rng.random() < 0.06:
                ev["spawn_ok"] = False
            tracked.append(new)
    if tracked and rng.random() < 0.25:
        pos = rng.randrange(1, len(events) + 1)
        before = [e["cands"][-1] for e in events[:pos] if e["op"] == "submit"]
        if before:
            events.insert(pos, {"op": "submit", "cands": [rng.choice(before) for _ in range(rng.randrange(0, 3))], "spawn_ok": True})
    # frontend queries
    unknown = ["nope", "", ids[0] + "x", "J0", ids[-1][:-1]]

    def query(pos_ids):
        r = rng.random()
        if r < 0.22:
            return {"op": "progress", "ids": []}
        if r < 0.5:
            pool = pos_ids or ids
            return {"op": "progress", "ids": [rng.choice(pool) for _ in range(rng.randrange(1, 4))]}
        if r < 0.62:
            q = [rng.choice(ids) for _ in range(rng.randrange(0, 3))]
            q.insert(rng.randrange(len(q) + 1), rng.choice(unknown + ids))
            return {"op": "progress", "ids": q}
        if r < 0.9:
            return {"op": "result", "job": rng.choice(ids), "ds": rng.choice(DS_POOL[:4] if rng.random() < 0.85 else DS_POOL)}
        return {"op": "result", "job": rng.choice(unknown), "ds": rng.choice(DS_POOL)}

    for _ in range(rng.choice([1, 2, 3, 4, 6])):
        pos = rng.randrange(len(events) + 1)
        known = [e["cands"][-1] for e in events[:pos] if e["op"] == "submit" and e["cands"]]
        events.insert(pos, query(known))
    if rng.random() < 0.1:
        events.insert(rng.randrange(len(events) + 1), {"op": "stop"})
    if malformed:
        dl = [e for e in events if e["op"] == "deliver"]
        for e in rng.sample(dl, min(len(dl), rng.randrange(1, 3))):
            how = rng.choice(["sock", "job", "neg", "unknownjob"])
            if how == "sock":
                e["sock"] = rng.choice(ids)
            elif how == "job":
                e["report"]["job"] = rng.choice(ids)
            elif how == "neg":
                e["report"]["ts"] = rng.choice([-1, -1, -2, -10**12])
            else:
                e["report"]["job"] = rng.choice(unknown)
    # final probes: everything the frontend can observe
    events.append({"op": "progress", "ids": []})
    seen = []
    for e in events:
        if e["op"] == "deliver":
            for d, _ in e["report"]["results"]:
                if d not in seen:
                    seen.append(d)
    for jid in ids:
        events.append({"op": "progress", "ids": [jid]})
        for d in seen[:4]:
            events.append({"op": "result", "job": jid, "ds": d})
    return events


# ----------------------------------------------------------------------------- round 5: uuid-shaped draws, jobs named by reference
def _u4(r, fixed=None):
    """32 hex digits of a version-4 uuid; fixed = {position: digit} taken over from a relative"""
    h = ["%x" % r.randrange(16) for _ in range(32)]
    for i, c in (fixed or {}).items():
        h[i] = c
    h[12] = "4"
    if h[16] not in "89ab":
        h[16] = "89ab"[int(h[16], 16) % 4]
    return "".join(h)


def _family(r):
    """a uuid and look-alikes: equal in the first 8 / 12 / 16 / 20 digits, in the last 12 (node), in all but the first / the last digit,
    in the digits str() groups (time_low + node)"""
    b = _u4(r)
    keep = lambda idx: {i: b[i] for i in idx}
    rel = [keep(range(8)), keep(range(12)), keep(range(16)), keep(range(20)), keep(range(20, 32)), keep(range(1, 32)), keep(range(31)),
           keep(list(range(8)) + list(range(20, 32)))]
    out = [b]
    for fx in rel:
        for _ in range(8):
            h = _u4(r, fx)
            if h not in out:
                out.append(h)
                break
    return out


UPOOL = [_family(random.Random(f"C18-upool-{k}")) for k in range(12)]
UNKNOWN_HOW = ["x", "-1", "p12", "p8", "sfx", "up", "sp", "nodash", "sw"]


def gen_history_u(rng, malformed=False, many=False):
    """like gen_history, but the id source yields uuid VALUES (repeats, long collision runs, look-alikes of tracked ids, ids of finished and
    of failed jobs, exhaustion) and every later event names a job by the tag of its submit"""
    njobs = rng.randrange(8, 41) if many else rng.choice([1, 2, 2, 3, 3, 4, 5, 6])
    fams = rng.sample(UPOOL, rng.choice([1, 1, 2, 3]))
    refs = [f"@{k}" for k in range(njobs)]
    lanes = []
    for k, ref in enumerate(refs):
        reps = job_script(rng, ref) if (not many or rng.random() < 0.25) else job_script(rng, ref)[:rng.choice([0, 1, 2])]
        lane = [{"op": "deliver", "sock": ref, "report": r} for r in reps]
        sub = {"op": "submit", "tag": k, "draws": None, "spawn_ok": True}
        lane.insert(0 if rng.random() < 0.9 else rng.randrange(len(lane) + 1), sub)
        lanes.append(lane)
    events = []
    idx = [0] * njobs
    live = list(range(njobs))
    while live:
        k = rng.choice(live) if rng.random() < 0.8 else live[0]
        events.append(lanes[k][idx[k]])
        idx[k] += 1
        if idx[k] == len(lanes[k]):
            live.remove(k)
    if rng.random() < 0.3:     # submissions that only see known values: with the code as it is they end in the exhausted script
        events.insert(rng.randrange(1, len(events) + 1), {"op": "submit", "tag": njobs, "draws": "old", "spawn_ok": True})
    accepted = []              # the values the generator expects to have become ids (uuid equality): only steers the choice below
    for ev in events:
        if ev["op"] != "submit":
            continue
        rel = [h for f in fams for h in f if h not in accepted and any(a in f for a in accepted)]
        oth = [h for f in fams for h in f if h not in accepted and h not in rel]
        if rel and (rng.random() < 0.6 or not oth):
            new = rng.choice(rel)
        elif oth:
            new = rng.choice(oth)
        else:
            new = _u4(rng)
        pre = []
        if accepted and (ev["draws"] == "old" or rng.random() < 0.55):
            run = rng.choice([1, 1, 2, 3, 5, 12, 30])
            pre = [rng.choice(accepted)] * run if rng.random() < 0.4 else [rng.choice(accepted) for _ in range(run)]
        if ev["draws"] == "old" or rng.random() < 0.05:
            ev["draws"] = pre
            continue
        ev["draws"] = pre + [new] + ([new] if rng.random() < 0.1 else []) + ([rng.choice(accepted)] if accepted and rng.random() < 0.1 else [])
        if rng.random() < 0.06:
            ev["spawn_ok"] = False
        accepted.append(new)
    unknown = ["nope", ""] + [f"@{rng.randrange(njobs)}:{h}" for h in UNKNOWN_HOW] + [f"@{njobs + 7}"]

    def query(known):
        r = rng.random()
        if r < 0.22:
            return {"op": "progress", "ids": []}
        if r < 0.5:
            pool = known or refs
            return {"op": "progress", "ids": [rng.choice(pool) for _ in range(rng.randrange(1, 4))]}
        if r < 0.62:
            q = [rng.choice(refs) for _ in range(rng.randrange(0, 3))]
            q.insert(rng.randrange(len(q) + 1), rng.choice(unknown + refs))
            return {"op": "progress", "ids": q}
        if r < 0.9:
            return {"op": "result", "job": rng.choice(refs), "ds": rng.choice(DS_POOL[:4] if rng.random() < 0.85 else DS_POOL)}
        return {"op": "result", "job": rng.choice(unknown), "ds": rng.choice(DS_POOL)}

    for _ in range(rng.choice([1, 2, 3, 4, 6]) * (3 if many else 1)):
        pos = rng.randrange(len(events) + 1)
        events.insert(pos, query([f"@{e['tag']}" for e in events[:pos] if e["op"] == "submit" and e["tag"] < njobs]))
    if rng.random() < 0.1:
        events.insert(rng.randrange(len(events) + 1), {"op": "stop"})
    if malformed:
        dl = [e for e in events if e["op"] == "deliver"]
        for e in rng.sample(dl, min(len(dl), rng.randrange(1, 3))):
            how = rng.choice(["sock", "job", "neg", "unknownjob"])
            if how == "sock":
                e["sock"] = rng.choice(refs)
            elif how == "job":
                e["report"]["job"] = rng.choice(refs)
            elif how == "neg":
                e["report"]["ts"] = rng.choice([-1, -1, -2, -10**12])
            else:
                e["report"]["job"] = rng.choice(unknown)
    events.append({"op": "progress", "ids": []})
    seen = []
    for e in events:
        if e["op"] == "deliver":
            for d, _ in e["report"]["results"]:
                if d not in seen:
                    seen.append(d)
    for ref in refs:
        events.append({"op": "progress", "ids": [ref]})
        for d in seen[:2 if many else 4]:
            events.append({"op": "result", "job": ref, "ds": d})
    return events


def small_scope_u():
    """a first job with a progress report and a result, then two submissions under EVERY script of at most two draws over
    {the first job's uuid, a look-alike in the first 12 digits, one in the last 12, an unrelated uuid}, then the probes"""
    f, g = UPOOL[0], UPOOL[1]
    alpha = [f[0], f[2], f[5], g[0]]
    scripts = [[]] + [[a] for a in alpha] + [[a, b] for a in alpha for b in alpha]
    d = ["t", "0"]

    def rep(j, st, ts, rs=()):
        return {"op": "deliver", "sock": j, "report": {"job": j, "status": st, "ts": ts, "results": [list(x) for x in rs]}}
    for s1 in scripts:
        for s2 in scripts:
            yield [{"op": "submit", "tag": 0, "draws": [f[0]], "spawn_ok": True}, rep("@0", "40.00", 5, [(d, "aa")]),
                   {"op": "submit", "tag": 1, "draws": list(s1), "spawn_ok": True}, rep("@1", "41.00", 6, [(d, "bb")]),
                   {"op": "submit", "tag": 2, "draws": list(s2), "spawn_ok": True}, rep("@2", "42.00", 7),
                   {"op": "progress", "ids": []}, {"op": "progress", "ids": ["@0"]}, {"op": "result", "job": "@0", "ds": d},
                   {"op": "progress", "ids": ["@1"]}, {"op": "result", "job": "@1", "ds": d}, {"op": "result", "job": "@2", "ds": d},
                   {"op": "progress", "ids": ["@0:p12"]}, {"op": "result", "job": "@0:nodash", "ds": d}]


def corpus_u():
    def rep(j, st, ts, rs=()):
        return {"op": "deliver", "sock": j, "report": {"job": j, "status": st, "ts": ts, "results": [list(x) for x in rs]}}
    sub = lambda tag, *c, ok=True: {"op": "submit", "tag": tag, "draws": list(c), "spawn_ok": ok}
    pa = {"op": "progress", "ids": []}
    d0 = ["sink", "o"]
    A, A12, B, C = UPOOL[3][0], UPOOL[3][2], UPOOL[4][0], UPOOL[5][0]
    probes = [pa, {"op": "progress", "ids": ["@0"]}, {"op": "result", "job": "@0", "ds": d0}, {"op": "progress", "ids": ["@1", "@2"]}]
    return [
        # the id source repeats itself: A, A, B, B, A, C
        [sub(0, A), rep("@0", "40.00", 1000), rep("@0", None, 1100, [(d0, "0102")]), sub(1, A, B), sub(2, B, A, C)] + probes,
        # a finished job's id is drawn again; a failed spawn's id is drawn again
        [sub(0, A), rep("@0", "90.00", 9), rep("@0", SHUTDOWN, 10), sub(1, A, A, A, B), sub(2, C, ok=False), sub(3, C, A, B, A12)] + probes,
        # look-alikes only, a long run of collisions, then nothing new
        [sub(0, A), sub(1, A12), sub(2, *([A] * 40 + [A12] * 40 + [B])), sub(3, A, A12, B), rep("@1", "5.00", 5), rep("@2", "6.00", 6)] + probes +
        [{"op": "progress", "ids": ["@0:p12"]}, {"op": "progress", "ids": ["@0:up"]}, {"op": "result", "job": "@1:-1", "ds": d0}],
    ]


def small_scope(maxlen):
    """every history of at most maxlen controller reports over two tracked jobs from a fixed alphabet, followed by the probes"""
    A, B = "A", "B"
    d = ["t", "0"]
    alpha = []
    for j in (A, B):
        alpha += [
            {"op": "deliver", "sock": j, "report": {"job": j, "status": "10.00", "ts": 1, "results": []}},
            {"op": "deliver", "sock": j, "report": {"job": j, "status": "20.00", "ts": 2, "results": []}},
            {"op": "deliver", "sock": j, "report": {"job": j, "status": SHUTDOWN, "ts": 3, "results": []}},
            {"op": "deliver", "sock": j, "report": {"job": j, "status": None, "ts": 2, "results": [[d, "aa" if j == A else "bb"]]}},
        ]
    head = [{"op": "submit", "cands": [A], "spawn_ok": True}, {"op": "submit", "cands": [A, A, B], "spawn_ok": True}]
    tail = [{"op": "progress", "ids": []}, {"op": "result", "job": A, "ds": d}, {"op": "result", "job": B, "ds": d},
            {"op": "progress", "ids": [A, "C"]}, {"op": "progress", "ids": [B]}]
    for n in range(maxlen + 1):
        for mid in itertools.product(alpha, repeat=n):
            yield head + list(mid) + tail


# hand-written regression histories (the first is the witness of the defect repaired by the `fix:` commit)
def corpus():
    def rep(j, st, ts, rs=()):
        return {"op": "deliver", "sock": j, "report": {"job": j, "status": st, "ts": ts, "results": [list(x) for x in rs]}}
    sub = lambda *c: {"op": "submit", "cands": list(c), "spawn_ok": True}
    pa = {"op": "progress", "ids": []}
    d0, d1 = ["a", "b.c"], ["a.b", "c"]
    return [
        [sub("x"), rep("x", "50.00", 200), rep("x", "10.00", 100), pa],
        [sub("x"), rep("x", "50.00", 200), rep("x", SHUTDOWN, 300), pa, rep("x", "60.00", 400), pa],
        [sub("x"), rep("x", "50.00", 0), rep("x", "60.00", 0), pa],
        [sub("x"), sub("x", "x", "y"), sub("x", "y"), pa, rep("y", "5.00", 5), rep("x", "7.00", 5), pa, {"op": "progress", "ids": ["y", "y", "x"]}],
        [sub("x"), sub("y"), rep("x", None, 1, [(d0, "00ff")]), rep("y", None, 1, [(d1, "01")]),
         {"op": "result", "job": "x", "ds": d0}, {"op": "result", "job": "x", "ds": d1}, {"op": "result", "job": "y", "ds": d0},
         {"op": "result", "job": "y", "ds": d1}, {"op": "result", "job": "z", "ds": d0}, {"op": "progress", "ids": ["x", "z"]}, pa],
        [sub("x"), rep("x", SHUTDOWN, 1), rep("x", SHUTDOWN, 1), rep("x", None, 2, [(d0, "")]), {"op": "result", "job": "x", "ds": d0}, pa],
        [sub("x"), rep("x", None, 9, [(d0, "01"), (d0, "02")]), rep("x", "1.00", 2**64), rep("x", "2.00", 2**63), {"op": "result", "job": "x", "ds": d0}, pa, {"op": "stop"}, pa],
        [{"op": "submit", "cands": ["x"], "spawn_ok": False}, sub("x", "w"), pa, rep("x", "3.00", 3), pa],
    ]


# ----------------------------------------------------------------------------- round 6: the real Reporter is the producer of the reports
DT_POOL = [0, 1000, 1000, 10**6, 10**6, 10**6, 10**9, 3600 * 10**9]
NET_MODES = ["immediate", "immediate", "lag", "burst", "reorder", "random", "random"]


def reporter_lane(rng, ref, tag, draws):
    """submit, the calls a controller makes on its Reporter (progress after every step, results as they appear, the shutdown notice), and a
    network that delivers what is on the wire at once / lagging / in bursts / reordered / duplicated / partly never"""
    total = rng.choice([1, 2, 3, 4, 7, 8, 10, 64, 1000])
    nprog = rng.choice([2, 2, 3, 3, 4, 5, 8])
    rems = sorted((rng.randrange(total + 1) for _ in range(nprog)), reverse=True)
    if rng.random() < 0.2:
        rng.shuffle(rems)
    sends = [{"op": "rsend", "job": ref, "what": "progress", "rem": r, "total": total} for r in rems]
    for _ in range(rng.choice([0, 0, 1, 1, 2, 3])):
        sends.insert(rng.randrange(len(sends) + 1), {"op": "rsend", "job": ref, "what": "result",
                                                     "ds": rng.choice(DS_POOL[:4] if rng.random() < 0.8 else DS_POOL), "bytes": rbytes(rng)})
    if rng.random() < 0.75:
        sends.append({"op": "rsend", "job": ref, "what": "shutdown"})
        if rng.random() < 0.15:
            sends.append({"op": "rsend", "job": ref, "what": "progress", "rem": 0, "total": total})
    tie = rng.random() < 0.2
    for s_ in sends:
        s_["dt"] = rng.choice(DT_POOL if tie else DT_POOL[1:])
    mode = rng.choice(NET_MODES)
    ops = [("s", i) for i in range(len(sends))]
    order = list(range(len(sends)))
    for i in order:
        at = ops.index(("s", i))
        if mode == "immediate":
            pos = at + 1
        elif mode == "lag":
            nxt = [k for k, o in enumerate(ops) if o[0] == "s" and o[1] > i][:rng.choice([1, 2])]
            pos = (nxt[-1] + 1) if nxt else len(ops)
        elif mode == "burst":
            pos = len(ops)
        else:
            pos = rng.randrange(at + 1, len(ops) + 1)
        if mode == "random" and rng.random() < 0.15:
            continue                                   # still in flight when the history ends
        ops.insert(pos, ("d", i))
    if mode == "reorder":
        ds_ = [o for o in ops if o[0] == "d"]
        ops = [o for o in ops if o[0] == "s"]
        rng.shuffle(ds_)
        ops += ds_
    if rng.random() < 0.3:
        for _ in range(rng.randrange(1, 4)):
            i = rng.randrange(len(sends))
            ops.insert(rng.randrange(ops.index(("s", i)) + 1, len(ops) + 1), ("d", i))
    lane = [{"op": "submit", "tag": tag, "draws": list(draws), "spawn_ok": True}]
    for k, i in ops:
        lane.append(sends[i] if k == "s" else {"op": "rdeliver", "job": ref, "pick": i})
    for _ in range(rng.choice([0, 1, 2, 3])):
        lane.insert(rng.randrange(1, len(lane) + 1), {"op": "progress", "ids": [ref]})
    return lane


def gen_history_r(rng):
    njobs = rng.choice([1, 1, 2, 2, 3, 4])
    refs = [f"@{k}" for k in range(njobs)]
    fam = rng.choice(UPOOL)
    hexes = rng.sample(fam, njobs) if rng.random() < 0.5 else [_u4(rng) for _ in range(njobs)]
    lanes = []
    for k, ref in enumerate(refs):
        draws = ([rng.choice(hexes[:k])] if k and rng.random() < 0.2 else []) + [hexes[k]]
        lanes.append(reporter_lane(rng, ref, k, draws))
    if njobs > 1 and rng.random() < 0.25:     # one job of the history gets hand-built reports instead
        k = rng.randrange(njobs)
        lanes[k] = [lanes[k][0]] + [{"op": "deliver", "sock": refs[k], "report": r} for r in job_script(rng, refs[k])]
    events = []
    idx = [0] * njobs
    live = list(range(njobs))
    while live:
        k = rng.choice(live) if rng.random() < 0.8 else live[0]
        events.append(lanes[k][idx[k]])
        idx[k] += 1
        if idx[k] == len(lanes[k]):
            live.remove(k)
    seen = []
    for e in events:
        if e["op"] == "rsend" and e["what"] == "result" and e["ds"] not in seen:
            seen.append(e["ds"])
    for _ in range(rng.choice([0, 1, 2])):
        r = rng.random()
        q = ({"op": "progress", "ids": []} if r < 0.4 else
             {"op": "result", "job": rng.choice(refs), "ds": rng.choice(seen or DS_POOL)} if r < 0.8 else
             {"op": "progress", "ids": [rng.choice(refs), rng.choice(["nope", f"@{rng.randrange(njobs)}:p12"])]})
        events.insert(rng.randrange(1, len(events) + 1), q)
    events.append({"op": "progress", "ids": []})
    for ref in refs:
        events.append({"op": "progress", "ids": [ref]})
        for d in (seen + [["never", "sent"]])[:4]:
            events.append({"op": "result", "job": ref, "ds": d})
    return events


def small_scope_r(maxlen):
    """one job (and a bystander), its Reporter called send_progress x3, send_result, shutdown with every pattern of zero / non-zero clock steps
    between the progress calls, then EVERY sequence of at most maxlen deliveries of the five messages, the shown progress read after each"""
    d = ["t", "0"]
    q = {"op": "progress", "ids": ["@0"]}
    for dts in itertools.product([0, 1000], repeat=2):
        head = [{"op": "submit", "tag": 0, "draws": [UPOOL[6][0]], "spawn_ok": True}, {"op": "submit", "tag": 1, "draws": [UPOOL[6][2]], "spawn_ok": True},
                {"op": "rsend", "job": "@0", "what": "progress", "rem": 3, "total": 4, "dt": 1000},
                {"op": "rsend", "job": "@1", "what": "progress", "rem": 1, "total": 3, "dt": 1000},
                {"op": "rsend", "job": "@0", "what": "progress", "rem": 2, "total": 4, "dt": dts[0]},
                {"op": "rsend", "job": "@0", "what": "result", "ds": d, "bytes": "c0ffee", "dt": 1000},
                {"op": "rsend", "job": "@0", "what": "progress", "rem": 0, "total": 4, "dt": dts[1]},
                {"op": "rsend", "job": "@0", "what": "shutdown", "dt": 1000}]
        tail = [{"op": "progress", "ids": []}, {"op": "result", "job": "@0", "ds": d}, {"op": "result", "job": "@1", "ds": d}]
        for n in range(maxlen + 1):
            for picks in itertools.product(range(5), repeat=n):
                mid = []
                for k in picks:
                    mid += [{"op": "rdeliver", "job": "@0", "pick": k}, q]
                yield head + mid + [{"op": "rdeliver", "job": "@1", "pick": 0}] + tail


def corpus_r():
    sub = lambda tag, h: {"op": "submit", "tag": tag, "draws": [h], "spawn_ok": True}
    A, B = UPOOL[7][0], UPOOL[7][1]
    d = ["sink", "o"]

    def steps(ref, total, dt, upto=None):
        out = []
        for rem in range(total - 1, -1, -1):
            out += [{"op": "rsend", "job": ref, "what": "progress", "rem": rem, "total": total, "dt": dt}, {"op": "rdeliver", "job": ref, "pick": total - 1 - rem},
                    {"op": "progress", "ids": [ref]}]
        return out
    fin = lambda ref, n: [{"op": "rsend", "job": ref, "what": "result", "ds": d, "bytes": "0a0b", "dt": 5}, {"op": "rdeliver", "job": ref, "pick": n},
                          {"op": "rsend", "job": ref, "what": "shutdown", "dt": 5}, {"op": "rdeliver", "job": ref, "pick": n + 1},
                          {"op": "progress", "ids": [ref]}, {"op": "result", "job": ref, "ds": d}]
    two = [sub(0, A), sub(1, B)] + [x for pair in zip(steps("@0", 3, 10**6), steps("@1", 3, 10**3)) for x in pair] + fin("@0", 3) + fin("@1", 3)
    return [
        # a controller as it runs: progress after every step, delivered at once, result, shutdown
        [sub(0, A)] + steps("@0", 8, 2 * 10**6) + fin("@0", 8) + [{"op": "progress", "ids": []}],
        # two controllers, their calls alternating, clocks with unrelated epochs
        two + [{"op": "progress", "ids": []}, {"op": "result", "job": "@1", "ds": ["sink", "other"]}],
        # all reports sit on the wire and arrive newest first
        [sub(0, A)] + [{"op": "rsend", "job": "@0", "what": "progress", "rem": r, "total": 4, "dt": 1000} for r in (3, 2, 1, 0)] +
        [x for k in (3, 2, 1, 0) for x in ({"op": "rdeliver", "job": "@0", "pick": k}, {"op": "progress", "ids": ["@0"]})],
    ]


# ----------------------------------------------------------------------------- run / search / replay / shrink
def evaluate(events):
    """-> observations, crash, oracle verdicts, events with resolved job references (what the oracle and the model are given)"""
    obs, crash, revents = run_history(events)
    return obs, crash, oracle(revents, obs, crash) + oracle_reporter(revents, obs, crash), revents


def model_view(revents, obs):
    """the history as the gateway (and the model) sees it: calls of the Reporter are not events of the gateway"""
    hidden = ("rsend", "noop", "rdeliver")      # rdeliver: only left unresolved behind the event at which an exception ended the history
    return [e for e in revents if e["op"] not in hidden], [o for e, o in zip(revents, obs) if e["op"] not in hidden]


def hist_key(events):
    return hashlib.sha1(json.dumps(events, sort_keys=True).encode()).hexdigest()


def nontrivial(events, obs):
    handled_at = [i for i, o in enumerate(obs) if o[0] == "handled"]
    if not handled_at:
        return False
    return any(o[0] in ("progress", "result") for o in obs[handled_at[0] + 1:])


def classify(events, obs, res):
    jobs = sum(1 for o in obs if o[0] == "submit" and o[1] is not None)
    res.count(f"jobs:{min(jobs, 4)}")
    per = {}
    late = dup = aftershut = False
    seen = set()
    for e, o in zip(events, obs):
        if e["op"] != "deliver" or e["report"] is None:
            continue
        rp = e["report"]
        key = json.dumps(rp, sort_keys=True)
        if key in seen:
            dup = True
        seen.add(key)
        if o[0] == "dropped" and rp["job"] in per:
            aftershut = True
        if o[0] == "handled" and rp["status"] not in (None, SHUTDOWN):
            if rp["ts"] < per.get(rp["job"], -1):
                late = True
            per[rp["job"]] = max(per.get(rp["job"], -1), rp["ts"])
        per.setdefault(rp["job"], -1)
    if late:
        res.count("has-late-older-progress-report")
    if dup:
        res.count("has-duplicated-report")
    if aftershut:
        res.count("has-report-after-shutdown(dropped)")
    if any(o[0] == "progress" and o[2] for o in obs) or any(o[0] == "result" and o[2] for o in obs):
        res.count("has-error-response")
    if any(e["op"] == "submit" and len(e.get("draws", e.get("cands"))) != 1 for e in events):
        res.count("has-uuid-collision-or-exhaustion")
    ids = [o[1] for o in obs if o[0] == "submit" and o[1] is not None]
    if any(e["op"] == "submit" and "draws" in e and o[4] >= 2 for e, o in zip(events, obs)):
        res.count("has-redrawn-uuid-value")
    if any(a != b and (a[:12] == b[:12] or a[-12:] == b[-12:]) for a in ids for b in ids):
        res.count("has-look-alike-job-ids")
    if len(ids) >= 8:
        res.count("jobs>=8")
    rs = [(e, o) for e, o in zip(events, obs) if e["op"] == "deliver" and "sent" in e]
    if rs:
        res.count("has-real-Reporter-messages")
        got = {}
        for e, o in rs:
            if o[0] == "handled":
                got.setdefault(e["sock"], []).append(e["sent"])
        if any(len([m for m in ms if m[2] == "progress"]) >= 2 for ms in got.values()):
            res.count("reporter:>=2-progress-reports-of-a-job-received")
        if any(a[1] > b[1] for ms in got.values() for a, b in zip(ms, ms[1:])):
            res.count("reporter:received-out-of-send-order")
        if any(a[0] == b[0] and a[1] != b[1] and a[2] == b[2] == "progress" for ms in got.values() for a in ms for b in ms):
            res.count("reporter:two-progress-reports-sent-at-the-same-instant")
        if any(o[0] == "dropped" for e, o in rs):
            res.count("reporter:message-after-shutdown-notice(dropped)")


def run(ctx, res):
    res.rule = ("a history (submits with a scripted id source -- id-like strings or real uuid values: repeats, collision runs, look-alikes, exhaustion --, controller reports on per-job sockets -- in order, swapped, shuffled, reversed, duplicated, "
                "after shutdown, before the job exists; or produced by the REAL Reporter under a scripted clock and delivered at once / lagging / in bursts / reordered / duplicated / never --, progress/result queries incl. unknown ids, final probes of every job and dataset) counts as "
                "non-trivial when at least one report was handled by handle_controller and a frontend query was answered after it; distinct = distinct event lists")
    streams = []
    for h in corpus():
        streams.append(("corpus", h))
    rng = ctx.sub_rng("wf")
    for _ in range(ctx.n(1500, 30000)):
        streams.append(("random", gen_history(rng)))
    rng2 = ctx.sub_rng("malformed")
    for _ in range(ctx.n(300, 6000)):
        streams.append(("malformed", gen_history(rng2, malformed=True)))
    for h in small_scope(ctx.n(4, 5)):
        streams.append(("small-scope", h))
    # round 5: the id source yields uuid values, jobs are named by reference
    for h in corpus_u():
        streams.append(("corpus-uuid", h))
    rng3 = ctx.sub_rng("uuid")
    for _ in range(ctx.n(800, 12000)):
        streams.append(("random-uuid", gen_history_u(rng3)))
    rng4 = ctx.sub_rng("uuid-malformed")
    for _ in range(ctx.n(150, 2500)):
        streams.append(("malformed-uuid", gen_history_u(rng4, malformed=True)))
    rng5 = ctx.sub_rng("uuid-many")
    for _ in range(ctx.n(25, 300)):
        streams.append(("many-jobs-uuid", gen_history_u(rng5, many=True)))
    for h in small_scope_u():
        streams.append(("small-scope-uuid", h))
    # round 6: the real Reporter produces the reports
    for h in corpus_r():
        streams.append(("corpus-reporter", h))
    rng6 = ctx.sub_rng("reporter")
    for _ in range(ctx.n(350, 6000)):
        streams.append(("random-reporter", gen_history_r(rng6)))
    for h in small_scope_r(ctx.n(3, 4)):
        streams.append(("small-scope-reporter", h))
    terms, metas = [], []
    sterms = {}
    for kind, events in streams:
        obs, crash, bad, revents = evaluate(events)
        res.evaluations += 1
        wf = is_wf(revents)
        res.count(f"stream:{kind}")
        if not kind.startswith("small-scope"):
            classify(revents, obs, res)
        if crash:
            res.count("loop-left-by-exception" + ("" if wf else " (report naming a foreign/untracked job)"))
        if nontrivial(revents, obs):
            res.nontrivial_keys.add(hist_key(events))
        case = {"events": events, "stream": kind}
        for sig, what in bad[:1]:
            res.fail(sig, what, case)
        if len(res.samples) < 3 and kind == "random" and nontrivial(revents, obs):
            res.samples.append({"events": events[:12], "observations": obs[:12]})
        if len(res.samples) < 5 and kind == "random-uuid" and nontrivial(revents, obs) and any(o[0] == "submit" and o[4] >= 2 for o in obs):
            res.samples.append({"events": events[:12], "observations": obs[:12]})
        try:
            terms.append(c_case(*model_view(revents, obs), crash))
            metas.append((case, obs, crash))
        except ValueError as e:  # a string the literal printer refuses / ids that are no rendering of one draw: counted, not compared
            res.count("not-compared:" + str(e)[:60])
        if "reporter" in kind:
            try:
                t = c_sends(revents, obs)
                if t is not None:
                    sterms.setdefault(t, ({"events": events, "stream": kind}, obs))
            except (ValueError, TypeError) as e:
                res.count("reporter-not-compared:" + str(e)[:60])
    if sterms:
        sres, slogs = coq_results("C18", HEADER.replace("Gateway.RouterCheck.", "Gateway.RouterCheck Gateway.Reporter Gateway.ReporterCheck."),
                                  list(sterms), "check_sends", tag="sends", shard=400, case_type="list (jobid * Z * call * list report)")
        res.corr_checked += len(sres)
        for r, (case, obs) in zip(sres, sterms.values()):
            if r is not True:
                res.disagree("Coq model of the Reporter (Gateway.Reporter.reporter: one report per call, stamped with the job and the clock reading "
                             "taken in the call) and the real Reporter differ" +
                             ("" if r is False else " (cases file did not compile: " + (slogs[0][-400:] if slogs else "") + ")"),
                             {**case, "observations": obs})
                break
    results, logs = coq_results("C18", HEADER, terms, "check_case_r", tag="hist", shard=300)
    res.corr_checked += len(results)
    for r, (case, obs, crash) in zip(results, metas):
        if r is not True:
            res.disagree("Coq model (Gateway.Router.run) and the real gateway differ on a history" +
                         ("" if r is False else " (cases file did not compile: " + (logs[0][-400:] if logs else "") + ")"),
                         {**case, "observations": obs, "crash": crash})
            break


def search(ctx, res):
    """enlarged search for a concrete failing input (oracle only): more seeds, deeper small scope, shrinking around the disagreement"""
    first = []
    for d in res.disagreements:
        ev = (d.get("case") or {}).get("events")
        if ev:
            first.append(ev)
    cands = itertools.chain(first, corpus(), corpus_u(), corpus_r(),
                            (gen_history(ctx.sub_rng(f"search{k}")) for k in range(1)),
                            small_scope_u(), _many(ctx), small_scope(4))
    for events in cands:
        obs, crash, bad, _ = evaluate(events)
        if bad:
            f = {"signature": bad[0][0], "what": bad[0][1], "case": {"events": events, "stream": "search"}}
            return shrink(ctx, f)
    return None


def _many(ctx):
    rng = ctx.sub_rng("search-many")
    for k in range(9000):
        yield gen_history_u(rng, malformed=(k % 7 == 6), many=(k % 50 == 49)) if k % 3 == 2 else gen_history(rng)


def shrink(ctx, f):
    """drop events while the same failure class remains"""
    events = list(f["case"]["events"])
    sig = f["signature"]

    def still(evs):
        try:
            _, _, bad, _ = evaluate(evs)
        except Exception:
            return None
        for s, w in bad:
            if s == sig:
                return w
        return None
    what = still(events)
    if what is None:
        return f
    changed = True
    while changed and len(events) > 1:
        changed = False
        for i in range(len(events) - 1, -1, -1):
            trial = events[:i] + events[i + 1:]
            w = still(trial)
            if w is not None:
                events, what, changed = trial, w, True
    return {"signature": sig, "what": what, "case": {"events": events, "stream": f["case"].get("stream", "?") + "+shrunk"}}


def replay(ctx, case):
    c = case.get("case") or (case.get("first_disagreement") or {}).get("case") or case
    events = c.get("events")
    if not events:
        return {"fails": None, "note": "no event list in this replay file"}
    obs, crash, bad, revents = evaluate(events)
    return {"fails": bool(bad), "failures": [{"signature": s, "what": w} for s, w in bad], "observations": obs, "crash": crash,
            "job_ids": {str(e["tag"]): o[1] if o[1] is not None else o[3] for e, o in zip(revents, obs) if e["op"] == "submit" and "tag" in e}}
