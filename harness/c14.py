"""C14 -- fluent node names identify computations; operations leave operands intact.

Generator: a fluent *program*: one or two from_source arrays (shared sources; callables with equal
__name__ and different code / closure values, lambdas, callable objects without __name__,
functools.partial, the same callable in several cells) and a sequence of operations chosen while
the program runs (map with the same or different callables and statics, reductions with and without
batching, two-argument arithmetic between actions whose coordinate values differ, join, stack /
concatenate, select, transform with functions that return the action they were given, expand,
broadcast, flatten).  Every program is built TWICE from its recorded spec, with freshly created
function objects.
Oracle (direct reading of the property on the real objects):
  * over all node objects of both builds, one name <-> one computation, where the computation is
    judged by the harness' own record (which callable spec, which statics, which inputs) -- never
    by the implementation's names;
  * both builds give the same names, cell by cell;
  * Cascade.from_actions over the actions of both builds has pairwise distinct node names, keeps
    name -> computation, and serialises;
  * every action that existed before an operation has the same dims, coordinates and node objects
    after it (also when the operation raised).
Correspondence: (a) per build, what every node was built from + the observed names -> Coq
(NamesCheck.check_names: hashed strings of the model vs. observed digests, name prefixes, from_source
labels); (b) the operation sequence with the arrays of ALL actions after every operation -> Coq
(NamesCheck.check_ops: the heap model with aliasing and in-place primitives)."""
import functools
import hashlib
import json
import random
import warnings

from common import cnat, clist, copt, cstr, coq_results

TRUSTED = [
    "harness/c14.py: the harness' own identity of a callable (kind, name, body, closure value / object) and of a computation "
    "(callable, (type, repr) of statics, inputs); callables are created by exec of generated source; "
    "coordinate values and cells are compared through str() and through the tuple of node names",
]
ASSUMPTIONS = [
    "Section hypotheses of Fluent/NamesProofs.v: custom_hash (SHA-256 hexdigest) is injective and prints hex digits only",
    "a callable is identified with its callable_id digest: equal digests = same callable (module, qualified name, code, defaults, closure contents); "
    "the correspondence uses the harness' own callable identities instead and checks that the implementation separates exactly those",
    "wf_node: callable names, keyword names and str statics contain no quote / backslash, other statics print as one token without ' , ] }, "
    "output names are str(int); nested containers as static arguments are outside the model",
    "operand integrity: the model heap holds dims, coordinate labels, scalar coordinates and a token for the cells of every Action; "
    "results of array-building operations (map, reduce, broadcast, non-empty select) are taken from the observation (their content is property C13); "
    "aliasing, copies and in-place edits (_add_dimension, _squeeze_dimension, assignment to .nodes) are transcribed; "
    "attrs and the mutation of node.inputs by deduplicate_nodes are outside the model",
]

HEADER = """From Coq Require Import List String Ascii Bool Arith.
From EKW Require Import Fluent.Names Fluent.NamesCheck.
Import ListNotations.
Open Scope string_scope.
Open Scope list_scope.
"""

warnings.filterwarnings("ignore")

# ------------------------------------------------------------------------------ callables
BODIES = ["x", "x + 1", "x * 2", "x - 1", "(x, 0)", "x + 1 if a else x", "x + 2"]
KBODIES = ["x + k", "x * k", "k"]
NAMES = ["f", "g", "op"]
# static values as written in a program spec (JSON); ["@f32", x] stands for numpy.float32(x)
STATICS = [0, 1, -3, 2.5, True, None, "a", "x y", "input0", "input1", 10 ** 12,
           "1", "None", "True", "2.5", ["@f32", 2.5], "a, b", "p=1", "-3"]
# values that are different but print alike under str() (not under repr)
TWINS = [[1, "1"], [None, "None"], [True, "True"], [2.5, "2.5", ["@f32", 2.5]], [-3, "-3"], [0, "0"], [10 ** 12, "1000000000000"]]


def decode_static(v):
    if isinstance(v, list) and len(v) == 2 and v[0] == "@f32":
        import numpy as np
        return np.float32(v[1])
    return v


def twin_of(rng, v):
    for group in TWINS:
        if any(vkey(v) == vkey(g) for g in group):
            return rng.choice([g for g in group if vkey(g) != vkey(v)])
    return None


def spec_key(c):
    return json.dumps([c["kind"], c.get("name"), c.get("body"), c.get("k"), c.get("inst")])


def cid_token(key):
    return hashlib.sha256(key.encode()).hexdigest()


def spec_cname(c):
    return {"def": c.get("name"), "closure": c.get("name"), "lambda": "<lambda>", "instance": ""}[c["kind"]]


class _Op:
    """callable object: no __name__, default repr"""

    def __call__(self, x=0, *a, **kw):
        return x


class World:
    """the callables of one build; `instances` are shared between the builds of a case"""

    def __init__(self, instances):
        self.instances = instances
        self.by_id = {}

    def make(self, c):
        k = c["kind"]
        if k == "instance":
            fn = self.instances.setdefault(c["inst"], _Op())
        else:
            ns = {"__name__": "c14gen"}
            if k == "def":
                exec(f"def {c['name']}(x=0, *a, **kw):\n    return {BODIES[c['body']]}\nfn = {c['name']}\n", ns)
            elif k == "lambda":
                exec(f"fn = lambda x=0, *a, **kw: {BODIES[c['body']]}\n", ns)
            else:
                exec(f"def mk(k):\n    def {c['name']}(x=0, *a, **kw):\n        return {KBODIES[c['body']]}\n    return {c['name']}\nfn = mk({c['k']!r})\n", ns)
            fn = ns["fn"]
        self.by_id[id(fn)] = (spec_key(c), spec_cname(c), fn)
        return fn

    def identify(self, fn):
        hit = self.by_id.get(id(fn))
        if hit is not None and hit[2] is fn:
            return hit[0], hit[1]
        # library callables (earthkit.workflows.backends.*): module-level functions
        return "lib:" + str(getattr(fn, "__module__", "")) + ":" + str(getattr(fn, "__qualname__", repr(fn))), getattr(fn, "__name__", "")


def gen_callable(rng):
    r = rng.random()
    if r < 0.3:
        return {"kind": "def", "name": rng.choice(NAMES), "body": rng.randrange(len(BODIES))}
    if r < 0.55:
        return {"kind": "lambda", "body": rng.randrange(len(BODIES))}
    if r < 0.9:
        return {"kind": "closure", "name": rng.choice(NAMES), "body": rng.randrange(len(KBODIES)), "k": rng.choice([1, 2, 3, "s"])}
    return {"kind": "instance", "inst": rng.randrange(3)}


# ------------------------------------------------------------------------------ observation helpers
def snap(a):
    """(dims, labels per dim, scalar coords, unlabeled dims, node names, node object ids)"""
    nodes = a.nodes
    dims = [str(d) for d in nodes.dims]
    labels, unl = {}, []
    for d in dims:
        if d in nodes.coords:
            labels[d] = [str(v) for v in nodes.coords[d].data.reshape(-1).tolist()]
        else:
            labels[d] = [str(i) for i in range(nodes.sizes[d])]
            unl.append(d)
    scal = {str(k): str(v.data.tolist()) for k, v in nodes.coords.items() if str(k) not in dims and v.ndim == 0}
    cells = list(nodes.data.flatten())
    names = [str(c) if not hasattr(c, "payload") else c.name for c in cells]
    return {"dims": dims, "labels": labels, "scal": scal, "unl": unl, "names": names, "ids": [id(c) for c in cells]}


def same_snap(a, b):
    return all(a[k] == b[k] for k in ("dims", "labels", "scal", "names", "ids"))


def vkey(v):
    return [type(v).__name__, repr(v)]


class Comps:
    """hash-consing of computations: (callable spec, statics, inputs)"""

    def __init__(self):
        self.ids = {}
        self.of_node = {}

    def comp(self, node, world, fnode_cls):
        hit = self.of_node.get(id(node))
        if hit is not None and hit[1] is node:
            return hit[0]
        func, args, kwargs = node.payload
        key, _ = world.identify(func)
        ins = []
        for iname, out in node.inputs.items():
            ins.append([iname, self.comp(out.parent, world, fnode_cls), out.name])
        k = json.dumps([key, [vkey(a) for a in args], sorted([kk, vkey(vv)] for kk, vv in kwargs.items()), ins, len(node.outputs)])
        cid = self.ids.setdefault(k, len(self.ids))
        self.of_node[id(node)] = (cid, node)
        return cid


def all_nodes(actions):
    """node objects reachable from the actions, parents first"""
    from earthkit.workflows.graph import Node as BaseNode
    seen, order = {}, []

    def visit(n):
        if id(n) in seen:
            return
        seen[id(n)] = n
        for out in n.inputs.values():
            visit(out.parent)
        order.append(n)
    for a in actions:
        for c in a.nodes.data.flatten():
            visit(c if isinstance(c, BaseNode) else c.parent)
    return order


# ------------------------------------------------------------------------------ running one program
REDUCERS = ["sum", "mean", "max", "min", "prod", "std"]
BINARY = ["add", "subtract", "multiply", "divide", "power"]


def make_payload(world, spec, Payload):
    fn = world.make(spec["fn"])
    args, kwargs, via = spec.get("args"), spec.get("kwargs"), spec.get("via", "plain")
    args = None if args is None else [decode_static(v) for v in args]
    kwargs = None if kwargs is None else {k: decode_static(v) for k, v in kwargs.items()}
    if via == "partial":
        return functools.partial(fn, *(args or []), **(kwargs or {}))
    if args is None and kwargs is None:
        return fn
    return Payload(fn, args, kwargs)


def vary(rng, prev, snaps, spec_pool, force=None):
    """a near copy of an earlier map/reduce: exactly one ingredient of the computation changed (or none)"""
    o = json.loads(json.dumps(prev))
    how = force or rng.choice(["same", "value", "value", "key", "fn", "fn", "order", "order", "self", "alike", "alike", "alike", "alike"])
    o["varied"] = how
    if how == "alike":
        # same callable, same inputs, a static argument replaced by a different value that PRINTS alike:
        # another type ("1" for 1), another grouping ("a, b" for "a", "b"), positional "p=1" for keyword p=1
        o.pop("via", None)
        args, kw = list(o.get("args") or []), dict(o.get("kwargs") or {})
        cands = [("arg", j) for j, v in enumerate(args) if twin_of(rng, v) is not None] + \
                [("kw", k) for k, v in kw.items() if twin_of(rng, v) is not None]
        if "a, b" in args:
            cands.append(("split", args.index("a, b")))
        if any(args[j:j + 2] == ["a", "b"] for j in range(len(args))):
            cands.append(("merge", next(j for j in range(len(args)) if args[j:j + 2] == ["a", "b"])))
        if kw and all(isinstance(v, (int, str)) and not isinstance(v, bool) for v in kw.values()):
            cands.append(("positional", None))
        if not cands:
            # nothing to twin yet: leave a twinnable near copy behind for later variations
            o["args"] = ["input0", rng.choice([1, None, 2.5, "a, b", True])]
            o["varied"] = "alike-seed"
            return o
        kind, at = rng.choice(cands)
        if kind == "arg":
            args[at] = twin_of(rng, args[at])
        elif kind == "kw":
            kw[at] = twin_of(rng, kw[at])
        elif kind == "split":
            args[at:at + 1] = ["a", "b"]
        elif kind == "merge":
            args[at:at + 2] = ["a, b"]
        else:
            if "input0" not in args:
                args = args + ["input0"]      # where Node.__init__ would have put the placeholder
            args += [f"{k}={v}" for k, v in kw.items()]
            kw = {}
        o["args"], o["kwargs"] = (args or None), (kw or None)
        if o["args"] is None:
            o.pop("args")
        if o["kwargs"] is None:
            o.pop("kwargs")
        return o
    if how == "value":
        if o.get("kwargs"):
            k = rng.choice(sorted(o["kwargs"]))
            o["kwargs"][k] = rng.choice([v for v in STATICS if vkey(v) != vkey(o["kwargs"][k])])
        elif o.get("args"):
            j = rng.randrange(len(o["args"]))
            o["args"][j] = rng.choice([v for v in STATICS if vkey(v) != vkey(o["args"][j])])
        else:
            o["kwargs"] = {"p": rng.choice(STATICS)}
    elif how == "key":
        kw = o.get("kwargs") or {"p": rng.choice(STATICS)}
        k = sorted(kw)[0]
        o["kwargs"] = {("q" if kk == k and k != "q" else "r" if kk == k else kk): vv for kk, vv in kw.items()}
        o.pop("via", None)
    elif how == "fn":
        twins = [c for c in spec_pool if spec_cname(c) == spec_cname(o["fn"]) and spec_key(c) != spec_key(o["fn"])]
        o["fn"] = rng.choice(twins) if twins else gen_callable(rng)
    elif how == "order":
        if o.get("args") and len(o["args"]) > 1:
            o["args"] = o["args"][::-1]
        elif o.get("kwargs") and len(o["kwargs"]) > 1:
            o["kwargs"] = dict(reversed(list(o["kwargs"].items())))
        else:
            o["args"] = [rng.choice(STATICS), "input0"]
            o.pop("via", None)
    elif how == "self":
        o["self"] = rng.randrange(len(snaps))
    if o["op"] == "reduce" and o["dim"] not in snaps[o["self"]]["dims"]:
        o["op"] = "map"
    return o


def choose_op(rng, snaps, spec_pool, earlier=()):
    """next operation, chosen on the current arrays"""
    prev = [o for o in earlier if o["op"] in ("map", "reduce") and o["self"] < len(snaps)]
    twinnable = [o for o in prev if any(twin_of(rng, v) is not None or v == "a, b" for v in list(o.get("args") or []) + list((o.get("kwargs") or {}).values()))]
    if twinnable and rng.random() < 0.2:
        return vary(rng, rng.choice(twinnable), snaps, spec_pool, force="alike")
    if prev and rng.random() < 0.25:
        rich = [o for o in prev if len(o.get("args") or []) > 1 or o.get("kwargs")]
        return vary(rng, rng.choice(rich if rich and rng.random() < 0.5 else prev), snaps, spec_pool)
    i = rng.randrange(len(snaps))
    s = snaps[i]
    dims = s["dims"]
    lab = [d for d in dims if d not in s["unl"]]
    r = rng.random()
    fn = lambda: rng.choice(spec_pool) if rng.random() < 0.75 else gen_callable(rng)
    if r < 0.2 or not dims:
        o = {"op": "map", "self": i, "fn": fn()}
        q = rng.random()
        if q < 0.3:
            o["args"] = [rng.choice(["input0", "input0", 1]), rng.choice(STATICS)][: rng.choice([1, 2, 2])]
        elif q < 0.45:
            o["kwargs"] = {rng.choice(["p", "q"]): rng.choice(STATICS)}
            if rng.random() < 0.5:
                o["kwargs"][rng.choice(["q", "r"])] = rng.choice(STATICS)
        elif q < 0.55:
            o["args"], o["via"] = [rng.choice(STATICS)], "partial"
        if rng.random() < 0.12:
            o["yields"] = rng.choice([1, 2])
        return o
    if r < 0.3:
        return {"op": "reduce", "self": i, "fn": fn(), "dim": rng.choice(dims), "keep": rng.random() < 0.2}
    if r < 0.4:
        d = rng.choice(dims)
        return {"op": "named", "self": i, "which": rng.choice(REDUCERS), "dim": d, "batch": rng.choice([0, 0, 2, 3]), "keep": rng.random() < 0.15}
    if r < 0.55:
        same = [j for j, t in enumerate(snaps) if t["dims"] == dims and [len(t["labels"][d]) for d in dims] == [len(s["labels"][d]) for d in dims]]
        differ = [j for j in same if snaps[j]["labels"] != s["labels"]]
        if differ and rng.random() < 0.6:
            return {"op": "binary", "self": i, "which": rng.choice(BINARY), "other": rng.choice(differ)}
        if same and rng.random() < 0.8:
            return {"op": "binary", "self": i, "which": rng.choice(BINARY), "other": rng.choice(same)}
        return {"op": "binary", "self": i, "which": rng.choice(BINARY), "scalar": rng.choice([2, 0.5, 3])}
    if r < 0.63:
        j = rng.randrange(len(snaps))
        d = rng.choice(dims) if rng.random() < 0.7 else "j" + str(rng.randrange(2))
        return {"op": "join", "self": i, "other": j, "dim": d, "match": rng.random() < 0.5}
    if r < 0.73 and lab:
        return {"op": rng.choice(["stack", "concatenate"]), "self": i, "dim": rng.choice(lab), "keep": rng.random() < 0.3}
    if r < 0.81:
        q = rng.random()
        if q < 0.25:
            crit = {}
        elif q < 0.5 and s["scal"]:
            k = rng.choice(sorted(s["scal"]))
            crit = {k: "@scalar"}
        else:
            d = rng.choice(lab) if lab else rng.choice(dims)
            crit = {d: "@label" + str(rng.randrange(len(s["labels"][d])))}
        return {"op": "select", "self": i, "crit": crit, "drop": rng.random() < 0.5}
    if r < 0.91:
        n = rng.choice([1, 1, 2, 3])
        funcs = [rng.choice(["self", "self", "selempty", "map"]) for _ in range(n)]
        d = rng.choice(["t0", "t1"] + lab) if rng.random() < 0.8 else ["tc", [10 + k for k in range(n)]]
        return {"op": "transform", "self": i, "funcs": funcs, "fn": fn(), "dim": d, "axis": rng.randrange(len(dims) + 1)}
    if r < 0.95:
        return {"op": "expand", "self": i, "dim": rng.choice(["e0", "e1"]), "size": rng.choice([1, 2, 3]), "axis": rng.randrange(len(dims) + 1)}
    if r < 0.98:
        return {"op": "broadcast", "self": i, "other": rng.randrange(len(snaps))}
    return {"op": "flatten", "self": i, "dim": rng.choice(dims)}


def coord_value(action, d, token):
    if token == "@scalar":
        return action.nodes.coords[d].data.tolist()
    if isinstance(token, str) and token.startswith("@label"):
        return action.nodes.coords[d].data.tolist()[int(token[6:])] if d in action.nodes.coords else int(token[6:])
    return token


def apply_op(o, actions, world):
    from earthkit.workflows.fluent import Payload
    a = actions[o["self"]]
    k = o["op"]
    if k == "map":
        y = o.get("yields")
        return a.map(make_payload(world, o, Payload), yields=("y", list(range(y))) if y else None)
    if k == "reduce":
        return a.reduce(make_payload(world, o, Payload), dim=o["dim"], keep_dim=o["keep"])
    if k == "named":
        return getattr(a, o["which"])(dim=o["dim"], batch_size=o["batch"], keep_dim=o["keep"])
    if k == "binary":
        return getattr(a, o["which"])(actions[o["other"]] if "other" in o else o["scalar"])
    if k == "join":
        return a.join(actions[o["other"]], o["dim"], match_coord_values=o["match"])
    if k in ("stack", "concatenate"):
        return getattr(a, k)(o["dim"], keep_dim=o["keep"])
    if k == "select":
        crit = {d: coord_value(a, d, v) for d, v in o["crit"].items()}
        return a.select(crit, drop=o["drop"])
    if k == "transform":
        fn = make_payload(world, {"fn": o["fn"]}, Payload)
        funcs = {"self": lambda act, *p: act, "selempty": lambda act, *p: act.select({}), "map": lambda act, *p: act.map(fn)}
        n = len(o["funcs"])
        it = iter(o["funcs"])
        dim = o["dim"] if isinstance(o["dim"], str) else (o["dim"][0], list(o["dim"][1]))
        return a.transform(lambda act, *p: funcs[next(it)](act, *p), [(q,) for q in range(n)], dim, axis=o["axis"])
    if k == "expand":
        return a.expand(o["dim"], 0, dim_size=o["size"], axis=o["axis"])
    if k == "broadcast":
        return a.broadcast(actions[o["other"]])
    if k == "flatten":
        return a.flatten(dim=o["dim"])
    raise ValueError(k)


def build_sources(prog, world):
    import numpy as np
    from earthkit.workflows.fluent import Payload, from_source
    actions, groups = [], []
    for src in prog["sources"]:
        shape = [len(src["coords"][d]) for d in src["dims"]]
        cells = np.empty(shape, dtype=object)
        for pos, spec in zip(np.ndindex(*shape), src["cells"]):
            cells[pos] = make_payload(world, spec, Payload)
        a = from_source(cells, dims=list(src["dims"]), coords={d: list(v) for d, v in src["coords"].items()})
        actions.append(a)
        groups.append([(id(a.nodes.data[pos]), str(tuple(int(p) for p in pos))) for pos in np.ndindex(*shape)])
    return actions, groups


def run_build(prog, instances, rng=None, nops=0):
    """execute the program (generating its operations when rng is given).
    Returns observation dict; failures of operand integrity are collected in obs['fails']."""
    world = World(instances)
    actions, groups = build_sources(prog, world)
    fails, steps = [], []
    init = [snap(a) for a in actions]
    ops = prog.setdefault("ops", [])
    pool = [s["fn"] for src in prog["sources"] for s in src["cells"]] + prog["pool"]
    n = nops if rng is not None else len(ops)
    for t in range(n):
        before = [snap(a) for a in actions]
        if rng is not None:
            ops.append(choose_op(rng, before, pool, ops))
        o = ops[t]
        try:
            r = apply_op(o, actions, world)
            err = None
        except Exception as e:      # the fluent API refuses many combinations (mismatched coordinates ...): not C14's business
            r, err = None, type(e).__name__
        after = [snap(a) for a in actions]
        for ix, (b, c) in enumerate(zip(before, after)):
            if not same_snap(b, c):
                what = "dims/coords" if (b["dims"], b["labels"], b["scal"]) != (c["dims"], c["labels"], c["scal"]) else "node array"
                fails.append(("operand-changed", f"{o['op']} changed the {what} of an existing action (#{ix}, {'self' if ix == o['self'] else 'other operand' if ix == o.get('other') else 'bystander'}): "
                              f"{b['dims']} {b['labels']} {b['scal']} -> {c['dims']} {c['labels']} {c['scal']}"))
        if err is None:
            slot = next((ix for ix, a in enumerate(actions) if a is r), None)
            if slot is None:
                actions.append(r)
                slot = len(actions) - 1
            steps.append({"t": t, "slot": slot, "before": before, "after": [snap(a) for a in actions]})
        else:
            steps.append({"t": t, "err": err})
    return {"world": world, "actions": actions, "groups": groups, "init": init, "steps": steps, "fails": fails}


def node_table(obs, comps):
    """everything the node objects of a build were made from"""
    from earthkit.workflows.fluent import Node as FNode
    from earthkit.workflows.graph import Output
    world = obs["world"]
    order = all_nodes(obs["actions"])
    index = {id(n): i for i, n in enumerate(order)}
    rows = []
    for n in order:
        func, args, kwargs = n.payload
        key, cname = world.identify(func)
        given = getattr(n, "_for_copy", (None, None))[1]
        if given is not None and not isinstance(given, (list, tuple)) and not hasattr(given, "__len__"):
            given = [given]
        ins = []
        for pos, (iname, out) in enumerate(n.inputs.items()):
            as_output = out.name != "0"
            try:
                as_output = isinstance(list(given)[pos], Output)
            except Exception:
                pass
            ins.append((index[id(out.parent)], out.name, as_output))
        # the arguments as handed to Node(...), before it appended the input placeholders (fallback: as stored)
        args_in = list(args)
        try:
            orig = n._for_copy[0]
            if isinstance(orig, functools.partial):
                args_in = list(orig.args)
            elif hasattr(orig, "to_tuple"):
                args_in = list(orig.args)
            elif callable(orig):
                args_in = []
        except Exception:
            pass
        rows.append({"name": n.name, "key": key, "cname": cname, "args": list(args), "args_in": args_in, "kwargs": dict(kwargs), "ins": ins,
                     "nin": len(n.inputs), "comp": comps.comp(n, world, FNode), "outputs": list(n.outputs)})
    return order, rows


def run_program(prog, rng=None, nops=0):
    """both builds + union; returns (observations, failures)"""
    from earthkit.workflows import Cascade
    from earthkit.workflows.graph import serialise
    instances = {}
    fails = []
    A = run_build(prog, instances, rng, nops)
    B = run_build(prog, instances)
    fails += A["fails"]
    comps = Comps()
    orderA, rowsA = node_table(A, comps)
    orderB, rowsB = node_table(B, comps)
    # one name <-> one computation
    by_name = {}
    for r in rowsA + rowsB:
        by_name.setdefault(r["name"], {}).setdefault(r["comp"], r)
    for name, cs in by_name.items():
        if len(cs) > 1:
            x, y = list(cs.values())[:2]
            fails.append(("same-name-different-computation",
                          f"two nodes are both called {name[:24]}... : callable {x['key']} statics {x['args']} {x['kwargs']} vs callable {y['key']} statics {y['args']} {y['kwargs']}"
                          + (" (same callable and statics, different inputs)" if (x["key"], repr(x["args"]), repr(x["kwargs"])) == (y["key"], repr(y["args"]), repr(y["kwargs"])) else "")))
            break
    # same program, same names
    if len(A["actions"]) != len(B["actions"]) or [s.get("err") for s in A["steps"]] != [s.get("err") for s in B["steps"]]:
        fails.append(("same-program-different-behaviour", "the second build of the program did not behave like the first"))
    else:
        for ix, (a, b) in enumerate(zip(A["actions"], B["actions"])):
            na, nb = snap(a)["names"], snap(b)["names"]
            if na != nb:
                fails.append(("same-program-different-names", f"action #{ix} of the second build has other node names: {[x[:16] for x in na][:4]} vs {[x[:16] for x in nb][:4]}"))
                break
    # union of both builds
    before = [snap(a) for a in A["actions"] + B["actions"]]
    try:
        cas = Cascade.from_actions(A["actions"] + B["actions"])
        gnodes = list(cas._graph.nodes())
        names = [n.name for n in gnodes]
        if len(names) != len(set(names)):
            dup = next(x for x in names if names.count(x) > 1)
            fails.append(("union-keeps-duplicate-names", f"Cascade.from_actions over two builds of the program has {len(names)} nodes but {len(set(names))} names, e.g. {dup[:24]}..."))
        else:
            serialise(cas._graph)
        c2 = Comps()
        w = World(instances)
        w.by_id = {**A["world"].by_id, **B["world"].by_id}
        k2name = {}
        for n in gnodes:
            func, args, kwargs = n.payload
            k2name.setdefault(n.name, []).append((w.identify(func)[0], [vkey(a) for a in args], sorted([kk, vkey(vv)] for kk, vv in kwargs.items())))
        want = {r["name"]: (r["key"], [vkey(a) for a in r["args"]], sorted([kk, vkey(vv)] for kk, vv in r["kwargs"].items())) for r in rowsA + rowsB}
        for name, got in k2name.items():
            if name not in want or any(g != want[name] for g in got):
                fails.append(("union-changed-computation", f"node {name[:24]}... of the union is not the computation that was built under this name"))
                break
        # nodes of equal computation may be merged under one of their names (two sources with the same payload); no computation may vanish
        have = {json.dumps(g) for got in k2name.values() for g in got}
        if any(json.dumps(list(v)) not in have for v in want.values()):
            fails.append(("union-lost-nodes", f"a computation of the builds has no node in the union ({len(set(k2name))} names, the builds had {len(set(want))})"))
    except AssertionError as e:
        fails.append(("union-keeps-duplicate-names", f"Cascade.from_actions / serialise over two builds of the program raised AssertionError {e}"))
    after = [snap(a) for a in A["actions"] + B["actions"]]
    for ix, (b, c) in enumerate(zip(before, after)):
        if not same_snap(b, c):
            fails.append(("operand-changed", f"Cascade.from_actions changed action #{ix}"))
    return {"A": A, "B": B, "rowsA": rowsA, "rowsB": rowsB}, fails


# ------------------------------------------------------------------------------ generator
def gen_program(rng):
    pool = [gen_callable(rng) for _ in range(rng.choice([2, 3, 4]))]
    # equal __name__, different closure value / body: always present
    base = rng.choice(NAMES)
    pool.append({"kind": "closure", "name": base, "body": 0, "k": 1})
    pool.append({"kind": "closure", "name": base, "body": 0, "k": 2})
    pool.append({"kind": "def", "name": base, "body": rng.randrange(len(BODIES))})
    pool.append({"kind": "lambda", "body": 1})
    pool.append({"kind": "lambda", "body": 2})
    sources = []
    dims = rng.choice([["x"], ["x"], ["x", "y"], ["y", "x"]])
    sizes = {d: rng.choice([1, 2, 2, 3]) for d in dims}
    for sidx in range(rng.choice([1, 2, 2])):
        if sidx == 1 and rng.random() < 0.25:
            dims = rng.choice([["x"], ["z", "x"]])
            sizes = {d: sizes.get(d, rng.choice([1, 2])) for d in dims}
        shift = 0 if sidx == 0 or rng.random() < 0.3 else 10 * sidx      # coordinate values differ between the sources
        coords = {d: [shift + k for k in range(sizes[d])] for d in dims}
        ncell = 1
        for d in dims:
            ncell *= sizes[d]
        cells = []
        for _ in range(ncell):
            c = {"fn": rng.choice(pool)}
            q = rng.random()
            if q < 0.2:
                c["args"] = [rng.choice(STATICS)]
            elif q < 0.3:
                c["args"], c["via"] = [rng.choice(STATICS)], "partial"
            cells.append(c)
        sources.append({"dims": list(dims), "coords": coords, "cells": cells})
    return {"sources": sources, "pool": pool}


# ------------------------------------------------------------------------------ Coq terms
def cval(v):
    if isinstance(v, str):
        if "'" in v or "\\" in v:
            raise ValueError("string outside the model: " + repr(v))
        return f"(VStr {cstr(v)})"
    if isinstance(v, (bool, int, float)) or v is None or type(v).__module__ == "numpy":
        return f"(VAtom {cstr(repr(v))})"      # numpy scalars print as one token too: np.float32(2.5)
    raise ValueError("static value outside the model: " + repr(v))


def split_name(name):
    base, _, digest = name.rpartition(":")
    return base, digest


def names_case(rows, groups, order_ids):
    table = {}
    for r in rows:
        table[cid_token(r["key"])] = r["cname"]
    nodes = []
    for r in rows:
        base, digest = split_name(r["name"])
        ins = clist([f"({cnat(p)}, {copt(o if as_out else None, cstr)})" for p, o, as_out in r["ins"]])
        kw = clist([f"({cstr(k)}, {cval(v)})" for k, v in r["kwargs"].items()])
        args = list(r["args_in"])
        nodes.append(f"NS {cstr(cid_token(r['key']))} {clist(args, cval)} {kw} {ins} {cstr(str(len(r['outputs'])))} {cstr(base)} {cstr(digest)}")
    gs = clist([clist([f"({cnat(order_ids[i])}, {cstr(ix)})" for i, ix in g]) for g in groups])
    tb = clist([f"({cstr(k)}, {cstr(v)})" for k, v in table.items()])
    return f"({tb}, {clist(nodes)}, {gs})"


class Cells:
    def __init__(self):
        self.t = {}

    def tok(self, names):
        return self.t.setdefault(tuple(names), len(self.t))


def carr(s, cells):
    dims = clist([f"({cstr(d)}, {clist(s['labels'][d], cstr)})" for d in s["dims"]])
    scal = clist([f"({cstr(k)}, {cstr(v)})" for k, v in sorted(s["scal"].items())])
    return f"(mkArr {dims} {scal} {cnat(cells.tok(s['names']))})"


def cop(o, step, cells):
    """Coq term of a successful operation, or None if the operation is outside the heap model"""
    before, after = step["before"], step["after"]
    res = after[step["slot"]]
    s = before[o["self"]]
    k = o["op"]
    if any(s["unl"]) and k in ("stack", "concatenate", "transform"):
        return None
    if k in ("map", "reduce", "named", "broadcast", "flatten") or (k == "binary" and "other" not in o):
        others = [o["other"]] if "other" in o else []
        return f"OAtomic {cnat(o['self'])} {clist(others, cnat)} {carr(res, cells)}"
    if k == "binary":
        return f"OBinary {cnat(o['self'])} {cnat(o['other'])} {carr(res, cells)}"
    if k == "select":
        empty = all(d not in s["dims"] for d in o["crit"])      # a criterion on a dimension stays; @scalar criteria match by construction
        return f"OSelect {cnat(o['self'])} {'true' if empty else 'false'} {carr(res, cells)}"
    if k == "join":
        t = before[o["other"]]
        d = o["dim"]
        if s["dims"] != t["dims"] or d in s["scal"] or d in t["scal"] or s["unl"] or t["unl"] or s["scal"] != t["scal"]:
            # xr.concat broadcasts / merges here: the result array is taken from the observation
            return f"OAtomic {cnat(o['self'])} {clist([o['other']], cnat)} {carr(res, cells)}"
        return f"OJoin {cnat(o['self'])} {cnat(o['other'])} {cstr(d)} {'true' if o['match'] else 'false'} {cnat(cells.tok(res['names']))}"
    if k in ("stack", "concatenate"):
        return f"OCombine {cnat(o['self'])} {cstr(o['dim'])} {'true' if o['keep'] else 'false'} {carr(res, cells)}"
    if k in ("transform", "expand"):
        if k == "expand":
            funcs, d, vals = ["map"] * o["size"], o["dim"], [str(i) for i in range(o["size"])]
        else:
            funcs = o["funcs"]
            d, vals = (o["dim"], [str(i) for i in range(len(funcs))]) if isinstance(o["dim"], str) else (o["dim"][0], [str(v) for v in o["dim"][1]])
        if d in s["scal"]:
            return None
        final = cells.tok(res["names"])
        ps = []
        for f, v in zip(funcs, vals):
            tf = {"self": "TFSelf", "selempty": "(TFSelect true (mkArr [] [] 0))", "map": f"(TFMap {cnat(final)})"}[f]
            ps.append(f"({tf}, {cstr(v)}, {cnat(final)})")
        return f"OTransform {cnat(o['self'])} {clist(ps)} {cstr(d)} {cnat(o['axis'])}"
    return None


def ops_case(prog, obs):
    """the longest prefix of the program the heap model covers (failed operations are skipped: they create nothing)"""
    cells = Cells()
    init = clist([carr(s, cells) for s in obs["init"]])
    steps, n = [], 0
    for st in obs["steps"]:
        if "err" in st:
            continue
        o = prog["ops"][st["t"]]
        term = cop(o, st, cells)
        if term is None:
            break
        steps.append(f"({term}, {cnat(st['slot'])}, {clist([carr(s, cells) for s in st['after']])})")
        n += 1
    return f"({init}, {clist(steps)})", n


# ------------------------------------------------------------------------------ driver
def stored(prog):
    return {"sources": prog["sources"], "pool": prog["pool"], "ops": prog.get("ops", [])}


def run(ctx, res):
    res.rule = ("one evaluation = one fluent operation (or from_source call) executed on the real API, in either build of a program; "
                "non-trivial = a node built by the program that has at least one input; distinct = distinct (computation, name) pairs, "
                "computations judged by the harness (callable spec, statics, inputs)")
    from common import load_corpus
    for path, stored_case in load_corpus("C14"):
        c = stored_case.get("case")
        if isinstance(c, dict) and "sources" in c:
            try:
                _, fails = run_program({"sources": c["sources"], "pool": c["pool"], "ops": [dict(o) for o in c.get("ops", [])]})
            except Exception as e:
                fails = [("harness-cannot-drive-fluent-api", repr(e))]
            res.count("corpus-case")
            for sig, what in fails:
                res.fail(sig, what, c)
    rng = ctx.sub_rng("programs")
    nprog = ctx.n(160, 3200)
    name_terms, name_meta, op_terms, op_meta = [], [], [], []
    for k in range(nprog):
        prog = gen_program(rng)
        obs, fails = run_program(prog, rng, nops=rng.choice([3, 5, 7, 9]))
        for sig, what in fails:
            res.fail(sig, what, stored(prog))
        for build in ("A", "B"):
            res.evaluations += len(prog["sources"]) + len(obs[build]["steps"])
        for st, o in zip(obs["A"]["steps"], prog["ops"]):
            res.count("op:" + o["op"] + (":raised" if "err" in st else ""))
            if "varied" in o:
                res.count("near-copy-of-earlier-op:" + o["varied"])
            if "err" not in st and st["slot"] < len(st["before"]):
                res.count("returned-an-existing-action")
            if o["op"] == "binary" and "other" in o and "err" not in st:
                a, b = st["before"][o["self"]], st["before"][o["other"]]
                res.count("binary-between-actions:" + ("coordinates-differ" if a["labels"] != b["labels"] else "coordinates-equal"))
        rows = obs["rowsA"]
        for r in rows:
            if r["nin"]:
                res.nontrivial_keys.add((r["comp"], r["name"], k))
        cn = {}
        for r in rows:
            if not r["key"].startswith("lib:"):
                cn.setdefault(r["cname"], set()).add(r["key"])
        res.count("program:callables-sharing-a-name:" + str(min(3, max([len(v) for v in cn.values()] or [0]))) )
        if len(res.samples) < 3 and len(rows) > 6:
            res.samples.append({"ops": [o["op"] for o in prog["ops"]], "nodes": len(rows), "names": [r["name"][:20] + "..." for r in rows[:4]],
                                "callables": sorted(cn)[:6]})
        try:
            for build, rws in (("A", obs["rowsA"]), ("B", obs["rowsB"])):
                order = all_nodes(obs[build]["actions"])
                ids = {id(n): i for i, n in enumerate(order)}
                name_terms.append(names_case(rws, obs[build]["groups"], ids))
                name_meta.append(prog)
            term, n = ops_case(prog, obs["A"])
            op_terms.append(term)
            op_meta.append(prog)
            res.count("heap-model-steps", n)
        except ValueError as e:
            res.disagree(f"case cannot be written as a Coq term: {e}", stored(prog))
    r, logs = coq_results("C14", HEADER, name_terms, "check_names", shard=ctx.n(40, 100), tag="names")
    res.corr_checked += len(r)
    for ok, prog in zip(r, name_meta):
        if ok is not True:
            res.disagree("Coq model of node naming disagrees with earthkit.workflows.fluent (name prefix, from_source label, or which nodes share a digest)" +
                         ("" if ok is False else " (cases file did not compile: " + (logs[0][-400:] if logs else "") + ")"), stored(prog))
            break
    r, logs = coq_results("C14", HEADER, op_terms, "check_ops", shard=ctx.n(40, 100), tag="ops")
    res.corr_checked += len(r)
    for ok, prog in zip(r, op_meta):
        if ok is not True:
            res.disagree("Coq heap model of fluent operations disagrees with earthkit.workflows.fluent (returned action, or the array of some action after an operation)" +
                         ("" if ok is False else " (cases file did not compile: " + (logs[0][-400:] if logs else "") + ")"), stored(prog))
            break


def shrink(ctx, f):
    """shortest prefix of the operations that still fails with the same signature"""
    case = f["case"]
    for n in range(len(case.get("ops", [])) + 1):
        c = {**case, "ops": [dict(o) for o in case["ops"][:n]]}
        try:
            _, fails = run_program(c)
        except Exception:
            continue
        hit = [x for x in fails if x[0] == f["signature"]]
        if hit:
            return {"signature": f["signature"], "what": hit[0][1], "case": stored(c)}
    return f


def search(ctx, res):
    rng = random.Random(f"C14:{ctx.seed}:search")
    for k in range(ctx.n(1500, 6000)):
        prog = gen_program(rng)
        try:
            _, fails = run_program(prog, rng, nops=rng.choice([3, 6, 9, 12]))
        except Exception as e:
            return {"signature": "harness-cannot-drive-fluent-api", "what": repr(e), "case": stored(prog)}
        if fails:
            return shrink(ctx, {"signature": fails[0][0], "what": fails[0][1], "case": stored(prog)})
    return None


def replay(ctx, case):
    c = case.get("case", case)
    if not isinstance(c, dict) or "sources" not in c:
        return {"fails": None, "note": "no concrete input stored (proof / correspondence breakage): re-run ./check C14"}
    _, fails = run_program({"sources": c["sources"], "pool": c["pool"], "ops": [dict(o) for o in c.get("ops", [])]})
    sig = case.get("signature")
    hit = [f for f in fails if sig is None or f[0] == sig]
    return {"fails": bool(hit), "failures": [list(f) for f in fails[:5]]}
