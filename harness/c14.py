"""C14 -- fluent node names identify computations; operations leave operands intact.

Generator: a fluent *program*: one or two from_source arrays (shared sources; callables with equal
__name__ and different code / closure values / defaults / nested code, lambdas, callable objects
without __name__ (several objects of one class, of two classes, with and without a __repr__ of their
own), methods bound to such objects (one method on two receivers, two methods of one receiver,
inherited methods, classmethods, staticmethods), functools.lru_cache / update_wrapper'ed wrappers around
closures, closures over objects and over other closures, builtins, functools.partial, the same callable
in several cells; static arguments that are objects) and a sequence of operations chosen while
the program runs (map with the same or different callables and statics, reductions with and without
batching, two-argument arithmetic between actions whose coordinate values differ, join, stack /
concatenate, select, transform with functions that return the action they were given, expand,
broadcast, flatten).  Every program carries two designed pairs of callables that differ in ONE
ingredient of their identity (receiver, closure content, default, wrapped function ...) and ends by
mapping each of them over the same action with the same statics, followed by operations whose nodes differ
in the ORDER of their inputs only (x op y and y op x, a reduction over join(x, y) and over join(y, x)).
A program may HOLD objects and hand them to several operations: a Payload (or an instance of a Payload subclass), a
functools.partial, or the list and dict it makes its Payloads from -- one object for both builds (a module-level constant)
or one per build; given to map (1 input per node), to payload arrays, to reduce (as many inputs as the dimension is long, up
to 5), to batched reductions with batches of different length (3 + 2, 2 + 2 + 1), to transform, and to from_source cells
(no input); every such program ends with a held object applied to nodes with one input, then many, then one again; plus an
exhaustive small scope (every form x two operations in a row).
Every program also writes one sub-computation TWICE (x.op(...) two times: map, reduce, named reduction, scalar arithmetic, expand,
broadcast; equal names, distinct node objects), optionally puts something different on top of each copy, and combines the two in
ONE action (binary, or join and a reduction): the graph of that single action reaches two nodes of one name.  Then
Cascade.from_actions is called on SOME of the program's actions, each time on a further build nothing has de-duplicated yet
(de-duplication rewires the nodes it is given in place): one action (mostly the one just described), one action given twice, the
same action of two builds, two or three actions, a random subset or multiset, all, none -- as a list, a tuple or an iterator; plus
an exhaustive small scope (nine programs that write a sub-computation twice x eleven ways of handing the actions over).
Every program is built TWICE from
its recorded spec, with freshly created function objects / bound methods / objects with a __repr__
(objects without one are the program's own and shared by the two builds: their address is their
identity).
Oracle (direct reading of the property on the real objects):
  * over all node objects of both builds, one name <-> one computation, where the computation is
    judged by the harness' own record (which callable spec, which statics, which inputs) -- never
    by the implementation's names;
  * both builds give the same names, cell by cell;
  * Cascade.from_actions over the actions of both builds has pairwise distinct node names, keeps
    name -> computation, and serialises;
  * the same for Cascade.from_actions over any selection of the actions of a build (however many, however handed over): pairwise
    distinct names, serialise() gives one entry per node and no input outside the graph, exactly the names reachable from the
    selected actions, each with the callable / statics / number of inputs / outputs it was built with, the actions untouched;
  * every action that existed before an operation has the same dims, coordinates and node objects
    after it (also when the operation raised);
  * every node, right after it was built, holds the callable arguments its author declared (the harness' own record; for
    Payloads the library makes: what their constructor was given) plus one placeholder per input of its own, and
    still holds exactly that at the end of the first build, after the second build and after the union: the payload a
    name was hashed from is the payload the node has.
Correspondence: (a) per build, what every node was built from + the observed names -> Coq
(NamesCheck.check_names: hashed strings of the model vs. observed digests, name prefixes, from_source
labels); (b) the operation sequence with the arrays of ALL actions after every operation -> Coq
(NamesCheck.check_ops: the heap model with aliasing and in-place primitives); (c) per program, what
every callable handed to the API is made of (module, qualified name, code and nested code constants,
defaults, closure contents, repr of the receiver / of the object: read off the Python objects here)
+ its __name__ + the digest in the name of Node(callable) -> Coq (CallableCheck.check_callables: equal
digest exactly for equal descriptions and names, i.e. the model Fluent/Callable.v of callable_id); (d) the log of every
Payload and Node construction of both builds, in order, with the Payload OBJECT each node was given, the observed name and
the arguments held right after the construction, and all list objects at the end -> Coq (NamesHeapCheck.check_build: the
heap machine Fluent/NamesHeap.v, where Payload.args is a reference and Payload.copy a parameter)."""
import functools
import hashlib
import json
import math
import operator
import os
import re
import random
import types
import warnings

from common import BUILD, cnat, clist, copt, cstr, coq_eval_file

TRUSTED = [
    "harness/c14.py: the harness' own identity of a callable (kind, name, body, closure value / default / wrapped callable, "
    "object or state of the receiver) and of a computation "
    "(callable, (type, repr) of statics, inputs); callables are created by exec of generated source; "
    "coordinate values and cells are compared through str() and through the tuple of node names",
]
ASSUMPTIONS = [
    "Fluent/NamesHeap.v: Payload.args is a reference to a list object, Payload.copy goes through the constructor, Node.__init__ appends placeholders to its copy in place "
    "and hashes the list as it is then; kwargs dicts are not written by the modelled code and are values; the construction log is taken by wrapping Node.__init__ / "
    "Payload.__init__ from outside (behaviour unchanged); callable identities and digests enter check_build through equality only (short injective aliases)",
    "Section hypotheses of Fluent/NamesProofs.v: custom_hash (SHA-256 hexdigest) is injective and prints hex digits only",
    "in Fluent/Names.v a callable is its callable_id digest; Fluent/Callable.v opens the digest (module, qualified name, code, defaults, "
    "closure contents, repr of the receiver / of a non-function): Section hypothesis there: CPython's repr of the list `parts` "
    "(str, None, tuple, list, dict) is injective; wf_callable/dig64: a repr is not itself 64 hex digits, '<recursive>' or '<empty>', "
    "function digests are 64 characters",
    "an object without a __repr__ of its own is identified by its address while it lives (the program's objects are shared by the two builds); "
    "an object with a __repr__ is identified by what that prints; function globals are not part of a callable's identity",
    "the names correspondence uses the harness' own callable identities and checks that the implementation separates exactly those; "
    "the callables correspondence reads the ingredients off the Python objects (types / inspect level) and checks the digests against the model",
    "wf_node: callable names, keyword names and str statics contain no quote / backslash, other statics print as one token without ' , ] }, "
    "output names are str(int); nested containers as static arguments are outside the model",
    "operand integrity: the model heap holds dims, coordinate labels, scalar coordinates and a token for the cells of every Action; "
    "results of array-building operations (map, reduce, broadcast, non-empty select) are taken from the observation (their content is property C13); "
    "aliasing, copies and in-place edits (_add_dimension, _squeeze_dimension, assignment to .nodes) are transcribed; "
    "attrs and the mutation of node.inputs by deduplicate_nodes are outside the model",
]

HEADER = """From Coq Require Import List String Ascii Bool Arith.
From EKW Require Import Fluent.Names Fluent.NamesCheck Fluent.Callable Fluent.CallableCheck.
Import ListNotations.
Open Scope string_scope.
Open Scope list_scope.
"""

HEADER_BUILD = """From Coq Require Import List String Ascii Bool Arith.
From EKW Require Import Fluent.Names Fluent.NamesHeap Fluent.NamesHeapCheck.
Import ListNotations.
Open Scope string_scope.
Open Scope list_scope.
"""

warnings.filterwarnings("ignore")

# ------------------------------------------------------------------------------ callables
# (append only: stored cases refer to bodies by index)
BODIES = ["x", "x + 1", "x * 2", "x - 1", "(x, 0)", "x + 1 if a else x", "x + 2",
          "(lambda y: y + 1)(x)", "(lambda y: y + 2)(x)", "[y for y in (x, 'a')]", "[y for y in (x, 'b')]"]
KBODIES = ["x + k", "x * k", "k"]
NAMES = ["f", "g", "op"]
# static values as written in a program spec (JSON); ["@f32", x] stands for numpy.float32(x),
# ["@obj", cls, i] for the program's i-th object of a class without __repr__, ["@robj", k] for _Rp(k)
STATICS = [0, 1, -3, 2.5, True, None, "a", "x y", "input0", "input1", 10 ** 12,
           "1", "None", "True", "2.5", ["@f32", 2.5], "a, b", "p=1", "-3",
           ["@obj", "Op", 0], ["@obj", "Op", 1], ["@obj", "Op2", 0], ["@robj", 1], ["@robj", 2], "Rp(1)"]
# values that are different but print alike under str() (not under repr)
TWINS = [[1, "1"], [None, "None"], [True, "True"], [2.5, "2.5", ["@f32", 2.5]], [-3, "-3"], [0, "0"], [10 ** 12, "1000000000000"],
         [["@robj", 1], "Rp(1)"]]


class _Op:
    """callable object: no __name__, default repr; its methods are payloads too"""

    def __init__(self, k=0):
        self.k = k

    def __call__(self, x=0, *a, **kw):
        return x

    def apply(self, x=0, *a, **kw):
        return x * self.k

    def other(self, x=0, *a, **kw):
        return x + self.k

    @classmethod
    def cm(cls, x=0, *a, **kw):
        return x

    @staticmethod
    def sm(x=0, *a, **kw):
        return x


class _Op2(_Op):
    """inherits every method: same functions, another class"""


class _Rp(_Op):
    """prints its state"""

    def __repr__(self):
        return f"Rp({self.k!r})"


class _Wrap:
    """class-based decorator: carries the names of the function it wraps (functools.update_wrapper)"""

    def __init__(self, f, k):
        functools.update_wrapper(self, f)
        self.k = k

    def __call__(self, x=0, *a, **kw):
        return self.__wrapped__(x) * self.k


CLS = {"Op": _Op, "Op2": _Op2, "Rp": _Rp}
METHS = ["apply", "other"]


def builtins_table():
    import numpy as np
    return {"abs": abs, "float": float, "neg": operator.neg, "pos": operator.pos, "sqrt": math.sqrt, "floor": math.floor,
            "negative": np.negative, "positive": np.positive}


def decode_static(v, instances=None):
    if isinstance(v, list) and len(v) == 2 and v[0] == "@f32":
        import numpy as np
        return np.float32(v[1])
    if isinstance(v, list) and len(v) == 3 and v[0] == "@obj":
        return instances.setdefault(("i", v[1], v[2]), CLS[v[1]](v[2]))
    if isinstance(v, list) and len(v) == 2 and v[0] == "@robj":
        return _Rp(v[1])
    return v


def twin_of(rng, v):
    for group in TWINS:
        if any(vkey(v) == vkey(g) for g in group):
            return rng.choice([g for g in group if vkey(g) != vkey(v)])
    return None


def spec_key(c):
    """the harness' identity of a callable"""
    k = c["kind"]
    if k in ("def", "lambda", "closure"):
        return json.dumps([k, c.get("name"), c.get("body"), c.get("k"), c.get("inst")])
    if k == "instance":
        return json.dumps([k, c.get("cls", "Op"), c["inst"]])               # the object
    if k == "method":
        return json.dumps([k, c["cls"], c["inst"], c["meth"]])              # the object and the function
    if k == "rinstance":
        return json.dumps([k, c["k"]])                                      # what the object prints
    if k == "rmethod":
        return json.dumps([k, c["k"], c["meth"]])
    if k == "classmethod":
        return json.dumps([k, c["cls"]])                                    # reached through the class or an object: one callable
    if k == "staticmethod":
        return json.dumps([k])                                              # one function, whatever it was reached through
    if k == "wrapped":
        return json.dumps([k, c["how"], spec_key(c["inner"]), c["w"]])      # the wrapper object
    if k == "default":
        return json.dumps([k, c["name"], c["where"], c["k"]])
    if k == "oclosure":
        return json.dumps([k, c["name"], spec_key(c["target"])])
    if k == "builtin":
        return json.dumps([k, c["which"]])
    raise ValueError(k)


def cid_token(key):
    return hashlib.sha256(key.encode()).hexdigest()


def spec_cname(c):
    k = c["kind"]
    if k in ("def", "closure", "default", "oclosure"):
        return c.get("name")
    if k == "lambda":
        return "<lambda>"
    if k in ("instance", "rinstance"):
        return ""
    if k in ("method", "rmethod"):
        return c["meth"]
    if k == "classmethod":
        return "cm"
    if k == "staticmethod":
        return "sm"
    if k == "wrapped":
        return spec_cname(c["inner"])
    if k == "builtin":
        return builtins_table()[c["which"]].__name__
    raise ValueError(k)


class World:
    """the callables of one build; `instances` (objects without __repr__, wrapper objects) are shared between the builds of a case"""

    def __init__(self, instances, held_specs=(), rec=None):
        self.instances = instances
        self.by_id = {}
        self.held_specs, self.local, self.rec = list(held_specs), {}, rec

    def obj(self, cls, inst):
        return self.instances.setdefault(("i", cls, inst), CLS[cls](inst))

    def make(self, c):
        k = c["kind"]
        if k == "instance":
            fn = self.obj(c.get("cls", "Op"), c["inst"])
        elif k == "method":
            fn = getattr(self.obj(c["cls"], c["inst"]), c["meth"])
        elif k == "rinstance":
            fn = _Rp(c["k"])
        elif k == "rmethod":
            fn = getattr(_Rp(c["k"]), c["meth"])
        elif k in ("classmethod", "staticmethod"):
            base = CLS[c["cls"]] if c.get("via", "class") == "class" else self.obj(c["cls"], 0)
            fn = base.cm if k == "classmethod" else base.sm
        elif k == "wrapped":
            slot = ("w", spec_key(c))
            if slot not in self.instances:
                inner = self.make(c["inner"])
                self.instances[slot] = functools.lru_cache(maxsize=None)(inner) if c["how"] == "lru" else _Wrap(inner, c["w"])
            fn = self.instances[slot]
        elif k == "builtin":
            fn = builtins_table()[c["which"]]
        else:
            ns = {"__name__": "c14gen"}
            if k == "def":
                exec(f"def {c['name']}(x=0, *a, **kw):\n    return {BODIES[c['body']]}\nfn = {c['name']}\n", ns)
            elif k == "lambda":
                exec(f"fn = lambda x=0, *a, **kw: {BODIES[c['body']]}\n", ns)
            elif k == "default":
                sig = f"x=0, k={c['k']!r}, *a, **kw" if c["where"] == "pos" else f"x=0, *a, k={c['k']!r}, **kw"
                exec(f"def {c['name']}({sig}):\n    return x + k\nfn = {c['name']}\n", ns)
            elif k == "oclosure":
                ns["target"] = self.make(c["target"])
                exec(f"def mk(o):\n    def {c['name']}(x=0, *a, **kw):\n        return o(x)\n    return {c['name']}\nfn = mk(target)\n", ns)
            else:
                exec(f"def mk(k):\n    def {c['name']}(x=0, *a, **kw):\n        return {KBODIES[c['body']]}\n    return {c['name']}\nfn = mk({c['k']!r})\n", ns)
            fn = ns["fn"]
        self.by_id[id(fn)] = (spec_key(c), spec_cname(c), fn)
        return fn

    def identify(self, fn):
        hit = self.by_id.get(id(fn))
        if hit is not None and hit[2] is fn:
            return hit[0], hit[1]
        # library callables (earthkit.workflows.backends.*): module-level functions
        return "lib:" + str(getattr(fn, "__module__", "")) + ":" + str(getattr(fn, "__qualname__", repr(fn))), getattr(fn, "__name__", "")


def gen_closure(rng):
    return {"kind": "closure", "name": rng.choice(NAMES), "body": rng.randrange(len(KBODIES)), "k": rng.choice([1, 2, 3, "s"])}


def gen_callable(rng):
    r = rng.random()
    if r < 0.22:
        return {"kind": "def", "name": rng.choice(NAMES), "body": rng.randrange(len(BODIES))}
    if r < 0.4:
        return {"kind": "lambda", "body": rng.randrange(len(BODIES))}
    if r < 0.62:
        return gen_closure(rng)
    if r < 0.69:
        return {"kind": "instance", "cls": rng.choice(["Op", "Op", "Op2"]), "inst": rng.randrange(3)}
    if r < 0.77:
        return {"kind": "method", "cls": rng.choice(["Op", "Op", "Op2"]), "inst": rng.randrange(3), "meth": rng.choice(METHS)}
    if r < 0.81:
        return {"kind": "rinstance", "k": rng.choice([1, 2, 3])}
    if r < 0.85:
        return {"kind": "rmethod", "k": rng.choice([1, 2, 3]), "meth": rng.choice(METHS)}
    if r < 0.88:
        return {"kind": rng.choice(["classmethod", "staticmethod"]), "cls": rng.choice(["Op", "Op2", "Rp"]), "via": rng.choice(["class", "inst"])}
    if r < 0.92:
        return {"kind": "wrapped", "how": rng.choice(["lru", "obj"]), "inner": gen_closure(rng), "w": rng.choice([2, 3])}
    if r < 0.95:
        return {"kind": "default", "name": rng.choice(NAMES), "where": rng.choice(["pos", "kw"]), "k": rng.choice([1, 2, "s"])}
    if r < 0.98:
        return {"kind": "oclosure", "name": rng.choice(NAMES), "target": rng.choice([
            {"kind": "instance", "cls": "Op", "inst": rng.randrange(2)}, {"kind": "rinstance", "k": rng.choice([1, 2])}, gen_closure(rng)])}
    return {"kind": "builtin", "which": rng.choice(sorted(builtins_table()))}


def gen_pair(rng):
    """two callables with equal __name__ that differ in ONE ingredient of their identity"""
    name, meth = rng.choice(NAMES), rng.choice(METHS)
    fam = rng.choice(["objects", "receivers", "receivers", "methods", "classes", "class-receivers", "printed-state", "printed-receivers",
                      "classmethods", "lru", "lru-body", "wrapper-state", "wrapper-inner", "defaults", "kwdefaults",
                      "closure-over-objects", "closure-over-printed", "closure-over-closures", "nested-code", "comprehension-consts"])
    clo = lambda k, body=0: {"kind": "closure", "name": name, "body": body, "k": k}
    pair = {
        "objects": [{"kind": "instance", "cls": "Op", "inst": 0}, {"kind": "instance", "cls": "Op", "inst": 1}],
        "receivers": [{"kind": "method", "cls": "Op", "inst": 0, "meth": meth}, {"kind": "method", "cls": "Op", "inst": 1, "meth": meth}],
        "methods": [{"kind": "method", "cls": "Op", "inst": 0, "meth": "apply"}, {"kind": "method", "cls": "Op", "inst": 0, "meth": "other"}],
        "classes": [{"kind": "instance", "cls": "Op", "inst": 0}, {"kind": "instance", "cls": "Op2", "inst": 0}],
        "class-receivers": [{"kind": "method", "cls": "Op", "inst": 0, "meth": meth}, {"kind": "method", "cls": "Op2", "inst": 0, "meth": meth}],
        "printed-state": [{"kind": "rinstance", "k": 1}, {"kind": "rinstance", "k": 2}],
        "printed-receivers": [{"kind": "rmethod", "k": 1, "meth": meth}, {"kind": "rmethod", "k": 2, "meth": meth}],
        "classmethods": [{"kind": "classmethod", "cls": "Op", "via": "class"}, {"kind": "classmethod", "cls": "Op2", "via": rng.choice(["class", "inst"])}],
        "lru": [{"kind": "wrapped", "how": "lru", "inner": clo(1), "w": 0}, {"kind": "wrapped", "how": "lru", "inner": clo(2), "w": 0}],
        "lru-body": [{"kind": "wrapped", "how": "lru", "inner": clo(1, 0), "w": 0}, {"kind": "wrapped", "how": "lru", "inner": clo(1, 1), "w": 0}],
        "wrapper-state": [{"kind": "wrapped", "how": "obj", "inner": clo(1), "w": 2}, {"kind": "wrapped", "how": "obj", "inner": clo(1), "w": 3}],
        "wrapper-inner": [{"kind": "wrapped", "how": "obj", "inner": clo(1), "w": 2}, {"kind": "wrapped", "how": "obj", "inner": clo(2), "w": 2}],
        "defaults": [{"kind": "default", "name": name, "where": "pos", "k": 1}, {"kind": "default", "name": name, "where": "pos", "k": 2}],
        "kwdefaults": [{"kind": "default", "name": name, "where": "kw", "k": 1}, {"kind": "default", "name": name, "where": "kw", "k": 2}],
        "closure-over-objects": [{"kind": "oclosure", "name": name, "target": {"kind": "instance", "cls": "Op", "inst": 0}},
                                 {"kind": "oclosure", "name": name, "target": {"kind": "instance", "cls": "Op", "inst": 1}}],
        "closure-over-printed": [{"kind": "oclosure", "name": name, "target": {"kind": "rinstance", "k": 1}},
                                 {"kind": "oclosure", "name": name, "target": {"kind": "rinstance", "k": 2}}],
        "closure-over-closures": [{"kind": "oclosure", "name": name, "target": clo(1)}, {"kind": "oclosure", "name": name, "target": clo(2)}],
        "nested-code": [{"kind": "def", "name": name, "body": 7}, {"kind": "def", "name": name, "body": 8}],
        "comprehension-consts": [{"kind": "lambda", "body": 9}, {"kind": "lambda", "body": 10}],
    }[fam]
    return fam, pair


# ------------------------------------------------------------------------------ observation helpers
def snap(a):
    """(dims, labels per dim, scalar coords, unlabeled dims, node names, node object ids)"""
    nodes = a.nodes
    dims = [str(d) for d in nodes.dims]
    labels, unl = {}, []
    for d in dims:
        if d in nodes.coords:
            labels[d] = [str(v) for v in nodes.coords[d].data.reshape(-1).tolist()]
        else:
            labels[d] = [str(i) for i in range(nodes.sizes[d])]
            unl.append(d)
    scal = {str(k): str(v.data.tolist()) for k, v in nodes.coords.items() if str(k) not in dims and v.ndim == 0}
    cells = list(nodes.data.flatten())
    names = [str(c) if not hasattr(c, "payload") else c.name for c in cells]
    return {"dims": dims, "labels": labels, "scal": scal, "unl": unl, "names": names, "ids": [id(c) for c in cells]}


def same_snap(a, b):
    return all(a[k] == b[k] for k in ("dims", "labels", "scal", "names", "ids"))


def vkey(v):
    return [type(v).__name__, repr(v)]


class Comps:
    """hash-consing of computations: (callable spec, statics, inputs)"""

    def __init__(self):
        self.ids = {}
        self.of_node = {}

    def comp(self, node, world, fnode_cls):
        hit = self.of_node.get(id(node))
        if hit is not None and hit[1] is node:
            return hit[0]
        func, args, kwargs = node.payload
        key, _ = world.identify(func)
        ins = []
        for iname, out in node.inputs.items():
            ins.append([iname, self.comp(out.parent, world, fnode_cls), out.name])
        k = json.dumps([key, [vkey(a) for a in args], sorted([kk, vkey(vv)] for kk, vv in kwargs.items()), ins, len(node.outputs)])
        cid = self.ids.setdefault(k, len(self.ids))
        self.of_node[id(node)] = (cid, node)
        return cid


def all_nodes(actions):
    """node objects reachable from the actions, parents first"""
    from earthkit.workflows.graph import Node as BaseNode
    seen, order = {}, []

    def visit(n):
        if id(n) in seen:
            return
        seen[id(n)] = n
        for out in n.inputs.values():
            visit(out.parent)
        order.append(n)
    for a in actions:
        for c in a.nodes.data.flatten():
            visit(c if isinstance(c, BaseNode) else c.parent)
    return order


# ------------------------------------------------------------------------------ construction log, caller-held objects
PLACEHOLDER = re.compile(r"input\d+")


class Recorder:
    """Every construction of a fluent Node while a program runs (Node.__init__ wrapped from outside, nothing of its
    behaviour changed): which Payload OBJECT it was given (objects are numbered at first sight, with what they held
    just before that construction), what the node's payload held right after the construction, and what the harness
    itself declared for the Payload objects it made.  One recorder per case: the objects a program holds live on
    from the first build to the second."""

    def __init__(self):
        self.log, self.plist, self.pobjs, self.declared, self.fails, self.build = [], [], {}, {}, [], "A"
        self.node_ix, self.created, self.events = {}, {}, []
        self.paused = False      # further builds of the program (for unions over some of its actions) are not logged

    def declare(self, obj, args, kwargs):
        self.declared[id(obj)] = (obj, list(args or []), dict(kwargs or {}))

    def declaration(self, given, Payload):
        """(args, kwargs) the author of the program wrote for what was handed to Node(...), None if the library made it"""
        if isinstance(given, Payload):
            for table in (self.declared, self.created):      # the harness' own record first; else what the constructor was given
                hit = table.get(id(given))
                if hit is not None and hit[0] is given:
                    return hit[1], hit[2]
            return None
        if isinstance(given, functools.partial):
            return list(given.args), dict(given.keywords)
        return [], {}

    def payload_entry(self, p):
        hit = self.pobjs.get(id(p))
        if hit is not None and hit["obj"] is p:
            return hit
        ent = {"ix": len(self.plist), "obj": p, "func": p.func, "args": list(p.args), "kwargs": dict(p.kwargs)}
        self.pobjs[id(p)] = ent
        self.plist.append(ent)
        self.events.append(("P", ent))
        return ent

    def install(self):
        from earthkit.workflows import fluent
        from earthkit.workflows.graph import Output
        rec, orig, Payload = self, fluent.Node.__init__, fluent.Payload

        def __init__(node, *a, **k):
            if rec.paused:
                return orig(node, *a, **k)
            given = a[0] if a else k.get("payload")
            inputs = a[1] if len(a) > 1 else k.get("inputs", [])
            ovr = a[3] if len(a) > 3 else k.get("name")
            ent = rec.payload_entry(given) if isinstance(given, Payload) else None
            orig(node, *a, **k)
            func, args, kwargs = node.payload
            try:
                seq = [inputs] if isinstance(inputs, (fluent.BaseNode, Output)) else list(inputs)
            except TypeError:
                seq = []
            as_out = [isinstance(x, Output) for x in seq]
            ins = [(rec.node_ix.get(id(out.parent)), out.name if pos < len(as_out) and as_out[pos] else None) for pos, out in enumerate(node.inputs.values())]
            e = {"node": node, "pix": None if ent is None else ent["ix"], "given": given, "func": func, "args0": list(args), "kw0": dict(kwargs),
                 "nin": len(node.inputs), "ovr": ovr, "build": rec.build, "ins": ins, "nout": a[2] if len(a) > 2 else k.get("num_outputs", 1)}
            rec.node_ix[id(node)] = len(rec.log)
            rec.log.append(e)
            rec.events.append(("N", e))
            rec.as_declared(e, Payload)
        self._orig, self._cls = orig, fluent.Node
        fluent.Node.__init__ = __init__
        porig = Payload.__init__

        def pinit(p, *a, **k):
            porig(p, *a, **k)
            if rec.paused:
                return
            rec.created[id(p)] = (p, list(p.args), dict(p.kwargs))      # a Payload made by the library (Payload(callable), Payload(backends.sum, ...))
        self._porig, self._pcls = porig, Payload
        Payload.__init__ = pinit

    def uninstall(self):
        self._cls.__init__ = self._orig
        self._pcls.__init__ = self._porig

    def as_declared(self, e, Payload):
        """the node just built holds the declared callable arguments and one placeholder per input of its own"""
        want = [f"input{x}" for x in range(e["nin"])]
        decl = self.declaration(e["given"], Payload)
        stored = e["args0"]
        if decl is None:
            ph = [a for a in stored if isinstance(a, str) and PLACEHOLDER.fullmatch(a)]
            if sorted(set(ph)) != sorted(want):
                self.fails.append(("node-payload-not-as-declared", f"a node with {e['nin']} input(s) built by the library ({getattr(e['func'], '__name__', '?')}) "
                                   f"holds the arguments {stored!r}: its placeholders are not those of its inputs"))
            return
        exp = list(decl[0])
        for w in want:
            if not any(isinstance(x, str) and x == w for x in exp):
                exp.append(w)
        if [vkey(v) for v in stored] != [vkey(v) for v in exp] or sorted([k, vkey(v)] for k, v in e["kw0"].items()) != sorted([k, vkey(v)] for k, v in decl[1].items()):
            self.fails.append(("node-payload-not-as-declared", f"a node with {e['nin']} input(s) was built from a payload declared with arguments {decl[0]!r} {decl[1]!r} "
                               f"but holds {stored!r} {e['kw0']!r} (build {e['build']})"))

    def still_as_built(self, when):
        """the payload of every node is what it was when the node got its name"""
        for e in self.log:
            func, args, kwargs = e["node"].payload
            if func is not e["func"] or [vkey(v) for v in args] != [vkey(v) for v in e["args0"]] or \
                    sorted([k, vkey(v)] for k, v in kwargs.items()) != sorted([k, vkey(v)] for k, v in e["kw0"].items()):
                return [("node-payload-changed-after-construction",
                         f"node {e['node'].name[:24]}... (build {e['build']}, {e['nin']} input(s)) was named for the arguments {e['args0']!r} {e['kw0']!r}; "
                         f"{when} its payload holds {list(args)!r} {dict(kwargs)!r}")]
        return []


HELD_FORMS = ["payload", "payload", "payload", "payload", "subpayload", "partial", "parts", "parts"]
_SUB = {}


def subpayload_cls(Payload):
    if Payload not in _SUB:
        class _SubPayload(Payload):
            """a Payload subclass with an attribute of its own"""
            note = "kept"
        _SUB[Payload] = _SubPayload
    return _SUB[Payload]


def held_object(world, j, Payload):
    """the j-th object the program keeps and re-uses: a Payload (or an instance of a subclass), a functools.partial, or
    the list and dict it makes its Payloads from.  scope program: one object for both builds (a module-level constant);
    scope build: one per build."""
    h = world.held_specs[j]
    store = world.instances if h.get("scope", "program") == "program" else world.local
    slot = ("held", j)
    if slot not in store:
        fn = world.make(h["fn"])
        args = None if h.get("args") is None else [decode_static(v, world.instances) for v in h["args"]]
        kwargs = None if h.get("kwargs") is None else {k: decode_static(v, world.instances) for k, v in h["kwargs"].items()}
        form = h["form"]
        if form == "payload":
            obj = Payload(fn, args, kwargs)
        elif form == "subpayload":
            obj = subpayload_cls(Payload)(fn, args, kwargs)
        elif form == "partial":
            obj = functools.partial(fn, *(args or []), **(kwargs or {}))
        else:
            obj = (list(args or []), dict(kwargs or {}))
        store[slot] = (obj, fn, args, kwargs)
    obj, fn, args, kwargs = store[slot]
    world.by_id[id(fn)] = (spec_key(h["fn"]), spec_cname(h["fn"]), fn)
    if h["form"] == "parts":
        obj = Payload(fn, obj[0], obj[1])
    if isinstance(obj, Payload) and world.rec is not None:
        world.rec.declare(obj, args, kwargs)
    return obj


def gen_held(rng, pool):
    h = {"fn": rng.choice(pool), "form": rng.choice(HELD_FORMS), "scope": rng.choice(["program", "program", "program", "build"])}
    q = rng.random()
    if q < 0.25:
        h["args"] = [rng.choice(STATICS)]
    elif q < 0.4:
        h["args"] = [rng.choice(["input0", "input1"]), rng.choice(STATICS)][: rng.choice([1, 2])]
    elif q < 0.6:
        h["kwargs"] = {rng.choice(["p", "q"]): rng.choice(STATICS)}
    return h


def choose_held_op(rng, snaps, nheld):
    """an operation that hands one of the program's held objects to the API: nodes with 1 input (map, payload array, transform),
    with as many inputs as a dimension is long (reduce), with several batches of different length (batched reduce)"""
    j = rng.randrange(nheld)
    i = rng.randrange(len(snaps))
    s = snaps[i]
    r = rng.random()
    if r < 0.4 or not s["dims"]:
        o = {"op": "map", "self": i, "held": j}
        if rng.random() < 0.1:
            o["yields"] = rng.choice([1, 2])
        return o
    if r < 0.8:
        long = [d for d in s["dims"] if len(s["labels"][d]) > 1]
        o = {"op": "reduce", "self": i, "held": j, "dim": rng.choice(long or s["dims"]), "keep": rng.random() < 0.15}
        if rng.random() < 0.35:
            o["batch"] = rng.choice([2, 3])
        return o
    if r < 0.92:
        return {"op": "maparray", "self": i, "cells": [{"held": rng.randrange(nheld)} if rng.random() < 0.6 else {"held": j} for _ in s["names"]]}
    return {"op": "transform", "self": i, "funcs": ["map", "map"][: rng.choice([1, 2])], "held": j, "dim": rng.choice(["t0", "t1"]), "axis": 0}


def arity_steps(rng, prog):
    """the end of a program that holds objects: one of them applied to nodes with ONE input, then to nodes with as many inputs
    as a dimension is long, then to nodes with one input again (each step looks at the arrays as they are at its turn)"""
    if not prog.get("held"):
        return []
    st = {"j": rng.randrange(len(prog["held"]))}

    def small(snaps):
        n = min(len(t["names"]) for t in snaps if t["names"])
        return rng.choice([ix for ix, t in enumerate(snaps) if len(t["names"]) == n])

    def map_one(snaps):
        st.setdefault("i", small(snaps))
        return {"op": "map", "self": st["i"], "held": st["j"], "probe": "arity"}

    def reduce_long(snaps):
        cands = [(len(t["labels"][d]), ix, d) for ix, t in enumerate(snaps) for d in t["dims"] if len(t["labels"][d]) > 1 and len(t["names"]) <= 12]
        if not cands:
            return None
        top = max(c[0] for c in cands)
        _, ix, d = rng.choice([c for c in cands if c[0] == top])
        o = {"op": "reduce", "self": ix, "held": st["j"], "dim": d, "keep": False, "probe": "arity"}
        if top >= 4 and rng.random() < 0.5:
            o["batch"] = rng.choice([b for b in (2, 3) if b < top])
        return o
    return [map_one, reduce_long, map_one]


# ------------------------------------------------------------------------------ running one program
REDUCERS = ["sum", "mean", "max", "min", "prod", "std"]
BINARY = ["add", "subtract", "multiply", "divide", "power"]


def make_payload(world, spec, Payload):
    if "held" in spec:
        return held_object(world, spec["held"], Payload)
    fn = world.make(spec["fn"])
    args, kwargs, via = spec.get("args"), spec.get("kwargs"), spec.get("via", "plain")
    args = None if args is None else [decode_static(v, world.instances) for v in args]
    kwargs = None if kwargs is None else {k: decode_static(v, world.instances) for k, v in kwargs.items()}
    if via == "partial":
        return functools.partial(fn, *(args or []), **(kwargs or {}))
    if args is None and kwargs is None:
        return fn
    p = Payload(fn, args, kwargs)
    if world.rec is not None:
        world.rec.declare(p, args, kwargs)
    return p


def vary(rng, prev, snaps, spec_pool, force=None):
    """a near copy of an earlier map/reduce: exactly one ingredient of the computation changed (or none)"""
    o = json.loads(json.dumps(prev))
    how = force or rng.choice(["same", "value", "value", "key", "fn", "fn", "order", "order", "self", "alike", "alike", "alike", "alike"])
    o["varied"] = how
    if how == "alike":
        # same callable, same inputs, a static argument replaced by a different value that PRINTS alike:
        # another type ("1" for 1), another grouping ("a, b" for "a", "b"), positional "p=1" for keyword p=1
        o.pop("via", None)
        args, kw = list(o.get("args") or []), dict(o.get("kwargs") or {})
        cands = [("arg", j) for j, v in enumerate(args) if twin_of(rng, v) is not None] + \
                [("kw", k) for k, v in kw.items() if twin_of(rng, v) is not None]
        if "a, b" in args:
            cands.append(("split", args.index("a, b")))
        if any(args[j:j + 2] == ["a", "b"] for j in range(len(args))):
            cands.append(("merge", next(j for j in range(len(args)) if args[j:j + 2] == ["a", "b"])))
        if kw and all(isinstance(v, (int, str)) and not isinstance(v, bool) for v in kw.values()):
            cands.append(("positional", None))
        if not cands:
            # nothing to twin yet: leave a twinnable near copy behind for later variations
            o["args"] = ["input0", rng.choice([1, None, 2.5, "a, b", True])]
            o["varied"] = "alike-seed"
            return o
        kind, at = rng.choice(cands)
        if kind == "arg":
            args[at] = twin_of(rng, args[at])
        elif kind == "kw":
            kw[at] = twin_of(rng, kw[at])
        elif kind == "split":
            args[at:at + 1] = ["a", "b"]
        elif kind == "merge":
            args[at:at + 2] = ["a, b"]
        else:
            if "input0" not in args:
                args = args + ["input0"]      # where Node.__init__ would have put the placeholder
            args += [f"{k}={v}" for k, v in kw.items()]
            kw = {}
        o["args"], o["kwargs"] = (args or None), (kw or None)
        if o["args"] is None:
            o.pop("args")
        if o["kwargs"] is None:
            o.pop("kwargs")
        return o
    if how == "value":
        if o.get("kwargs"):
            k = rng.choice(sorted(o["kwargs"]))
            o["kwargs"][k] = rng.choice([v for v in STATICS if vkey(v) != vkey(o["kwargs"][k])])
        elif o.get("args"):
            j = rng.randrange(len(o["args"]))
            o["args"][j] = rng.choice([v for v in STATICS if vkey(v) != vkey(o["args"][j])])
        else:
            o["kwargs"] = {"p": rng.choice(STATICS)}
    elif how == "key":
        kw = o.get("kwargs") or {"p": rng.choice(STATICS)}
        k = sorted(kw)[0]
        o["kwargs"] = {("q" if kk == k and k != "q" else "r" if kk == k else kk): vv for kk, vv in kw.items()}
        o.pop("via", None)
    elif how == "fn":
        twins = [c for c in spec_pool if spec_cname(c) == spec_cname(o["fn"]) and spec_key(c) != spec_key(o["fn"])]
        o["fn"] = rng.choice(twins) if twins else gen_callable(rng)
    elif how == "order":
        if o.get("args") and len(o["args"]) > 1:
            o["args"] = o["args"][::-1]
        elif o.get("kwargs") and len(o["kwargs"]) > 1:
            o["kwargs"] = dict(reversed(list(o["kwargs"].items())))
        else:
            o["args"] = [rng.choice(STATICS), "input0"]
            o.pop("via", None)
    elif how == "self":
        o["self"] = rng.randrange(len(snaps))
    if o["op"] == "reduce" and o["dim"] not in snaps[o["self"]]["dims"]:
        o["op"] = "map"
    return o


def choose_op(rng, snaps, spec_pool, earlier=()):
    """next operation, chosen on the current arrays"""
    prev = [o for o in earlier if o["op"] in ("map", "reduce") and o["self"] < len(snaps) and "held" not in o]
    twinnable = [o for o in prev if any(twin_of(rng, v) is not None or v == "a, b" for v in list(o.get("args") or []) + list((o.get("kwargs") or {}).values()))]
    if twinnable and rng.random() < 0.2:
        return vary(rng, rng.choice(twinnable), snaps, spec_pool, force="alike")
    if prev and rng.random() < 0.25:
        rich = [o for o in prev if len(o.get("args") or []) > 1 or o.get("kwargs")]
        return vary(rng, rng.choice(rich if rich and rng.random() < 0.5 else prev), snaps, spec_pool)
    i = rng.randrange(len(snaps))
    s = snaps[i]
    dims = s["dims"]
    lab = [d for d in dims if d not in s["unl"]]
    r = rng.random()
    fn = lambda: rng.choice(spec_pool) if rng.random() < 0.75 else gen_callable(rng)
    if r < 0.2 or not dims:
        o = {"op": "map", "self": i, "fn": fn()}
        q = rng.random()
        if q < 0.3:
            o["args"] = [rng.choice(["input0", "input0", 1]), rng.choice(STATICS)][: rng.choice([1, 2, 2])]
        elif q < 0.45:
            o["kwargs"] = {rng.choice(["p", "q"]): rng.choice(STATICS)}
            if rng.random() < 0.5:
                o["kwargs"][rng.choice(["q", "r"])] = rng.choice(STATICS)
        elif q < 0.55:
            o["args"], o["via"] = [rng.choice(STATICS)], "partial"
        if rng.random() < 0.12:
            o["yields"] = rng.choice([1, 2])
        return o
    if r < 0.3:
        return {"op": "reduce", "self": i, "fn": fn(), "dim": rng.choice(dims), "keep": rng.random() < 0.2}
    if r < 0.4:
        d = rng.choice(dims)
        return {"op": "named", "self": i, "which": rng.choice(REDUCERS), "dim": d, "batch": rng.choice([0, 0, 2, 3, 3]), "keep": rng.random() < 0.15}
    if r < 0.55:
        same = [j for j, t in enumerate(snaps) if t["dims"] == dims and [len(t["labels"][d]) for d in dims] == [len(s["labels"][d]) for d in dims]]
        differ = [j for j in same if snaps[j]["labels"] != s["labels"]]
        if differ and rng.random() < 0.6:
            return {"op": "binary", "self": i, "which": rng.choice(BINARY), "other": rng.choice(differ)}
        if same and rng.random() < 0.8:
            return {"op": "binary", "self": i, "which": rng.choice(BINARY), "other": rng.choice(same)}
        return {"op": "binary", "self": i, "which": rng.choice(BINARY), "scalar": rng.choice([2, 0.5, 3])}
    if r < 0.63:
        j = rng.randrange(len(snaps))
        d = rng.choice(dims) if rng.random() < 0.7 else "j" + str(rng.randrange(2))
        return {"op": "join", "self": i, "other": j, "dim": d, "match": rng.random() < 0.5}
    if r < 0.73 and lab:
        return {"op": rng.choice(["stack", "concatenate"]), "self": i, "dim": rng.choice(lab), "keep": rng.random() < 0.3}
    if r < 0.81:
        q = rng.random()
        if q < 0.25:
            crit = {}
        elif q < 0.5 and s["scal"]:
            k = rng.choice(sorted(s["scal"]))
            crit = {k: "@scalar"}
        else:
            d = rng.choice(lab) if lab else rng.choice(dims)
            crit = {d: "@label" + str(rng.randrange(len(s["labels"][d])))}
        return {"op": "select", "self": i, "crit": crit, "drop": rng.random() < 0.5}
    if r < 0.91:
        n = rng.choice([1, 1, 2, 3])
        funcs = [rng.choice(["self", "self", "selempty", "map"]) for _ in range(n)]
        d = rng.choice(["t0", "t1"] + lab) if rng.random() < 0.8 else ["tc", [10 + k for k in range(n)]]
        return {"op": "transform", "self": i, "funcs": funcs, "fn": fn(), "dim": d, "axis": rng.randrange(len(dims) + 1)}
    if r < 0.95:
        return {"op": "expand", "self": i, "dim": rng.choice(["e0", "e1"]), "size": rng.choice([1, 2, 3]), "axis": rng.randrange(len(dims) + 1)}
    if r < 0.98:
        return {"op": "broadcast", "self": i, "other": rng.randrange(len(snaps))}
    return {"op": "flatten", "self": i, "dim": rng.choice(dims)}


def coord_value(action, d, token):
    if token == "@scalar":
        return action.nodes.coords[d].data.tolist()
    if isinstance(token, str) and token.startswith("@label"):
        return action.nodes.coords[d].data.tolist()[int(token[6:])] if d in action.nodes.coords else int(token[6:])
    return token


def apply_op(o, actions, world):
    from earthkit.workflows.fluent import Payload
    a = actions[o["self"]]
    k = o["op"]
    if k == "map":
        y = o.get("yields")
        return a.map(make_payload(world, o, Payload), yields=("y", list(range(y))) if y else None)
    if k == "maparray":
        import numpy as np
        cells = np.empty(a.nodes.shape, dtype=object)
        for pos, spec in zip(np.ndindex(*a.nodes.shape), o["cells"]):
            cells[pos] = make_payload(world, spec, Payload)
        return a.map(cells)
    if k == "reduce":
        p = make_payload(world, o, Payload)
        if o.get("batch"):
            try:
                getattr(p, "func", p).batchable = True      # (bound methods, builtins ... refuse: the API then refuses the batching)
            except (AttributeError, TypeError):
                pass
            return a.reduce(p, dim=o["dim"], keep_dim=o["keep"], batch_size=o["batch"])
        return a.reduce(p, dim=o["dim"], keep_dim=o["keep"])
    if k == "named":
        return getattr(a, o["which"])(dim=o["dim"], batch_size=o["batch"], keep_dim=o["keep"])
    if k == "binary":
        return getattr(a, o["which"])(actions[o["other"]] if "other" in o else o["scalar"])
    if k == "join":
        return a.join(actions[o["other"]], o["dim"], match_coord_values=o["match"])
    if k in ("stack", "concatenate"):
        return getattr(a, k)(o["dim"], keep_dim=o["keep"])
    if k == "select":
        crit = {d: coord_value(a, d, v) for d, v in o["crit"].items()}
        return a.select(crit, drop=o["drop"])
    if k == "transform":
        fn = make_payload(world, {"held": o["held"]} if "held" in o else {"fn": o["fn"]}, Payload)
        funcs = {"self": lambda act, *p: act, "selempty": lambda act, *p: act.select({}), "map": lambda act, *p: act.map(fn)}
        n = len(o["funcs"])
        it = iter(o["funcs"])
        dim = o["dim"] if isinstance(o["dim"], str) else (o["dim"][0], list(o["dim"][1]))
        return a.transform(lambda act, *p: funcs[next(it)](act, *p), [(q,) for q in range(n)], dim, axis=o["axis"])
    if k == "expand":
        return a.expand(o["dim"], 0, dim_size=o["size"], axis=o["axis"])
    if k == "broadcast":
        return a.broadcast(actions[o["other"]])
    if k == "flatten":
        return a.flatten(dim=o["dim"])
    raise ValueError(k)


def probe_ops(rng, prog, snaps):
    """the designed pairs of the program, each member applied to the same action with the same statics
    (map or reduce; plain, with a static argument, with a keyword, as functools.partial): nodes that differ in their
    callable only.  On the action with the fewest cells: one or two nodes per probe."""
    out = []
    sizes = [len(t["names"]) for t in snaps]
    small = [ix for ix, n in enumerate(sizes) if n == min(x for x in sizes if x > 0)]
    for fam, pair in prog.get("pairs", []):
        i = rng.choice(small)
        shape = rng.choice(["plain", "plain", "args", "kwargs", "partial", "reduce"])
        for spec in pair:
            o = {"op": "map", "self": i, "fn": spec, "probe": fam}
            if shape == "args":
                o["args"] = ["input0", 1]
            elif shape == "kwargs":
                o["kwargs"] = {"p": 1}
            elif shape == "partial":
                o["args"], o["via"] = [1], "partial"
            elif shape == "reduce" and snaps[i]["dims"]:
                o.update({"op": "reduce", "dim": snaps[i]["dims"][0], "keep": False})
            out.append(o)
    return out


def swap_steps(rng, pool):
    """nodes that differ in the ORDER of their inputs only: x op y and y op x for two actions over the same coordinates,
    and one reduction over join(x, y) and over join(y, x).  Each step looks at the arrays as they are when its turn comes
    (None = not possible here, skipped)."""
    st = {}
    tag = "swapped-inputs"

    def pick(snaps):
        small = sorted(range(len(snaps)), key=lambda ix: (len(snaps[ix]["names"]), ix))
        cands = [(i, j) for i in small for j in small if i < j and snaps[i]["dims"] and snaps[i]["dims"] == snaps[j]["dims"]
                 and snaps[i]["labels"] == snaps[j]["labels"] and snaps[i]["scal"] == snaps[j]["scal"] and not snaps[i]["unl"]
                 and snaps[i]["names"] != snaps[j]["names"] and 0 < len(snaps[i]["names"]) <= 4]
        if not cands:
            return None
        st["x"], st["y"] = rng.choice(cands[:6])
        st["which"], st["dim"], st["fn"] = rng.choice(BINARY), snaps[st["x"]]["dims"][0], rng.choice(pool)
        return {"op": "binary", "self": st["x"], "which": st["which"], "other": st["y"], "probe": tag}

    def binary_back(snaps):
        return {"op": "binary", "self": st["y"], "which": st["which"], "other": st["x"], "probe": tag} if st else None

    def join_xy(snaps):
        if not st:
            return None
        st["n"] = len(snaps)
        return {"op": "join", "self": st["x"], "other": st["y"], "dim": st["dim"], "match": False, "probe": tag}

    def join_yx(snaps):
        return {"op": "join", "self": st["y"], "other": st["x"], "dim": st["dim"], "match": False, "probe": tag} if st else None

    def reduce_at(k):
        def step(snaps):
            if not st or len(snaps) < st["n"] + 2 or any(st["dim"] not in snaps[st["n"] + q]["dims"] for q in (0, 1)):
                return None
            return {"op": "reduce", "self": st["n"] + k, "fn": st["fn"], "dim": st["dim"], "keep": False, "probe": tag}
        return step
    return [pick, binary_back, join_xy, join_yx, reduce_at(0), reduce_at(1)]


TWICE = "rebuilt-twice"


def twice_steps(rng, pool):
    """the same sub-computation written out twice inside ONE program and then combined: m1 = x.op(...), m2 = x.op(...) (equal
    names, distinct node objects), optionally something different on top of each (l = m1 * 2, r = m2 ** 3), then both in one
    action (l + r, or join(l, r) and a reduction over it): the graph of that single action holds two nodes of one name."""
    st = {}

    def grown(snaps, by):
        return bool(st) and len(snaps) == st["n"] + by

    def again(snaps):
        small = [ix for ix, t in enumerate(snaps) if 0 < len(t["names"]) <= 4] or [ix for ix, t in enumerate(snaps) if t["names"]]
        if not small:
            return None
        i = rng.choice(small)
        s = snaps[i]
        r = rng.random()
        if r < 0.45 or not s["dims"]:
            o = {"op": "map", "self": i, "fn": rng.choice(pool)}
            q = rng.random()
            if q < 0.3:
                o["args"] = ["input0", rng.choice(STATICS)]
            elif q < 0.5:
                o["kwargs"] = {"p": rng.choice(STATICS)}
            elif q < 0.6:
                o["args"], o["via"] = [rng.choice(STATICS)], "partial"
        elif r < 0.6:
            o = {"op": "reduce", "self": i, "fn": rng.choice(pool), "dim": rng.choice(s["dims"]), "keep": True}
        elif r < 0.7:
            o = {"op": "named", "self": i, "which": rng.choice(REDUCERS), "dim": rng.choice(s["dims"]), "batch": rng.choice([0, 0, 2]), "keep": True}
        elif r < 0.8:
            o = {"op": "binary", "self": i, "which": rng.choice(BINARY), "scalar": rng.choice([2, 0.5, 3])}
        elif r < 0.9:
            o = {"op": "expand", "self": i, "dim": "e2", "size": rng.choice([1, 2]), "axis": 0}
        else:
            o = {"op": "broadcast", "self": i, "other": rng.randrange(len(snaps))}
        st.update({"n": len(snaps), "o": o, "tops": rng.choice([0, 0, 1, 2]), "how": rng.choice(["binary", "binary", "join", "join-reduce"]),
                   "which": rng.choice(BINARY), "fn": rng.choice(pool)})
        return {**json.loads(json.dumps(o)), "probe": TWICE}

    def once_more(snaps):
        if not grown(snaps, 1):
            st.clear()
            return None
        st["l"] = st["n"]
        return {**json.loads(json.dumps(st["o"])), "probe": TWICE}

    def top_l(snaps):
        if not grown(snaps, 2):
            st.clear()
            return None
        st["r"] = st["n"] + 1
        if st["tops"] < 1:
            return None
        st["exp_l"] = len(snaps)
        return {"op": "binary", "self": st["l"], "which": "power", "scalar": 2, "probe": TWICE}

    def top_r(snaps):
        if not st:
            return None
        if "exp_l" in st and len(snaps) == st["exp_l"] + 1:
            st["l"] = st["exp_l"]
        if st["tops"] < 2:
            return None
        st["exp_r"] = len(snaps)
        return {"op": "binary", "self": st["r"], "which": "multiply", "scalar": 3, "probe": TWICE}

    def combine(snaps):
        if not st or "r" not in st:
            return None
        if "exp_r" in st and len(snaps) == st["exp_r"] + 1:
            st["r"] = st["exp_r"]
        st["m"] = len(snaps)
        if st["how"] == "binary" or not snaps[st["l"]]["dims"]:
            return {"op": "binary", "self": st["l"], "which": st["which"], "other": st["r"], "probe": TWICE}
        return {"op": "join", "self": st["l"], "other": st["r"], "dim": snaps[st["l"]]["dims"][0], "match": False, "probe": TWICE}

    def reduce_joined(snaps):
        if not st or st.get("how") != "join-reduce" or "m" not in st or len(snaps) != st["m"] + 1 or not snaps[st["m"]]["dims"]:
            return None
        return {"op": "reduce", "self": st["m"], "fn": st["fn"], "dim": snaps[st["m"]]["dims"][0], "keep": False, "probe": TWICE}
    return [again, once_more, top_l, top_r, combine, reduce_joined]


def gen_unions(rng, prog, nact):
    """which actions of the program are handed to Cascade.from_actions, and how: ONE action (first of all the one that holds a
    sub-computation twice), one action twice, the same action of two builds, two actions, some, all, none; as a list, a tuple or
    an iterator.  fresh = on a build of its own (de-duplication rewires the nodes it is given in place)."""
    if nact == 0:
        return []
    form = lambda: rng.choice(["list", "list", "tuple", "iter", "plus", "iadd"])
    dup = [t for t, o in enumerate(prog["ops"]) if o.get("probe") == TWICE]
    out = []
    one = {"sel": [nact - 1 if dup and rng.random() < 0.7 else rng.randrange(nact)], "form": form(), "fresh": True}
    out.append(one)
    i = rng.randrange(nact)
    out.append({"sel": [i, i], "form": form(), "fresh": False})
    r = rng.random()
    if r < 0.2:
        i = rng.randrange(nact)
        out.append({"sel": [i], "other": [i], "form": form(), "fresh": True})
    elif r < 0.4:
        out.append({"sel": [rng.randrange(nact), rng.randrange(nact)], "form": form(), "fresh": True})
    elif r < 0.5:
        out.append({"sel": [nact - 1 - k for k in range(min(nact, rng.choice([1, 2, 3])))], "form": form(), "fresh": True})
    k = rng.choice([0, 1, 2, 3, nact, nact])
    out.append({"sel": sorted(rng.sample(range(nact), min(k, nact))) if rng.random() < 0.7 else [rng.randrange(nact) for _ in range(k)], "form": form(), "fresh": False})
    return out


def union_check(sel, form, world, label):
    """Cascade.from_actions over the actions `sel` (as a list / tuple / iterator): pairwise distinct node names, serialisable,
    exactly the names that are reachable from the actions, each for the computation it was built for, no input that leaves
    the graph, and the actions themselves untouched."""
    from earthkit.workflows import Cascade
    from earthkit.workflows.graph import serialise
    fails = []

    def ident(n):
        func, args, kwargs = n.payload
        return (world.identify(func)[0], [vkey(a) for a in args], sorted([kk, vkey(vv)] for kk, vv in kwargs.items()), len(n.inputs), list(n.outputs))
    want = {}
    reach = all_nodes(sel)
    for n in reach:
        want.setdefault(n.name, ident(n))
    before = [snap(a) for a in sel]
    given = list(sel) if form == "list" else tuple(sel) if form == "tuple" else (a for a in sel)
    try:
        if form in ("plus", "iadd") and len(sel) >= 2:
            # the union taken cascade by cascade: from_actions of each action, joined with + or +=
            cas = Cascade.from_actions([sel[0]])
            for a in sel[1:]:
                other = Cascade.from_actions([a])
                if form == "plus":
                    cas = cas + other
                else:
                    cas += other
        else:
            cas = Cascade.from_actions(given)
        gnodes = list(cas._graph.nodes())
        names = [n.name for n in gnodes]
        if len(names) != len(set(names)):
            dup = next(x for x in names if names.count(x) > 1)
            # through + / += this is a recorded open finding of its own (known_findings.json): keep the signatures apart
            sig = "cascade-add-keeps-duplicate-names" if form in ("plus", "iadd") else "union-keeps-duplicate-names"
            fails.append((sig, f"Cascade.from_actions over {label} has {len(names)} nodes but {len(set(names))} names, e.g. {dup[:24]}..."))
        else:
            ser = serialise(cas._graph)
            if sorted(ser) != sorted(names) or any((i if isinstance(i, str) else i[0]) not in ser for v in ser.values() for i in v.get("inputs", {}).values()):
                fails.append(("union-keeps-duplicate-names", f"the serialised Cascade.from_actions over {label} has {len(ser)} entries for {len(names)} nodes, or an input outside the graph"))
        for n in gnodes:
            if n.name in want and ident(n) != want[n.name]:
                fails.append(("union-changed-computation", f"node {n.name[:24]}... of Cascade.from_actions over {label} is not the computation that was built under this name"))
                break
        if set(names) - set(want):
            fails.append(("union-changed-computation", f"Cascade.from_actions over {label} has {len(set(names) - set(want))} node name(s) that no node of these actions had"))
        # `+` and `+=` also merge nodes whose payloads compare equal (the documented behaviour of deduplicate_nodes for
        # graphs of any origin): with callables whose == is laxer than identity that legitimately drops a name, so the
        # "no name lost" clause is judged for from_actions only
        if set(want) - set(names) and form not in ("plus", "iadd"):
            fails.append(("union-lost-nodes", f"Cascade.from_actions over {label} has {len(set(names))} names, the actions reach {len(want)}"))
    except AssertionError as e:
        fails.append(("cascade-add-keeps-duplicate-names" if form in ("plus", "iadd") else "union-keeps-duplicate-names", f"Cascade.from_actions / serialise over {label} raised AssertionError {e}"))
    after = [snap(a) for a in sel]
    if any(not same_snap(b, c) for b, c in zip(before, after)):
        fails.append(("operand-changed", f"Cascade.from_actions over {label} changed one of them"))
    return fails, len(reach) - len(want)


def run_unions(prog, instances, rec):
    """the unions of the program (prog['unions']), each on further builds of the program that nothing has de-duplicated yet"""
    fails, cur, done = [], None, []
    rewired = False               # + / += also merge by payload and rewire the nodes they are given in place: the next union starts from a build of its own
    world = World(instances)      # the callables of every build made here: de-duplication may leave a node of an earlier build in a later graph
    rec.paused = True
    try:
        for u in prog.get("unions", []):
            if cur is None or u.get("fresh") or rewired or u["form"] in ("plus", "iadd"):
                rewired = u["form"] in ("plus", "iadd")
                cur = run_build(prog, instances, light=True)
                world.by_id.update(cur["world"].by_id)
            acts = cur["actions"]
            if any(ix >= len(acts) for ix in u["sel"] + u.get("other", [])):
                continue      # (a shrunk case: the action is not built any more)
            sel = [acts[ix] for ix in u["sel"]]
            if u.get("other"):
                second = run_build(prog, instances, light=True)
                sel += [second["actions"][ix] for ix in u["other"]]
                world.by_id.update(second["world"].by_id)
            label = (f"{len(sel)} action(s) of the program (#{', #'.join(str(ix) for ix in u['sel'])}"
                     + (f" and #{', #'.join(str(ix) for ix in u['other'])} of another build" if u.get("other") else "") + f", given as {u['form']})")
            got, twice = union_check(sel, u["form"], world, label)
            done.append((u, len(sel), twice))
            fails += got[:1]
    finally:
        rec.paused = False
    return fails, done


def build_sources(prog, world):
    import numpy as np
    from earthkit.workflows.fluent import Payload, from_source
    actions, groups = [], []
    for src in prog["sources"]:
        shape = [len(src["coords"][d]) for d in src["dims"]]
        cells = np.empty(shape, dtype=object)
        for pos, spec in zip(np.ndindex(*shape), src["cells"]):
            cells[pos] = make_payload(world, spec, Payload)
        a = from_source(cells, dims=list(src["dims"]), coords={d: list(v) for d, v in src["coords"].items()})
        actions.append(a)
        groups.append([(id(a.nodes.data[pos]), str(tuple(int(p) for p in pos))) for pos in np.ndindex(*shape)])
    return actions, groups


def cell_fn(prog, c):
    return prog["held"][c["held"]]["fn"] if "held" in c else c["fn"]


def run_build(prog, instances, rng=None, nops=0, rec=None, light=False):
    """execute the program (generating its operations when rng is given).
    Returns observation dict; failures of operand integrity are collected in obs['fails']."""
    world = World(instances, prog.get("held", ()), rec)
    actions, groups = build_sources(prog, world)
    fails, steps = [], []
    if light:      # a further build of a recorded program, for its actions only: nothing is observed on the way
        for o in prog.get("ops", []):
            try:
                r = apply_op(o, actions, world)
            except Exception:
                continue
            if not any(a is r for a in actions):
                actions.append(r)
        return {"world": world, "actions": actions, "groups": groups, "init": [], "steps": [], "fails": []}
    init = [snap(a) for a in actions]
    ops = prog.setdefault("ops", [])
    pool = [cell_fn(prog, s) for src in prog["sources"] for s in src["cells"]] + prog["pool"]
    nheld = len(prog.get("held", ()))
    plan, t = None, -1
    while True:
        t += 1
        before = [snap(a) for a in actions]
        if rng is None:
            if t >= len(ops):
                break
        elif t < nops:
            ops.append(choose_held_op(rng, before, nheld) if nheld and rng.random() < 0.3 else choose_op(rng, before, pool, ops))
        else:
            # the end of every generated program: the designed pairs, inputs in swapped order, a held object with 1 / n / 1 inputs
            if plan is None:
                plan = [(lambda snaps, o=o: o) for o in probe_ops(rng, prog, before)] + swap_steps(rng, pool) + arity_steps(rng, prog) + twice_steps(rng, pool)
            o = None
            while plan and o is None:
                o = plan.pop(0)(before)
            if o is None:
                break
            ops.append(o)
        o = ops[t]
        try:
            r = apply_op(o, actions, world)
            err = None
        except Exception as e:      # the fluent API refuses many combinations (mismatched coordinates ...): not C14's business
            r, err = None, type(e).__name__
        after = [snap(a) for a in actions]
        for ix, (b, c) in enumerate(zip(before, after)):
            if not same_snap(b, c):
                what = "dims/coords" if (b["dims"], b["labels"], b["scal"]) != (c["dims"], c["labels"], c["scal"]) else "node array"
                fails.append(("operand-changed", f"{o['op']} changed the {what} of an existing action (#{ix}, {'self' if ix == o['self'] else 'other operand' if ix == o.get('other') else 'bystander'}): "
                              f"{b['dims']} {b['labels']} {b['scal']} -> {c['dims']} {c['labels']} {c['scal']}"))
        if err is None:
            slot = next((ix for ix, a in enumerate(actions) if a is r), None)
            if slot is None:
                actions.append(r)
                slot = len(actions) - 1
            steps.append({"t": t, "slot": slot, "before": before, "after": [snap(a) for a in actions]})
        else:
            steps.append({"t": t, "err": err})
    return {"world": world, "actions": actions, "groups": groups, "init": init, "steps": steps, "fails": fails}


def node_table(obs, comps):
    """everything the node objects of a build were made from"""
    from earthkit.workflows.fluent import Node as FNode
    from earthkit.workflows.graph import Output
    world = obs["world"]
    order = all_nodes(obs["actions"])
    index = {id(n): i for i, n in enumerate(order)}
    rows = []
    for n in order:
        func, args, kwargs = n.payload
        key, cname = world.identify(func)
        given = getattr(n, "_for_copy", (None, None))[1]
        if given is not None and not isinstance(given, (list, tuple)) and not hasattr(given, "__len__"):
            given = [given]
        ins = []
        for pos, (iname, out) in enumerate(n.inputs.items()):
            as_output = out.name != "0"
            try:
                as_output = isinstance(list(given)[pos], Output)
            except Exception:
                pass
            ins.append((index[id(out.parent)], out.name, as_output))
        # the arguments as handed to Node(...), before it appended the input placeholders (fallback: as stored)
        args_in = list(args)
        try:
            orig = n._for_copy[0]
            if isinstance(orig, functools.partial):
                args_in = list(orig.args)
            elif hasattr(orig, "to_tuple"):
                args_in = list(orig.args)
            elif callable(orig):
                args_in = []
        except Exception:
            pass
        rows.append({"name": n.name, "key": key, "cname": cname, "args": list(args), "args_in": args_in, "kwargs": dict(kwargs), "ins": ins,
                     "nin": len(n.inputs), "comp": comps.comp(n, world, FNode), "outputs": list(n.outputs)})
    return order, rows


def run_program(prog, rng=None, nops=0):
    """both builds + union, with every Node construction logged; returns (observations, failures)"""
    rec = Recorder()
    rec.install()
    try:
        return _run_program(prog, rng, nops, rec)
    finally:
        rec.uninstall()


def _run_program(prog, rng, nops, rec):
    from earthkit.workflows import Cascade
    from earthkit.workflows.graph import serialise
    instances = {}
    fails = []
    A = run_build(prog, instances, rng, nops, rec)
    late = rec.still_as_built("at the end of the first build")
    rec.build = "B"
    B = run_build(prog, instances, rec=rec)
    late = late or rec.still_as_built("after the second build of the program")
    fails += A["fails"]
    comps = Comps()
    orderA, rowsA = node_table(A, comps)
    orderB, rowsB = node_table(B, comps)
    # one name <-> one computation
    by_name = {}
    for r in rowsA + rowsB:
        by_name.setdefault(r["name"], {}).setdefault(r["comp"], r)
    for name, cs in by_name.items():
        if len(cs) > 1:
            x, y = list(cs.values())[:2]
            fails.append(("same-name-different-computation",
                          f"two nodes are both called {name[:24]}... : callable {x['key']} statics {x['args']} {x['kwargs']} vs callable {y['key']} statics {y['args']} {y['kwargs']}"
                          + (" (same callable and statics, different inputs)" if (x["key"], repr(x["args"]), repr(x["kwargs"])) == (y["key"], repr(y["args"]), repr(y["kwargs"])) else "")))
            break
    # same program, same names
    if len(A["actions"]) != len(B["actions"]) or [s.get("err") for s in A["steps"]] != [s.get("err") for s in B["steps"]]:
        fails.append(("same-program-different-behaviour", "the second build of the program did not behave like the first"))
    else:
        for ix, (a, b) in enumerate(zip(A["actions"], B["actions"])):
            na, nb = snap(a)["names"], snap(b)["names"]
            if na != nb:
                fails.append(("same-program-different-names", f"action #{ix} of the second build has other node names: {[x[:16] for x in na][:4]} vs {[x[:16] for x in nb][:4]}"))
                break
    # union of both builds
    before = [snap(a) for a in A["actions"] + B["actions"]]
    try:
        cas = Cascade.from_actions(A["actions"] + B["actions"])
        gnodes = list(cas._graph.nodes())
        names = [n.name for n in gnodes]
        if len(names) != len(set(names)):
            dup = next(x for x in names if names.count(x) > 1)
            fails.append(("union-keeps-duplicate-names", f"Cascade.from_actions over two builds of the program has {len(names)} nodes but {len(set(names))} names, e.g. {dup[:24]}..."))
        else:
            serialise(cas._graph)
        c2 = Comps()
        w = World(instances)
        w.by_id = {**A["world"].by_id, **B["world"].by_id}
        k2name = {}
        for n in gnodes:
            func, args, kwargs = n.payload
            k2name.setdefault(n.name, []).append((w.identify(func)[0], [vkey(a) for a in args], sorted([kk, vkey(vv)] for kk, vv in kwargs.items())))
        want = {r["name"]: (r["key"], [vkey(a) for a in r["args"]], sorted([kk, vkey(vv)] for kk, vv in r["kwargs"].items())) for r in rowsA + rowsB}
        for name, got in k2name.items():
            if name not in want or any(g != want[name] for g in got):
                fails.append(("union-changed-computation", f"node {name[:24]}... of the union is not the computation that was built under this name"))
                break
        # nodes of equal computation may be merged under one of their names (two sources with the same payload); no computation may vanish
        have = {json.dumps(g) for got in k2name.values() for g in got}
        if any(json.dumps(list(v)) not in have for v in want.values()):
            fails.append(("union-lost-nodes", f"a computation of the builds has no node in the union ({len(set(k2name))} names, the builds had {len(set(want))})"))
    except AssertionError as e:
        fails.append(("union-keeps-duplicate-names", f"Cascade.from_actions / serialise over two builds of the program raised AssertionError {e}"))
    after = [snap(a) for a in A["actions"] + B["actions"]]
    for ix, (b, c) in enumerate(zip(before, after)):
        if not same_snap(b, c):
            fails.append(("operand-changed", f"Cascade.from_actions changed action #{ix}"))
    # unions over SOME of the actions (one, one twice, two, the same of two builds, none ...), each on a build nothing has de-duplicated yet
    if rng is not None:
        prog["unions"] = gen_unions(rng, prog, len(A["actions"]))
    ufails, udone = run_unions(prog, instances, rec)
    fails += ufails
    fails += rec.fails[:1] + (late or rec.still_as_built("after Cascade.from_actions over both builds"))
    return {"A": A, "B": B, "rowsA": rowsA, "rowsB": rowsB, "rec": rec, "unions": udone}, fails


# ------------------------------------------------------------------------------ generator
def gen_program(rng):
    pool = [gen_callable(rng) for _ in range(rng.choice([2, 3, 4]))]
    # equal __name__, different closure value / body: always present
    base = rng.choice(NAMES)
    pool.append({"kind": "closure", "name": base, "body": 0, "k": 1})
    pool.append({"kind": "closure", "name": base, "body": 0, "k": 2})
    pool.append({"kind": "def", "name": base, "body": rng.randrange(len(BODIES))})
    pool.append({"kind": "lambda", "body": 1})
    pool.append({"kind": "lambda", "body": 2})
    pairs = [gen_pair(rng) for _ in range(2)]
    for _, pair in pairs:
        pool.extend(pair)
    sources = []
    dims = rng.choice([["x"], ["x"], ["x", "y"], ["y", "x"]])
    sizes = {d: rng.choice([1, 2, 2, 3]) for d in dims}
    if rng.random() < 0.3:
        sizes[rng.choice(dims)] = rng.choice([4, 5, 5])      # long enough for batches of different length (3 + 2, 2 + 2 + 1)
    held = [gen_held(rng, pool) for _ in range(rng.choice([1, 2, 2, 3]))] if rng.random() < 0.6 else []
    for sidx in range(rng.choice([1, 2, 2])):
        if sidx == 1 and rng.random() < 0.25:
            dims = rng.choice([["x"], ["z", "x"]])
            sizes = {d: sizes.get(d, rng.choice([1, 2])) for d in dims}
        shift = 0 if sidx == 0 or rng.random() < 0.3 else 10 * sidx      # coordinate values differ between the sources
        coords = {d: [shift + k for k in range(sizes[d])] for d in dims}
        ncell = 1
        for d in dims:
            ncell *= sizes[d]
        cells = []
        for _ in range(ncell):
            c = {"fn": rng.choice(pool)}
            q = rng.random()
            if held and q > 0.85:
                c = {"held": rng.randrange(len(held))}      # the held object also is a source payload (a node without inputs)
            elif q < 0.2:
                c["args"] = [rng.choice(STATICS)]
            elif q < 0.3:
                c["args"], c["via"] = [rng.choice(STATICS)], "partial"
            cells.append(c)
        sources.append({"dims": list(dims), "coords": coords, "cells": cells})
    return {"sources": sources, "pool": pool, "pairs": pairs, "held": held}


# ------------------------------------------------------------------------------ Coq terms
def cval(v):
    if isinstance(v, str):
        if "'" in v or "\\" in v:
            raise ValueError("string outside the model: " + repr(v))
        return f"(VStr {cstr(v)})"
    if isinstance(v, (bool, int, float)) or v is None or type(v).__module__ == "numpy" or isinstance(v, _Op):
        return f"(VAtom {cstr(repr(v))})"      # numpy scalars and the harness' objects print as one token too: np.float32(2.5), Rp(1)
    raise ValueError("static value outside the model: " + repr(v))


def split_name(name):
    base, _, digest = name.rpartition(":")
    return base, digest


def names_case(rows, groups, order_ids):
    table = {}
    for r in rows:
        table[cid_token(r["key"])] = r["cname"]
    nodes = []
    for r in rows:
        base, digest = split_name(r["name"])
        ins = clist([f"({cnat(p)}, {copt(o if as_out else None, cstr)})" for p, o, as_out in r["ins"]])
        kw = clist([f"({cstr(k)}, {cval(v)})" for k, v in r["kwargs"].items()])
        args = list(r["args_in"])
        nodes.append(f"NS {cstr(cid_token(r['key']))} {clist(args, cval)} {kw} {ins} {cstr(str(len(r['outputs'])))} {cstr(base)} {cstr(digest)}")
    gs = clist([clist([f"({cnat(order_ids[i])}, {cstr(ix)})" for i, ix in g]) for g in groups])
    tb = clist([f"({cstr(k)}, {cstr(v)})" for k, v in table.items()])
    return f"({tb}, {clist(nodes)}, {gs})"


# ------------------------------------------------------------------------------ what a callable is made of -> Coq
def dv_obj(obj, path):
    """describe(obj): a value found in constants, defaults or closure cells"""
    if isinstance(obj, types.CodeType):
        return dv_code(obj, path)
    if isinstance(obj, types.FunctionType):
        return "DRec" if id(obj) in path else dv_callable(obj, path)
    return f"(DRepr {cstr(repr(obj))})"


def dv_code(code, path):
    return (f"(DCode {cstr(code.co_code.hex())} {clist(list(code.co_names), cstr)} {clist(list(code.co_varnames), cstr)} "
            f"{clist([dv_obj(c, path) for c in code.co_consts])})")


def ostr(x):
    if x is not None and not isinstance(x, str):
        raise ValueError("module / qualified name outside the model: " + repr(x))
    return copt(x, cstr)


def dv_callable(fn, path=()):
    """the ingredients of the identity of a callable, read off the object (types level)"""
    mod, qn = getattr(fn, "__module__", None), getattr(fn, "__qualname__", None)
    inner = getattr(fn, "__func__", fn)
    if not isinstance(inner, types.FunctionType):
        return f"(DOther {ostr(mod)} {ostr(qn)} {cstr(repr(fn))})"
    path = path + (id(fn),)
    closure = []
    for cell in inner.__closure__ or ():
        try:
            closure.append(dv_obj(cell.cell_contents, path))
        except ValueError:
            closure.append("DEmpty")
    kwd = inner.__kwdefaults__ or {}
    return (f"(DFunc {ostr(mod)} {ostr(qn)} {dv_code(inner.__code__, path)} {clist([dv_obj(x, path) for x in inner.__defaults__ or ()])} "
            f"{clist(list(kwd), cstr)} {clist([dv_obj(v, path) for v in kwd.values()])} {clist(closure)} {cstr(repr(getattr(fn, '__self__', None)))})")


def callables_case(worlds):
    """every callable handed to the API in the builds of a program: (description, __name__, digest of the name of Node(callable))"""
    from earthkit.workflows.fluent import Node as FNode
    seen, rows = set(), []
    for w in worlds:
        for key, cname, fn in w.by_id.values():
            name = FNode(fn).name
            base, digest = split_name(name)
            term = f"({dv_callable(fn)}, {cstr(base)}, {cstr(digest)})"
            if term not in seen:
                seen.add(term)
                rows.append(term)
    return clist(rows), len(rows)


def build_case(obs):
    """the construction log of both builds for NamesHeapCheck.check_build: Payload objects at first sight (with what the
    harness declared for them, else what their constructor was given), Node constructions with the observed name and the
    arguments held right after, and all list objects at the end of the case"""
    from earthkit.workflows.fluent import Payload
    rec = obs["rec"]
    w = World({})
    w.by_id = {**obs["A"]["world"].by_id, **obs["B"]["world"].by_id}
    table = {}

    alias = {}

    def short(kind, long):      # callable identities and digests enter the comparison through equality only: short injective aliases
        return alias.setdefault((kind, long), f"{kind}{len(alias)}")

    def ftok(func):
        key, cname = w.identify(func)
        tok = short("f", cid_token(key))
        table[tok] = cname
        return tok

    def ckw(kw):
        return clist([f"({cstr(k)}, {cval(v)})" for k, v in kw.items()])
    steps = []
    for kind, e in rec.events:
        if kind == "P":
            decl = rec.declaration(e["obj"], Payload) or (e["args"], e["kwargs"])
            steps.append(f"CP {cstr(ftok(e['func']))} {clist(decl[0], cval)} {ckw(decl[1])}")
            continue
        if any(p is None for p, _ in e["ins"]):
            raise ValueError("a node reads a node that was not built while the program ran")
        if e["pix"] is not None:
            src = f"(SPayload {cnat(e['pix'])})"
        else:
            decl = rec.declaration(e["given"], Payload)
            src = f"(SFunc {cstr(ftok(e['func']))} {clist(decl[0], cval)} {ckw(decl[1])})"
        base, digest = split_name(e["node"].name)
        ins = clist([f"({cnat(p)}, {copt(o, cstr)})" for p, o in e["ins"]])
        steps.append(f"CN {src} {copt(e['ovr'], cstr)} {ins} {cstr(str(e['nout']))} {cstr(base)} {cstr(short('d', digest))} {clist(e['args0'], cval)}")
    node_args = clist([clist(list(e["node"].payload[1]), cval) for e in rec.log])
    payload_args = clist([clist(list(ent["obj"].args), cval) for ent in rec.plist])
    tb = clist([f"({cstr(k)}, {cstr(v)})" for k, v in table.items()])
    return f"({tb}, {clist(steps)}, {node_args}, {payload_args})", len(rec.log)


class Cells:
    def __init__(self):
        self.t = {}

    def tok(self, names):
        return self.t.setdefault(tuple(names), len(self.t))


def carr(s, cells):
    dims = clist([f"({cstr(d)}, {clist(s['labels'][d], cstr)})" for d in s["dims"]])
    scal = clist([f"({cstr(k)}, {cstr(v)})" for k, v in sorted(s["scal"].items())])
    return f"(mkArr {dims} {scal} {cnat(cells.tok(s['names']))})"


def cop(o, step, cells):
    """Coq term of a successful operation, or None if the operation is outside the heap model"""
    before, after = step["before"], step["after"]
    res = after[step["slot"]]
    s = before[o["self"]]
    k = o["op"]
    if any(s["unl"]) and k in ("stack", "concatenate", "transform"):
        return None
    if k in ("map", "maparray", "reduce", "named", "broadcast", "flatten") or (k == "binary" and "other" not in o):
        others = [o["other"]] if "other" in o else []
        return f"OAtomic {cnat(o['self'])} {clist(others, cnat)} {carr(res, cells)}"
    if k == "binary":
        return f"OBinary {cnat(o['self'])} {cnat(o['other'])} {carr(res, cells)}"
    if k == "select":
        empty = all(d not in s["dims"] for d in o["crit"])      # a criterion on a dimension stays; @scalar criteria match by construction
        return f"OSelect {cnat(o['self'])} {'true' if empty else 'false'} {carr(res, cells)}"
    if k == "join":
        t = before[o["other"]]
        d = o["dim"]
        if s["dims"] != t["dims"] or d in s["scal"] or d in t["scal"] or s["unl"] or t["unl"] or s["scal"] != t["scal"]:
            # xr.concat broadcasts / merges here: the result array is taken from the observation
            return f"OAtomic {cnat(o['self'])} {clist([o['other']], cnat)} {carr(res, cells)}"
        return f"OJoin {cnat(o['self'])} {cnat(o['other'])} {cstr(d)} {'true' if o['match'] else 'false'} {cnat(cells.tok(res['names']))}"
    if k in ("stack", "concatenate"):
        return f"OCombine {cnat(o['self'])} {cstr(o['dim'])} {'true' if o['keep'] else 'false'} {carr(res, cells)}"
    if k in ("transform", "expand"):
        if k == "expand":
            funcs, d, vals = ["map"] * o["size"], o["dim"], [str(i) for i in range(o["size"])]
        else:
            funcs = o["funcs"]
            d, vals = (o["dim"], [str(i) for i in range(len(funcs))]) if isinstance(o["dim"], str) else (o["dim"][0], [str(v) for v in o["dim"][1]])
        if d in s["scal"]:
            return None
        final = cells.tok(res["names"])
        ps = []
        for f, v in zip(funcs, vals):
            tf = {"self": "TFSelf", "selempty": "(TFSelect true (mkArr [] [] 0))", "map": f"(TFMap {cnat(final)})"}[f]
            ps.append(f"({tf}, {cstr(v)}, {cnat(final)})")
        return f"OTransform {cnat(o['self'])} {clist(ps)} {cstr(d)} {cnat(o['axis'])}"
    return None


def ops_case(prog, obs):
    """the longest prefix of the program the heap model covers (failed operations are skipped: they create nothing)"""
    cells = Cells()
    init = clist([carr(s, cells) for s in obs["init"]])
    steps, n = [], 0
    for st in obs["steps"]:
        if "err" in st:
            continue
        o = prog["ops"][st["t"]]
        term = None if "probe" in o else cop(o, st, cells)      # the probes (plain map / reduce at the end) add nothing to the heap model
        if term is None:
            break
        steps.append(f"({term}, {cnat(st['slot'])}, {clist([carr(s, cells) for s in st['after']])})")
        n += 1
    return f"({init}, {clist(steps)})", n


# ------------------------------------------------------------------------------ evaluation in Coq
SHOW = ('Definition show (bs : list bool) : Coq.Strings.String.string := Coq.Strings.String.concat ""%string '
        '(List.map (fun b : bool => if b then "1"%string else "0"%string) bs).\n')


def coq_check_all(jobs, shard):
    """jobs = [(tag, case terms, checker)]: `checker case : bool` for every case, by vm_compute, all shards of all jobs in
    one pool of at most 8 coqc.  The cases are the argument of the Eval (not a Definition: nothing of them goes into a .vo);
    file names carry the process id, so that two runs of the check do not write each other's files.
    Returns {tag: ([True | False | None per case], [log lines])}; None = the shard did not compile."""
    from concurrent.futures import ThreadPoolExecutor
    d = BUILD / "C14"
    d.mkdir(parents=True, exist_ok=True)
    uniq = f"p{os.getpid()}"
    files = []
    for tag, terms, checker, *hdr in jobs:
        width = shard.get(tag, shard[""]) if isinstance(shard, dict) else shard
        for k in range(0, len(terms), width):
            chunk = terms[k:k + width]
            p = d / f"{tag}_{uniq}_{k // width}.v"
            p.write_text((hdr[0] if hdr else HEADER) + SHOW + f"Eval vm_compute in show (List.map ({checker}) [\n" + ";\n".join("  " + c for c in chunk) + "\n]).\n")
            files.append((tag, p, len(chunk)))
    out = {job[0]: ([], []) for job in jobs}
    try:
        with ThreadPoolExecutor(max_workers=int(os.environ.get("VERIF_COQ_JOBS", "8"))) as ex:
            outs = list(ex.map(lambda f: coq_eval_file(f[1], 600), files))
        for (tag, p, n), (rc, text) in zip(files, outs):
            m = re.search(r'=\s*"([01]*)"', text.replace("\n", "").replace(" ", "")) if rc == 0 else None
            if rc != 0 or not m or len(m.group(1)) != n:
                out[tag][0].extend([None] * n)
                out[tag][1].append(f"{p.name}: rc={rc} {text[-1500:]}")
            else:
                out[tag][0].extend(c == "1" for c in m.group(1))
    finally:
        for _, p, _ in files:
            for q in (p, p.with_suffix(".vo"), p.with_suffix(".vok"), p.with_suffix(".vos"), p.with_suffix(".glob"), p.parent / ("." + p.stem + ".aux")):
                try:
                    q.unlink()
                except OSError:
                    pass
    return out


# ------------------------------------------------------------------------------ driver
def arity_matrix():
    """small scope, exhaustive: one object the program holds (every form) handed to two operations in a row, each of them
    map (1 input per node), reduce over 5 (5 inputs), reduce in batches of 3 + 2 and of 2 + 2 + 1 -- and the program built twice"""
    f = {"kind": "def", "name": "f", "body": 0}
    g = {"kind": "def", "name": "g", "body": 1}
    kinds = [{"op": "map"}, {"op": "reduce", "dim": "x", "keep": False}, {"op": "reduce", "dim": "x", "keep": False, "batch": 3},
             {"op": "reduce", "dim": "x", "keep": False, "batch": 2}]
    out = []
    extras = ({}, {"args": [1]}, {"kwargs": {"p": 1}})
    for form in ("payload", "subpayload", "partial", "parts"):
        for a in kinds:
            for b in kinds:
                out.append({"sources": [{"dims": ["x"], "coords": {"x": [0, 1, 2, 3, 4]}, "cells": [{"fn": g, "args": [i]} for i in range(5)]}],
                            "pool": [f, g], "held": [{"fn": f, "form": form, "scope": "program", **extras[len(out) % 3]}],
                            "ops": [{"self": 0, "held": 0, **a}, {"self": 0, "held": 0, **b}]})
    return out


def dup_matrix():
    """small scope, exhaustive: a program that writes the same sub-computation twice (map, reduce, a named reduction, expand,
    broadcast; directly combined, with something different on top of each, joined and reduced) x how its LAST action is handed to
    Cascade.from_actions (alone as list / tuple / iterator, twice, with the same action of another build, with a source, with all
    actions) and the empty union"""
    f = {"kind": "def", "name": "f", "body": 0}
    g = {"kind": "closure", "name": "g", "body": 0, "k": 1}
    m = {"op": "map", "self": 0, "fn": f}
    mk = {"op": "map", "self": 0, "fn": g, "kwargs": {"p": 1}}
    rd = {"op": "reduce", "self": 0, "fn": g, "dim": "x", "keep": True}
    nm = {"op": "named", "self": 0, "which": "sum", "dim": "x", "batch": 2, "keep": True}
    ex = {"op": "expand", "self": 0, "dim": "e0", "size": 2, "axis": 0}
    bc = {"op": "broadcast", "self": 0, "other": 1}
    add = lambda i, j: {"op": "binary", "self": i, "which": "add", "other": j}
    sc = lambda i, w, v: {"op": "binary", "self": i, "which": w, "scalar": v}
    src = lambda n, sh, d="x": {"dims": [d], "coords": {d: [sh + k for k in range(n)]}, "cells": [{"fn": g, "args": [sh + i]} for i in range(n)]}
    bodies = []
    for o in (m, mk, rd, nm, ex):
        bodies.append((1, [o, o, add(1, 2)]))
    bodies.append((1, [m, m, sc(1, "power", 2), sc(2, "multiply", 3), add(3, 4)]))
    bodies.append((1, [m, m, {"op": "join", "self": 1, "other": 2, "dim": "x", "match": False}, {"op": "reduce", "self": 3, "fn": g, "dim": "x", "keep": False}]))
    bodies.append((1, [m, m, m, add(1, 2), add(4, 3)]))
    bodies.append((2, [bc, bc, add(2, 3)]))
    out = []
    for nsrc, ops in bodies:
        last = nsrc + len(ops) - 1
        unions = [{"sel": [last], "form": fm, "fresh": True} for fm in ("list", "tuple", "iter")]
        unions += [{"sel": [last, last], "form": "list", "fresh": True}, {"sel": [last], "other": [last], "form": "list", "fresh": True},
                   {"sel": [last, 0], "form": "list", "fresh": True}, {"sel": [0, last], "form": "iter", "fresh": True},
                   {"sel": list(range(last + 1)), "form": "tuple", "fresh": True}, {"sel": [], "form": "list", "fresh": True},
                   {"sel": [last - 1], "form": "list", "fresh": True}, {"sel": [last], "form": "list", "fresh": False}]
        out.append({"sources": [src(3, 0), src(2, 10, "y")][:nsrc], "pool": [f, g], "held": [],
                    "ops": [{**json.loads(json.dumps(o)), "probe": TWICE} for o in ops], "unions": unions})
    return out


def stored(prog):
    return {"sources": prog["sources"], "pool": prog.get("pool", []), "held": prog.get("held", []), "ops": prog.get("ops", []),      # (the probes are among the ops)
            "unions": prog.get("unions", [])}


def prog_of(c):
    return {"sources": c["sources"], "pool": c["pool"], "held": c.get("held", []), "ops": [dict(o) for o in c.get("ops", [])],
            "unions": [dict(u) for u in c.get("unions", [])]}


def count_unions(res, obs, prefix=""):
    for u, n, twice in obs["unions"]:
        res.count(f"{prefix}union-over:{min(n, 4)}{'+' if n > 4 else ''}-action(s):{u['form']}:" + ("reaches-two-nodes-of-one-name" if twice else "all-names-distinct-already"))
        if u.get("other"):
            res.count(prefix + "union-over:same-action-of-two-builds")
        elif len(u["sel"]) > len(set(u["sel"])):
            res.count(prefix + "union-over:an-action-given-twice")


def run(ctx, res):
    res.rule = ("one evaluation = one fluent operation (or from_source call) executed on the real API, in either build of a program; "
                "non-trivial = a node built by the program that has at least one input; distinct = distinct (computation, name) pairs, "
                "computations judged by the harness (callable spec, statics, inputs)")
    from common import load_corpus
    for path, stored_case in load_corpus("C14"):
        c = stored_case.get("case")
        if isinstance(c, dict) and "sources" in c:
            try:
                _, fails = run_program(prog_of(c))
            except Exception as e:
                fails = [("harness-cannot-drive-fluent-api", repr(e))]
            res.count("corpus-case")
            for sig, what in fails:
                res.fail(sig, what, c)
    for prog in arity_matrix():
        obs, fails = run_program(prog)
        res.count("small-scope:held-object-two-operations")
        res.evaluations += 2 * (1 + len(prog["ops"]))
        for sig, what in fails:
            res.fail(sig, what, stored(prog))
    for prog in dup_matrix():
        obs, fails = run_program(prog)
        res.count("small-scope:sub-computation-written-twice-x-union-forms")
        res.evaluations += 2 * (len(prog["sources"]) + len(prog["ops"])) + len(obs["unions"])
        count_unions(res, obs, "small-scope-")
        if [s for s in obs["A"]["steps"] if "err" in s] or not any(tw for u, n, tw in obs["unions"] if n == 1):
            res.disagree("harness: a small-scope program that writes a sub-computation twice did not run as designed "
                         "(an operation was refused, or no single action reaches two nodes of one name)", stored(prog))
        for sig, what in fails:
            res.fail(sig, what, stored(prog))
    rng = ctx.sub_rng("programs")
    nprog = ctx.n(160, 3200)
    name_terms, name_meta, op_terms, op_meta, call_terms, call_meta, build_terms, build_meta = [], [], [], [], [], [], [], []
    for k in range(nprog):
        prog = gen_program(rng)
        obs, fails = run_program(prog, rng, nops=rng.choice([3, 5, 7, 9]))
        for sig, what in fails:
            res.fail(sig, what, stored(prog))
        for build in ("A", "B"):
            res.evaluations += len(prog["sources"]) + len(obs[build]["steps"])
        for st, o in zip(obs["A"]["steps"], prog["ops"]):
            res.count("op:" + o["op"] + (":raised" if "err" in st else ""))
            if "varied" in o:
                res.count("near-copy-of-earlier-op:" + o["varied"])
            if o.get("probe") == "swapped-inputs":
                res.count("swapped-inputs:" + o["op"] + (":raised" if "err" in st else ""))
            if "err" not in st and st["slot"] < len(st["before"]):
                res.count("returned-an-existing-action")
            if o["op"] == "binary" and "other" in o and "err" not in st:
                a, b = st["before"][o["self"]], st["before"][o["other"]]
                res.count("binary-between-actions:" + ("coordinates-differ" if a["labels"] != b["labels"] else "coordinates-equal"))
        for fam, _ in prog.get("pairs", []):
            res.count("designed-pair:" + fam)
        res.evaluations += len(obs["unions"])
        count_unions(res, obs)
        for st, o in zip(obs["A"]["steps"], prog["ops"]):
            if o.get("probe") == TWICE:
                res.count("rebuilt-twice:" + o["op"] + (":raised" if "err" in st else ""))
        for o in prog["ops"]:
            if "fn" in o:
                res.count("callable-kind:" + o["fn"]["kind"])
            if "held" in o or o["op"] == "maparray":
                res.count("held-object-op:" + o["op"] + (":batched" if o.get("batch") else ""))
        for h in prog.get("held", []):
            res.count("held-object:" + h["form"] + ":" + h["scope"])
        rows = obs["rowsA"]
        for r in rows:
            if r["nin"]:
                res.nontrivial_keys.add((r["comp"], r["name"], k))
        cn = {}
        for r in rows:
            if not r["key"].startswith("lib:"):
                cn.setdefault(r["cname"], set()).add(r["key"])
        res.count("program:callables-sharing-a-name:" + str(min(3, max([len(v) for v in cn.values()] or [0]))) )
        if len(res.samples) < 3 and len(rows) > 6:
            res.samples.append({"ops": [o["op"] for o in prog["ops"]], "nodes": len(rows), "names": [r["name"][:20] + "..." for r in rows[:4]],
                                "callables": sorted(cn)[:6]})
        try:
            mine = []
            for build, rws in (("A", obs["rowsA"]), ("B", obs["rowsB"])):
                order = all_nodes(obs[build]["actions"])
                ids = {id(n): i for i, n in enumerate(order)}
                term = names_case(rws, obs[build]["groups"], ids)
                if term not in mine:        # the second build normally gives the very same term: checked once
                    mine.append(term)
                    name_terms.append(term)
                    name_meta.append(prog)
            term, n = ops_case(prog, obs["A"])
            op_terms.append(term)
            op_meta.append(prog)
            res.count("heap-model-steps", n)
            term, n = callables_case([obs["A"]["world"], obs["B"]["world"]])
            call_terms.append(term)
            call_meta.append(prog)
            res.count("callables-described", n)
            if prog.get("held") or k % 6 == 0:      # every program that holds objects, a sixth of the others
                term, n = build_case(obs)
                build_terms.append(term)
                build_meta.append(prog)
                res.count("node-constructions-replayed-on-the-heap-machine", n)
        except ValueError as e:
            res.disagree(f"case cannot be written as a Coq term: {e}", stored(prog))
    checked = coq_check_all([("names", name_terms, "check_names"), ("ops", op_terms, "check_ops"), ("callables", call_terms, "check_callables"),
                             ("build", build_terms, "check_build", HEADER_BUILD)],
                            shard={"": ctx.n(20, 100), "ops": ctx.n(40, 100), "callables": ctx.n(40, 100), "build": ctx.n(20, 60)})
    for tag, meta, what in (
            ("names", name_meta, "Coq model of node naming disagrees with earthkit.workflows.fluent (name prefix, from_source label, or which nodes share a digest)"),
            ("ops", op_meta, "Coq heap model of fluent operations disagrees with earthkit.workflows.fluent (returned action, or the array of some action after an operation)"),
            ("callables", call_meta, "Coq model of callable_id disagrees with earthkit.workflows.fluent (two callables made of different things -- code, defaults, "
                                     "closure contents, receiver, repr -- share the digest in a node name, or equal ones do not)"),
            ("build", build_meta, "Coq heap machine of node construction disagrees with earthkit.workflows.fluent on the construction log of a program (the arguments a node "
                                  "holds right after it was built or at the end of both builds, what a Payload object of the caller holds at the end, the part of a name "
                                  "before ':', or which constructions hashed the same string)")):
        r, logs = checked[tag]
        res.corr_checked += len(r)
        for ok, prog in zip(r, meta):
            if ok is not True:
                res.disagree(what + ("" if ok is False else " (cases file did not compile: " + (logs[0][-400:] if logs else "") + ")"), stored(prog))
                break


def without_op(case, t):
    """the case without operation t (later operations renumbered), or None if a later operation uses its result"""
    try:
        obs, _ = run_program({**case, "ops": [dict(o) for o in case["ops"]]})
    except Exception:
        return None
    st = obs["A"]["steps"][t]
    ops = [dict(o) for o in case["ops"]]
    made = None if "err" in st or st["slot"] < len(st["before"]) else st["slot"]
    rest = ops[t + 1:]
    unions = [dict(u) for u in case.get("unions", [])]
    if made is not None:
        if any(o.get(k) == made for o in rest for k in ("self", "other")):
            return None
        for o in rest:
            for k in ("self", "other"):
                if isinstance(o.get(k), int) and o[k] > made:
                    o[k] -= 1
        unions = [u for u in unions if made not in u["sel"] + u.get("other", [])]
        for u in unions:
            for k in ("sel", "other"):
                if k in u:
                    u[k] = [ix - 1 if ix > made else ix for ix in u[k]]
    return {**case, "ops": ops[:t] + rest, "unions": unions}


def shrink(ctx, f):
    """shortest prefix of the operations that still fails with the same signature, then without every operation
    the failure does not need"""
    def failing(c):
        try:
            _, fails = run_program({**c, "ops": [dict(o) for o in c["ops"]]})
        except Exception:
            return None
        hit = [x for x in fails if x[0] == f["signature"]]
        return hit[0][1] if hit else None
    case = {k: f["case"][k] for k in ("sources", "pool", "held", "ops", "unions") if k in f["case"]}
    case.setdefault("ops", [])
    best = None
    for n in range(len(case["ops"]) + 1):
        c = {**case, "ops": case["ops"][:n]}
        what = failing(c)
        if what:
            best = (c, what)
            break
    if best is None:
        return f
    for t in reversed(range(len(best[0]["ops"]))):
        c = without_op(best[0], t)
        what = failing(c) if c is not None else None
        if what:
            best = (c, what)
    for u in best[0].get("unions", []):
        c = {**best[0], "unions": [u]}
        what = failing(c)
        if what:
            best = (c, what)
            break
    return {"signature": f["signature"], "what": best[1], "case": stored(best[0])}


def search(ctx, res):
    rng = random.Random(f"C14:{ctx.seed}:search")
    for k in range(ctx.n(1500, 6000)):
        prog = gen_program(rng)
        try:
            _, fails = run_program(prog, rng, nops=rng.choice([3, 6, 9, 12]))
        except Exception as e:
            return {"signature": "harness-cannot-drive-fluent-api", "what": repr(e), "case": stored(prog)}
        if fails:
            return shrink(ctx, {"signature": fails[0][0], "what": fails[0][1], "case": stored(prog)})
    return None


def replay(ctx, case):
    c = case.get("case", case)
    if not isinstance(c, dict) or "sources" not in c:
        return {"fails": None, "note": "no concrete input stored (proof / correspondence breakage): re-run ./check C14"}
    _, fails = run_program(prog_of(c))
    sig = case.get("signature")
    hit = [f for f in fails if sig is None or f[0] == sig]
    return {"fails": bool(hit), "failures": [list(f) for f in fails[:5]]}
