"""C19 -- a job accepted by JobBuilder.build is well formed and carries the values given.

Generator: per case a POOL OF VALUE OBJECTS (builtin literals, subclasses of builtins, enum members, paths,
decimals, numpy arrays and scalars, dataclass / frozen dataclass / pydantic-model / plain instances, named
tuples, sets, ordered / default dicts, empty and large containers, containers that hold EARLIER pool objects,
a self-containing list), a FOREST of tasks (from_callable over generated signatures in several flavours --
def, lambda, bound method, callable object, staticmethod, partial; kept alive or dropped; the same callable
used again --, from_entrypoint, raw TaskInstance / TaskBuilder, and with_values derived from ANY earlier task,
so the same builder is extended several times and in several directions, with the same value objects bound
again and again, positionally and by keyword, also as defaults of the callable), and a TREE of derived job
builders (every op derives a new builder from any earlier one).  Every builder of the tree is built.
Oracle (direct reading of the property on the real objects): build never raises on in-domain input and
returns exactly one of job / non-empty problem list; an accepted job has exactly the nodes and edges given,
every edge is well formed with respect to the *generator's own* record of signatures and schemas; with_values
puts values under exactly the given positions / names -- the WHOLE value: class and every part, compared with
what the generator made, not with what the parent task reports -- and leaves every earlier task alone; the
task in the job still carries the callable it was made from; jobs, builders, tasks and value objects made
earlier never change.
Correspondence: the same forest / tree is evaluated by the Coq model (Low/Builders.v, values with parts)
and compared with everything observed (schemas, statics, job, number of problems, exception name)."""
import builtins
import itertools
import json
import os
import re
import sys
import types

from common import BUILD, cN, cZ, cnat, clist, copt, cstr, coq_eval_file

TRUSTED = [
    "harness/c19.py: generated source text of callables (exec) and the generator's record of their signature for every flavour "
    "(def / lambda / bound method / callable object / staticmethod / partial), the value pool and `canon` (how a Python value is "
    "written as a Coq value: atoms by class name and text, parts recursively; sets and dict items in a canonical order), "
    "the default `frum` of with_edge is written out as \"0\" in the Coq case",
]
ASSUMPTIONS = [
    "Section variables of Low/Builders.v: PyT, evalty (what eval(name) resolves to inside builders.py, None = NameError), "
    "isinst (isinstance), issub (issubclass); the theorems hold for every choice of them",
    "the correspondence instantiates them on the closed class set int,str,float,bool,bytes,list,dict,tuple,object plus the classes "
    "of the bound values (Low/BuildersCheck.v class_bases, compared with the real issubclass before every run); a Python value is "
    "its class, and its parts for sequences / mappings / instances with attributes; an atom (number, string, array, enum member, "
    "function ...) is opaque: class name and identity",
    "C19_build_never_raises assumes every declared type of every node is \"Any\" or resolvable by eval (the property's domain: builtin or absent annotations)",
    "persistence (building never mutates earlier jobs) is definitional in the functional model; for the implementation it is observed on every tree, not proved",
    "pydantic validation inside JobInstance(...) / Task2TaskEdge(...) and cloudpickle of the callable are not modelled",
    "Low/BuilderValues.v: `conv` (what a rebuild does to a value already held) is a Section variable; `flatten` is one concrete "
    "instance for examples, nothing is claimed about pydantic's own serialisation",
]

HEADER = """From Coq Require Import List String ZArith NArith.
From EKW Require Import Low.Builders Low.BuildersCheck.
Import ListNotations.
Open Scope string_scope.
"""

# ------------------------------------------------------------------------------ the module the value classes live in
_VSRC = '''
import collections, dataclasses, datetime, decimal, enum, fractions, functools, pathlib
from typing import Any
import numpy as np
from pydantic import BaseModel


@dataclasses.dataclass
class Area:
    north: Any
    south: Any = -90.0


@dataclasses.dataclass(frozen=True)
class Grid:
    dx: Any = 1.0
    dy: Any = 1.0


class Req(BaseModel):
    param: Any = "2t"
    step: Any = 0


class Plain:
    def __init__(self, **kw):
        self.__dict__.update(kw)


class Anything:
    """equal to everything (as unittest.mock.ANY)"""
    def __eq__(self, other):
        return True

    def __ne__(self, other):
        return False

    def __hash__(self):
        return 7


NT = collections.namedtuple("NT", "a b")


class MyList(list):
    pass


class MyDict(dict):
    pass


class MyInt(int):
    pass


class MyStr(str):
    pass


class Col(enum.Enum):
    R = 1
    G = 2


class Lvl(enum.IntEnum):
    LO = 1
    HI = 2


def cyc():
    l = [1]
    l.append(l)
    return l
'''
_VMOD = None


def vmod():
    global _VMOD
    if _VMOD is None:
        m = types.ModuleType("c19vals")
        sys.modules["c19vals"] = m          # importable: cloudpickle refers to the classes by name
        exec(_VSRC, m.__dict__)
        for n in ("Area", "Grid", "Req", "Plain", "Anything", "NT", "MyList", "MyDict", "MyInt", "MyStr", "Col", "Lvl"):
            getattr(m, n).__module__ = "c19vals"
        _VMOD = m
    return _VMOD


BUILTIN = ["int", "str", "float", "bool", "bytes", "list", "dict", "tuple", "object"]
# the Coq table Low/BuildersCheck.v class_bases: proper builtin bases (other than object) of the classes of bound values
CLASS_BASES = {("bool", "int"), ("MyInt", "int"), ("Lvl", "int"), ("MyStr", "str"), ("float64", "float"), ("MyList", "list"),
               ("MyDict", "dict"), ("OrderedDict", "dict"), ("defaultdict", "dict"), ("NT", "tuple")}

# sources of values; `_vK` inside a source = the K-th value object of the same case (the SAME object, not a copy)
PLAIN_ATOMS = ["0", "1", "-5", "1099511627776", "True", "False", "'a'", "''", "'int'", "1.5", "b'x'", "None"]
PLAIN_CONT = ["[1, 2]", "{'k': 1}", "(1, 2)"]
ODD_ATOMS = ["float('nan')", "float('inf')", "-0.0", "1j", "bytearray(b'y')", "...", "'x' * 300", "'\\u00e9\\n\"q\"'", "MyInt(3)", "MyStr('s')",
             "Col.R", "Col.G", "Lvl.HI", "pathlib.PurePosixPath('/x/y')", "decimal.Decimal('1.50')", "datetime.date(2020, 1, 2)",
             "datetime.timedelta(hours=6)", "fractions.Fraction(1, 3)", "np.float64(1.5)", "np.int32(7)", "np.bool_(True)", "np.arange(3)",
             "np.zeros((2, 2))", "np.array([])", "np.array([7])", "np.array(5.0)", "np.array(['a', 'b'])", "range(3)", "len", "int", "Area",
             "abs", "Anything()", "2 ** 70", "b''", "iter([1, 2])"]
EMPTY = ["[]", "{}", "()", "set()", "frozenset()", "MyList()", "MyDict()", "collections.OrderedDict()", "collections.defaultdict(list)", "Plain()"]
HASHABLE = ["0", "1", "'a'", "'k'", "None", "Col.R", "(1, 2)", "Grid(0.5, 0.5)", "1.5", "frozenset({1})", "Lvl.LO", "True", "b'x'"]
KEYS = ["'k'", "'north'", "'a'", "1", "0", "'0'", "''", "(1, 2)", "None", "Col.G"]
BIG = ["list(range(200))", "{str(i): i for i in range(60)}", "tuple('abc' * 20)", "[[i, [i]] for i in range(25)]", "np.arange(5000)", "b'z' * 4096"]
# values of the exhaustive (value, parameter type) matrix
MATRIX_VALUES = PLAIN_ATOMS + PLAIN_CONT + ["MyInt(3)", "MyStr('s')", "Col.R", "Lvl.HI", "np.float64(1.5)", "np.arange(3)", "MyList([1])", "MyDict(a=1)",
                                             "collections.OrderedDict(a=1)", "collections.defaultdict(list)", "NT(1, 2)", "Area(90.0)", "Grid()",
                                             "Req(param='t', step=6)", "Plain(a=1)", "{1, 2}", "frozenset({1})", "pathlib.PurePosixPath('/x')", "len", "int"]

NODE_NAMES = ["a", "b", "c", "t.1", "x y"]
PARAM_NAMES = ["x", "y", "z", "k", "i", "v", "w", "self", "cls", "f", "area", "definition", "static_input_kw", "update", "environment", "into", "_", "x1"]
TYS = BUILTIN + ["Any"]


# ------------------------------------------------------------------------------ values -> canonical description
def clsname(v):
    """the class of a value by name; a class that merely shares its name with a builtin (numpy.bool) is qualified"""
    t = type(v)
    n = t.__name__
    return n if t.__module__ == "builtins" or not hasattr(builtins, n) else t.__module__ + "." + n


def canon(v, stack=()):
    """a Python value as class + parts, without addresses: ["a", class, text] | ["s", class, items] |
    ["m", class, [[key, value]]] | ["o", kind, class, [[field, value]]]"""
    import dataclasses
    import enum
    import numpy as np
    from pydantic import BaseModel
    cls = clsname(v)
    if id(v) in stack:
        return ["a", cls, "<the container itself>"]
    st = stack + (id(v),)
    if isinstance(v, enum.Enum):
        return ["a", cls, v.name]
    if isinstance(v, np.ndarray):
        return ["a", cls, f"{v.dtype}{list(v.shape)}{v.tolist()!r}"]
    if v is None or v is Ellipsis or isinstance(v, (bool, int, float, complex, str, bytes, bytearray, range, np.generic)):
        return ["a", cls, repr(v)]
    if isinstance(v, type):
        return ["a", cls, v.__name__]
    if hasattr(v, "__next__"):                         # a one-shot iterator: what is left of it
        import operator
        return ["a", cls, f"{operator.length_hint(v, -1)} left"]
    if dataclasses.is_dataclass(v):
        return ["o", "dataclass", cls, [[f.name, canon(getattr(v, f.name, None), st)] for f in dataclasses.fields(v)]]
    if isinstance(v, BaseModel):
        return ["o", "pydantic", cls, [[k, canon(x, st)] for k, x in v.__dict__.items()]]
    if isinstance(v, (list, tuple)):
        return ["s", cls, [canon(x, st) for x in v]]
    if isinstance(v, (set, frozenset)):
        return ["s", cls, sorted((canon(x, st) for x in v), key=jdump)]
    if isinstance(v, dict):
        return ["m", cls, sorted(([canon(k, st), canon(x, st)] for k, x in v.items()), key=jdump)]
    if callable(v) and hasattr(v, "__qualname__"):
        return ["a", cls, v.__qualname__]
    if type(v).__repr__ is object.__repr__ and hasattr(v, "__dict__"):
        return ["o", "plain", cls, sorted([k, canon(x, st)] for k, x in vars(v).items())]
    r = repr(v)
    return ["a", cls, r if " at 0x" not in r else "<opaque>"]


def show(c, limit=160):
    """short human text of a canonical value"""
    if c[0] == "a":
        s = f"{c[2]}" if c[1] in ("int", "str", "float", "bool", "NoneType", "bytes") else f"{c[1]}<{c[2]}>"
    elif c[0] == "s":
        s = f"{c[1]}[" + ", ".join(show(x, 40) for x in c[2][:6]) + (", ..." if len(c[2]) > 6 else "") + "]"
    elif c[0] == "m":
        s = f"{c[1]}{{" + ", ".join(show(k, 30) + ": " + show(x, 40) for k, x in c[2][:6]) + (", ..." if len(c[2]) > 6 else "") + "}"
    else:
        s = f"{c[2]}(" + ", ".join(f"{k}={show(x, 40)}" for k, x in c[3][:6]) + f") [{c[1]} instance]"
    return s if len(s) <= limit else s[:limit] + "..."


def jdump(x):
    return json.dumps(x, sort_keys=True, default=str)


class Interner:
    """atoms get a number by (class, text); one table per run"""
    def __init__(self):
        self.t = {}

    def atom(self, cls, text):
        return self.t.setdefault((cls, text), len(self.t))


INTERN = Interner()
OKIND = {"dataclass": "ODataclass", "pydantic": "OPydantic", "plain": "OPlain"}


def cvalue(c, names=None):
    """canonical value -> Coq term; `names`: {json of a canonical value: name of a let-bound Coq variable}"""
    if names is not None and c[0] != "a":
        n = names.get(jdump(c))
        if n is not None:
            return n
    if c[0] == "a":
        return f"(V {cstr(c[1])} {cN(INTERN.atom(c[1], c[2]))})"
    if c[0] == "s":
        return f"(VSeq {cstr(c[1])} {clist([cvalue(x, names) for x in c[2]])})"
    if c[0] == "m":
        return f"(VMap {cstr(c[1])} {clist(['(' + cvalue(k, names) + ', ' + cvalue(x, names) + ')' for k, x in c[2]])})"
    return f"(VObj {OKIND[c[1]]} {cstr(c[2])} {clist(['(' + cstr(k) + ', ' + cvalue(x, names) + ')' for k, x in c[3]])})"


def make_values(case):
    """the value objects of a case, in order; later sources may refer to earlier objects as _vK"""
    ns = dict(vmod().__dict__)
    objs = []
    for i, src in enumerate(case["values"]):
        v = eval(src, ns)
        ns[f"_v{i}"] = v
        objs.append(v)
    return objs


def check_class_table():
    """Low/BuildersCheck.v c_issub must be the real issubclass on (class of a value, builtin name)"""
    bad = []
    srcs = sorted(set(PLAIN_ATOMS + PLAIN_CONT + ODD_ATOMS + EMPTY + HASHABLE + MATRIX_VALUES + BIG + ["NT(1, 2)", "Req()", "cyc()"]))
    ns = dict(vmod().__dict__)
    for src in srcs:
        v = eval(src, ns)
        c = clsname(v)
        for b in BUILTIN:
            model = c == b or b == "object" or (c, b) in CLASS_BASES
            if model != isinstance(v, getattr(builtins, b)):
                bad.append(f"isinstance({src}, {b}) is {not model}, the class table says {model}")
    return bad


# ------------------------------------------------------------------------------ specs -> python objects
def ann_src(a):
    k = a[0]
    return {"empty": None, "type": a[-1], "str": repr(a[-1]), "generic": a[-1] + "[int]", "none": "None", "custom": a[-1]}[k]


def ann_name(a):
    """the generator's own reading of the declared type"""
    return "Any" if a[0] == "empty" else ("<none>" if a[0] == "none" else a[-1])


def ann_in_domain(a):
    return a[0] == "empty" or (a[0] in ("type", "str", "generic") and a[-1] in BUILTIN)


def params_src(spec, lam=False):
    groups = {"posonly": [], "poskw": [], "varpos": [], "kwonly": [], "varkw": []}
    for p in spec["params"]:
        s = p["name"]
        if p["kind"] == "varpos":
            s = "*" + s
        if p["kind"] == "varkw":
            s = "**" + s
        a = None if lam else ann_src(p["ann"])
        if a is not None:
            s += ": " + a
        if p["default"] is not None:
            s += (" = " if a is not None else "=") + f"_v{p['default']}"
        groups[p["kind"]].append(s)
    parts = list(groups["posonly"])
    if groups["posonly"]:
        parts.append("/")
    parts += groups["poskw"]
    if groups["varpos"]:
        parts += groups["varpos"]
    elif groups["kwonly"]:
        parts.append("*")
    parts += groups["kwonly"] + groups["varkw"]
    return parts


def callable_src(spec, token):
    """source text that leaves the callable in `f`"""
    fl = spec.get("flavour", "def")
    r = ann_src(spec["ret"])
    ret = " -> " + r if r is not None else ""
    body = f"        {token!r}\n        return 0\n"
    if fl == "lambda":
        return "f = lambda " + ", ".join(params_src(spec, lam=True)) + ": 0\n"
    ps = params_src(spec)
    if fl in ("def", "partial"):
        s = "def f(" + ", ".join(ps) + ")" + ret + f":\n    {token!r}\n    return 0\n"
        return s + ("import functools\nf = functools.partial(f)\n" if fl == "partial" else "")
    if fl == "method":
        return "class C:\n    def f(" + ", ".join(["this"] + ps) + ")" + ret + ":\n" + body + "f = C().f\n"
    if fl == "callobj":
        return "class C:\n    def __call__(" + ", ".join(["this"] + ps) + ")" + ret + ":\n" + body + "f = C()\n"
    if fl == "static":
        return "class C:\n    @staticmethod\n    def f(" + ", ".join(ps) + ")" + ret + ":\n" + body + "f = C.f\n"
    raise ValueError(fl)


def doc_of(f):
    """the token written into the generated callable"""
    import functools
    if isinstance(f, functools.partial):
        f = f.func
    d = getattr(f, "__doc__", None)
    if isinstance(d, str) and d.startswith("tok-"):
        return d
    d = getattr(getattr(type(f), "__call__", None), "__doc__", None)
    return d if isinstance(d, str) and d.startswith("tok-") else None


class Env:
    """the live objects of one case"""
    def __init__(self, case):
        self.case = case
        self.values = make_values(case)
        self.vcanon = [canon(v) for v in self.values]          # taken BEFORE the implementation sees any of them
        self.funcs = {}                                          # task index -> the callable, kept alive when the spec says so
        self.tokens = {}                                         # task index -> token the task's callable must carry

    def realise(self, ix, objs):
        """task spec -> real object (raises what the implementation raises)"""
        from cascade.low.builders import TaskBuilder
        from cascade.low.core import TaskDefinition, TaskInstance
        te = self.case["tasks"][ix]
        k = te["kind"]
        V = self.values
        if k == "callable":
            tok = None if te.get("flavour") == "lambda" else f"tok-{next(_TOKENS)}"
            ns = {"__name__": "c19gen", "Foo": _odd()[0], "Bar": _odd()[1], **{f"_v{i}": v for i, v in enumerate(V)}}
            exec(callable_src(te, tok), ns)
            f = ns["f"]
            if te.get("keep"):
                self.funcs[ix] = f
            self.tokens[ix] = tok
            return TaskBuilder.from_callable(f, te["env"]) if te.get("env") is not None else TaskBuilder.from_callable(f)
        if k == "again":
            self.tokens[ix] = self.tokens.get(te["of"])
            return TaskBuilder.from_callable(self.funcs[te["of"]])
        if k == "entrypoint":
            return TaskBuilder.from_entrypoint("mod.fn", dict(te["ischema"]), te["out"])
        if k == "raw":
            d = TaskDefinition(entrypoint="mod.raw", func=None, environment=[], input_schema=dict(te["ischema"]), output_schema=dict(te["oschema"]))
            cls = TaskBuilder if te.get("builder") else TaskInstance
            return cls(definition=d, static_input_kw={n: V[i] for n, i in te["kw"]}, static_input_ps={n: V[i] for n, i in te["ps"]})
        if k == "with":
            base = objs[te["base"]]
            if base is None:
                raise LookupError("base task was not created")
            self.tokens[ix] = self.tokens.get(te["base"])
            return base.with_values(*[V[i] for i in te["args"]], **{n: V[i] for n, i in te["kwargs"]})
        raise ValueError(k)


_ODD = None
_TOKENS = itertools.count()


def _odd():
    global _ODD
    if _ODD is None:
        ns = {"__name__": "c19gen"}
        exec("class Foo:\n    pass\nclass Bar(Foo):\n    pass\n", ns)
        _ODD = (ns["Foo"], ns["Bar"])
    return _ODD


def root_of(tasks, ix):
    while tasks[ix]["kind"] in ("with", "again"):
        ix = tasks[ix]["base"] if tasks[ix]["kind"] == "with" else tasks[ix]["of"]
    return ix


def spec_schema(tasks, ix):
    """(input schema, output schema) as the generator knows them -- NOT via inspect"""
    te = tasks[root_of(tasks, ix)]
    k = te["kind"]
    if k == "callable":
        return ({p["name"]: ann_name(p["ann"]) for p in te["params"] if p["kind"] in ("poskw", "kwonly")}, {"0": ann_name(te["ret"])})
    if k == "entrypoint":
        return (dict(te["ischema"]), {"0": te["out"]})
    return (dict(te["ischema"]), dict(te["oschema"]))


def spec_statics(tasks, ix):
    """(keyword statics, positional statics) as {name: value index}, from the specs alone"""
    te = tasks[ix]
    k = te["kind"]
    if k == "callable":
        return ({p["name"]: p["default"] for p in te["params"] if p["kind"] in ("poskw", "kwonly") and p["default"] is not None}, {})
    if k == "again":
        return spec_statics(tasks, te["of"])
    if k == "entrypoint":
        return ({}, {})
    if k == "raw":
        return ({n: i for n, i in te["kw"]}, {n: i for n, i in te["ps"]})
    kw, ps = spec_statics(tasks, te["base"])
    kw, ps = dict(kw), dict(ps)
    kw.update({n: i for n, i in te["kwargs"]})
    ps.update({str(p): i for p, i in enumerate(te["args"])})
    return kw, ps


def te_in_domain(tasks, ix):
    te = tasks[root_of(tasks, ix)]
    if te["kind"] == "callable":
        return all(ann_in_domain(p["ann"]) for p in te["params"]) and ann_in_domain(te["ret"])
    i, o = spec_schema(tasks, ix)
    return all(t == "Any" or t in BUILTIN for t in list(i.values()) + list(o.values()))


def task_canon(t):
    import hashlib
    d = t.definition
    return {"ischema": dict(d.input_schema), "oschema": dict(d.output_schema),
            "kw": {k: canon(v) for k, v in t.static_input_kw.items()}, "ps": {k: canon(v) for k, v in t.static_input_ps.items()},
            "def": [d.entrypoint, hashlib.md5((d.func or "").encode()).hexdigest()[:10] if d.func else None, list(d.environment), bool(d.needs_gpu)]}


def job_canon(j):
    return {"tasks": {n: task_canon(t) for n, t in j.tasks.items()},
            "edges": [(e.source.task, e.source.output, e.sink_task, e.sink_input_kw, e.sink_input_ps) for e in j.edges],
            "serdes": dict(j.serdes), "ext": [repr(x) for x in j.ext_outputs]}


# ------------------------------------------------------------------------------ generator
def gen_value_src(rng, navail, depth=2):
    """source of one value; may refer to the first `navail` values of the case"""
    def part(hashable=False):
        r = rng.random()
        if hashable:
            return rng.choice(HASHABLE)
        if navail and r < 0.3:
            return f"_v{rng.randrange(navail)}"
        if depth > 0 and r < 0.45:
            return gen_value_src(rng, navail, depth - 1)
        if r < 0.8:
            return rng.choice(PLAIN_ATOMS + PLAIN_CONT)
        return rng.choice(ODD_ATOMS + EMPTY)
    form = rng.choice(["list", "tuple", "tuple1", "set", "frozenset", "dict", "dict", "MyList", "MyDict", "OrderedDict", "defaultdict", "NT",
                       "Area", "Area", "Area1", "Grid", "Req", "Req", "Plain", "cyc", "nested-obj"])
    if form == "list":
        return "[" + ", ".join(part() for _ in range(rng.randrange(1, 4))) + "]"
    if form == "tuple":
        return "(" + ", ".join(part() for _ in range(2)) + ")"
    if form == "tuple1":
        return "(" + part() + ",)"
    if form in ("set", "frozenset"):
        s = "{" + ", ".join(part(True) for _ in range(rng.randrange(1, 4))) + "}"
        return s if form == "set" else f"frozenset({s})"
    if form == "dict":
        ks = rng.sample(KEYS, rng.randrange(1, 4))
        return "{" + ", ".join(f"{k}: {part()}" for k in ks) + "}"
    if form == "MyList":
        return f"MyList([{part()}])"
    if form == "MyDict":
        return f"MyDict(a={part()})"
    if form == "OrderedDict":
        return f"collections.OrderedDict(b={part()}, a={part()})"
    if form == "defaultdict":
        return f"collections.defaultdict(list, {{'k': {part()}}})"
    if form == "NT":
        return f"NT({part()}, {part()})"
    if form == "Area":
        return f"Area({part()}, {part()})"
    if form == "Area1":
        return f"Area(north={part()})"
    if form == "Grid":
        return f"Grid({part(True)}, {part(True)})"
    if form == "Req":
        return f"Req(param={part()}, step={part()})"
    if form == "Plain":
        return f"Plain(p={part()}, q={part()})"
    if form == "cyc":
        return "cyc()"
    return rng.choice(["[Area(1.0, 2.0)]", "{'k': Req(param='b', step=2)}", "(1, [Grid()])", "Area(Req(), Area(0.0))", "Req(param=Area(1, 2), step=[Plain(a=1)])",
                       "{'a': {'b': {'c': Area(1.0)}}}", "[NT(1, Area(2.0))]", "Plain(p=Plain(q=Col.R))"])


def gen_values(rng):
    srcs = [rng.choice(PLAIN_ATOMS) for _ in range(rng.choice([2, 3, 3, 4]))]
    srcs += [rng.choice(PLAIN_CONT) for _ in range(rng.choice([0, 1, 1]))]
    for _ in range(rng.choice([0, 1, 2, 3])):
        r = rng.random()
        srcs.append(rng.choice(ODD_ATOMS) if r < 0.7 else rng.choice(EMPTY) if r < 0.93 else rng.choice(BIG))
    rng.shuffle(srcs)
    for _ in range(rng.choice([0, 1, 2, 3, 4])):
        srcs.append(gen_value_src(rng, len(srcs)))
    return srcs


class Picker:
    """picks value indexes; fits = real isinstance of the live objects"""
    def __init__(self, values):
        self.n = len(values)
        self.by_type = {b: [i for i, v in enumerate(values) if isinstance(v, getattr(builtins, b))] for b in BUILTIN}
        self.structured = [i for i, v in enumerate(values) if canon(v)[0] != "a"]

    def any(self, rng):
        if self.structured and rng.random() < 0.4:
            return rng.choice(self.structured)
        return rng.randrange(self.n)

    def for_type(self, rng, tname, good=0.88):
        if rng.random() < good and self.by_type.get(tname):
            return rng.choice(self.by_type[tname])
        return self.any(rng)


def gen_ann(rng, odd):
    r = rng.random()
    if odd and r < 0.25:
        return rng.choice([["none"], ["custom", "Foo"], ["custom", "Bar"], ["str", "_empty"], ["str", "ndarray"]])
    if r < 0.4:
        return ["empty"]
    if r < 0.82:
        return ["type", rng.choice(BUILTIN)]
    if r < 0.93:
        return ["str", rng.choice(BUILTIN)]
    return ["generic", rng.choice(["list", "dict", "tuple"])]


def gen_callable(rng, odd, pick):
    names = rng.sample(PARAM_NAMES[:7] * 3 + PARAM_NAMES[7:], 12)
    names = list(dict.fromkeys(names))[:rng.choice([0, 1, 2, 2, 3, 3, 4, 5, 7])]
    flavour = rng.choice(["def"] * 6 + ["lambda", "method", "callobj", "static", "partial"])
    kinds = []
    for _ in names:
        kinds.append(rng.choice(["poskw"] * 6 + ["kwonly"] * 3 + ["posonly"]))
    order = {"posonly": 0, "poskw": 1, "kwonly": 3}
    kinds.sort(key=lambda k: order[k])
    params = []
    npos = sum(1 for k in kinds if k in ("posonly", "poskw"))
    cut = rng.randrange(npos + 1) if npos else 0      # positional parameters from `cut` on carry defaults
    for i, (n, k) in enumerate(zip(names, kinds)):
        a = ["empty"] if flavour == "lambda" else gen_ann(rng, odd)
        has_def = (i >= cut) if k in ("posonly", "poskw") else rng.random() < 0.5
        d = pick.for_type(rng, ann_name(a), 0.9) if has_def else None
        params.append({"name": n, "kind": k, "ann": a, "default": d})
    if rng.random() < 0.2:
        params.append({"name": "args", "kind": "varpos", "ann": ["empty"], "default": None})
    if rng.random() < 0.2:
        params.append({"name": "kwargs", "kind": "varkw", "ann": ["empty"] if flavour == "lambda" else gen_ann(rng, False), "default": None})
    kord = {"posonly": 0, "poskw": 1, "varpos": 2, "kwonly": 3, "varkw": 4}
    params.sort(key=lambda p: kord[p["kind"]])
    return {"kind": "callable", "params": params, "ret": ["empty"] if flavour == "lambda" else gen_ann(rng, odd), "flavour": flavour,
            "keep": rng.random() < 0.5, "env": rng.choice([None, None, None, [], ["numpy"]])}


def gen_with(rng, tasks, base, pick, unknown_kw=0.05):
    isch, _ = spec_schema(tasks, base)
    kwargs = []
    dense = rng.random() < 0.5
    for n, t in isch.items():
        if rng.random() < (0.6 if dense else 0.25):
            kwargs.append([n, pick.for_type(rng, t)])
    if rng.random() < unknown_kw:
        kwargs.append([rng.choice(["q", "kwargs", "args", "0", "self", "cls"]), pick.any(rng)])
    kwargs = list({n: [n, i] for n, i in kwargs}.values())
    rng.shuffle(kwargs)
    args = [pick.any(rng) for _ in range(rng.choice([0, 0, 0, 1, 2, 3, 11]))] if rng.random() < 0.45 else []
    if args and rng.random() < 0.3:
        args = [args[0]] * len(args)                    # the same object in several positions
    return {"kind": "with", "base": base, "args": args, "kwargs": kwargs}


def gen_tasks(rng, odd, pick):
    tasks = []
    nroots = rng.randrange(2, 5)
    for _ in range(nroots):
        r = rng.random()
        if r < 0.68:
            te = gen_callable(rng, odd, pick)
        elif r < 0.78:
            te = {"kind": "entrypoint", "ischema": [[n, rng.choice(TYS)] for n in rng.sample(PARAM_NAMES, rng.randrange(3))], "out": rng.choice(TYS)}
        else:
            tys = TYS + (["ndarray", "", "grib", "grib.mir", "grib.earthkit"] if odd else [])
            outs = rng.choice([["0"], ["0", "1"], ["o"], ["0", "1", "10", "2"]])
            isch = [[n, rng.choice(tys)] for n in rng.sample(PARAM_NAMES, rng.randrange(4))]
            te = {"kind": "raw", "ischema": isch, "oschema": [[o, rng.choice(tys)] for o in outs],
                  "kw": [[n, pick.for_type(rng, t)] for n, t in isch if rng.random() < 0.3],
                  "ps": [[str(i), pick.any(rng)] for i in range(rng.choice([0, 0, 1, 2]))], "builder": rng.random() < 0.5}
        tasks.append(te)
    # derived tasks: with_values on ANY earlier builder (chains and branches), the same callable once more
    for _ in range(rng.choice([1, 2, 3, 4, 5, 6])):
        cand = [i for i, t in enumerate(tasks) if not (t["kind"] == "raw" and not t.get("builder"))]
        if not cand:
            break
        keepers = [i for i, t in enumerate(tasks) if t["kind"] == "callable" and t.get("keep")]
        if keepers and rng.random() < 0.12:
            tasks.append({"kind": "again", "of": rng.choice(keepers)})
            continue
        derived = [i for i in cand if tasks[i]["kind"] == "with"]
        base = rng.choice(derived) if derived and rng.random() < 0.55 else rng.choice(cand)
        tasks.append(gen_with(rng, tasks, base, pick))
    return tasks


def compat(o, i):
    """the generator's reading of `compatible declared type`; None = cannot judge (out-of-domain names)"""
    if i == "Any" or o == "Any" or o == i:
        return True
    if o in BUILTIN and i in BUILTIN:
        return issubclass(getattr(builtins, o), getattr(builtins, i))
    return None


def gen_tree(rng, tasks, usable, nsteps):
    """steps: [parent, op]; op = ["node", name, tix] | ["edge", source, sink, into, frum-or-None]"""
    descs = [{"nodes": {}, "edges": []}]
    steps = []
    NODE_NAMES = globals()["NODE_NAMES"] + ([f"n{i}" for i in range(40)] if nsteps > 20 else [])     # a long tree is also a wide job
    for _ in range(nsteps):
        p = len(descs) - 1 if rng.random() < 0.7 else rng.randrange(len(descs))
        d = descs[p]
        names = list(d["nodes"])
        if not usable or (len(names) >= 2 and rng.random() < 0.6) or (len(names) == 1 and rng.random() < 0.15):
            src = rng.choice(names) if names and rng.random() < 0.9 else rng.choice(NODE_NAMES + ["ghost"])
            snk = rng.choice(names) if names and rng.random() < 0.9 else rng.choice(NODE_NAMES + ["ghost"])
            so = spec_schema(tasks, d["nodes"][src])[1] if src in d["nodes"] else {"0": "Any"}
            frum = rng.choice(list(so)) if rng.random() < 0.88 else rng.choice(["1", "nope", ""])
            si = spec_schema(tasks, d["nodes"][snk])[0] if snk in d["nodes"] else {}
            r = rng.random()
            if r < 0.7 and si:
                good = [k for k, t in si.items() if compat(so.get(frum, "Any"), t)]
                into = rng.choice(good) if good and rng.random() < 0.75 else rng.choice(list(si))
            elif r < 0.85:
                into = rng.choice([0, 1, 2, 7, -1])
            else:
                into = rng.choice(["nope", "args", "kwargs", "0", ""])
            if frum == "0" and rng.random() < 0.5:
                frum = None                       # use the default argument
            op = ["edge", src, snk, into, frum]
            nd = {"nodes": dict(d["nodes"]), "edges": d["edges"] + [[src, frum if frum is not None else "0", snk, into]]}
        else:
            name = rng.choice(NODE_NAMES)
            tix = rng.choice(usable)
            op = ["node", name, tix]
            nd = {"nodes": {**d["nodes"], name: tix}, "edges": list(d["edges"])}
        steps.append([p, op])
        descs.append(nd)
    return steps


def gen_case(rng, odd=None):
    odd = (rng.random() < 0.15) if odd is None else odd
    case = {"values": gen_values(rng)}
    pick = Picker(make_values(case))
    case.update({"tasks": gen_tasks(rng, odd, pick), "steps": None, "nsteps": rng.randrange(3, 13) if rng.random() < 0.97 else rng.randrange(30, 60), "odd": odd, "seed": rng.randrange(2**32)})
    return case


def matrix_cases():
    """exhaustive small scopes: every (output type, parameter type) pair on one edge; every (value, parameter type) static;
    every value kind bound FIRST (by keyword, by position, as a default) and the builder extended afterwards"""
    out = []
    for o in TYS:
        for i in TYS:
            te = [{"kind": "raw", "ischema": [], "oschema": [["0", o]], "kw": [], "ps": [], "builder": False},
                  {"kind": "raw", "ischema": [["x", i]], "oschema": [["0", "Any"]], "kw": [], "ps": [], "builder": False}]
            out.append({"values": [], "tasks": te, "steps": [[0, ["node", "a", 0]], [1, ["node", "b", 1]], [2, ["edge", "a", "b", "x", None]]], "odd": False, "matrix": f"edge {o}->{i}"})
    for src in MATRIX_VALUES:
        for i in TYS:
            te = [{"kind": "entrypoint", "ischema": [["x", i]], "out": "int"}, {"kind": "with", "base": 0, "args": [], "kwargs": [["x", 0]]}]
            out.append({"values": [src], "tasks": te, "steps": [[0, ["node", "a", 1]]], "odd": False, "matrix": f"static {src}:{i}"})
    for src in sorted(set(MATRIX_VALUES + ODD_ATOMS + EMPTY + BIG + ["cyc()", "[Area(1.0, 2.0)]", "{'k': Req(param='b', step=2)}", "Area(Req(), Area(0.0))"])):
        f = {"kind": "callable", "flavour": "def", "keep": True, "env": None, "ret": ["empty"],
             "params": [{"name": "p", "kind": "poskw", "ann": ["empty"], "default": None}, {"name": "q", "kind": "poskw", "ann": ["empty"], "default": 0},
                        {"name": "r", "kind": "kwonly", "ann": ["empty"], "default": 1}]}
        te = [f, {"kind": "with", "base": 0, "args": [0], "kwargs": [["p", 0]]}, {"kind": "with", "base": 1, "args": [], "kwargs": [["r", 0]]},
              {"kind": "with", "base": 2, "args": [1, 1], "kwargs": []}, {"kind": "with", "base": 0, "args": [], "kwargs": [["q", 1]]}]
        out.append({"values": [src, "7"], "tasks": te, "steps": [[0, ["node", "a", 3]], [1, ["node", "b", 4]], [2, ["node", "c", 0]], [3, ["edge", "a", "b", "p", None]]],
                    "odd": False, "matrix": f"rebind {src}"})
    return out


def upgrade(case):
    """a case stored by an earlier version of this harness (nested `texprs`, values = indexes into the old fixed pool)"""
    if "tasks" in case:
        return case
    old_values = ["0", "1", "-5", "1099511627776", "True", "False", "'a'", "''", "'int'", "1.5", "b'x'", "[1, 2]", "{'k': 1}", "(1, 2)", "None"]
    tasks, final = [], []

    def add(te):
        if te["kind"] == "with":
            b = add(te["base"])
            tasks.append({"kind": "with", "base": b, "args": te["args"], "kwargs": te["kwargs"]})
        elif te["kind"] == "callable":
            tasks.append({**te, "flavour": "def", "keep": False, "env": None})
        else:
            tasks.append(te)
        return len(tasks) - 1
    for te in case["texprs"]:
        final.append(add(te))
    steps = None if case.get("steps") is None else [[p, (["node", op[1], final[op[2]]] if op[0] == "node" else op)] for p, op in case["steps"]]
    return {**{k: v for k, v in case.items() if k != "texprs"}, "values": old_values, "tasks": tasks, "steps": steps, "final": final}


# ------------------------------------------------------------------------------ run one case on the implementation
def exn_name(e):
    return type(e).__name__


def describe(tasks, ix):
    te = tasks[ix]
    if te["kind"] == "with":
        return f"task #{ix} = #{te['base']}.with_values(*{te['args']}, **{dict(map(tuple, te['kwargs']))})"
    if te["kind"] == "callable":
        return f"task #{ix} = from_callable(<{te.get('flavour', 'def')}>)"
    if te["kind"] == "again":
        return f"task #{ix} = from_callable(<the callable of #{te['of']}, again>)"
    return f"task #{ix} = <{te['kind']}>"


def run_case(case):
    """returns (observations, failures).  failures: list of (signature, what)"""
    from cascade.low.builders import JobBuilder
    from cascade.low.core import JobInstance, TaskDefinition
    import random
    fails = []
    tasks = case["tasks"]
    env = Env(case)
    vc = env.vcanon
    srcs = case["values"]

    def vname(i):
        return f"value #{i} ({srcs[i] if len(srcs[i]) < 60 else srcs[i][:60] + '...'})"

    objs, tobs, tcanon = [], [], []
    for ix, te in enumerate(tasks):
        try:
            parent = objs[te["base"]] if te["kind"] == "with" else None
            before = task_canon(parent) if parent is not None else None
            t = env.realise(ix, objs)
            got = task_canon(t)
            # the statics are exactly the values given so far: the WHOLE value, as the generator made it
            ekw, eps = spec_statics(tasks, ix)
            for label, g, e in (("keyword", got["kw"], ekw), ("position", got["ps"], eps)):
                for name in sorted(set(g) | set(e)):
                    if name not in g:
                        fails.append(("values-not-carried", f"{describe(tasks, ix)}: {label} {name!r} was given {vname(e[name])} but the task has nothing there"))
                    elif name not in e:
                        fails.append(("values-not-carried", f"{describe(tasks, ix)}: the task has {show(g[name])} under {label} {name!r}, nobody gave that"))
                    elif g[name] != vc[e[name]]:
                        fails.append(("values-not-carried", f"{describe(tasks, ix)}: {label} {name!r} was given {vname(e[name])} = {show(vc[e[name]])} but the task carries {show(g[name])}"))
            if te["kind"] == "callable" and got["def"][2] != list(te.get("env") or []):
                fails.append(("values-not-carried", f"{describe(tasks, ix)}: environment {te.get('env')} was given, the task carries {got['def'][2]}"))
            if parent is not None:
                if got["ischema"] != before["ischema"] or got["oschema"] != before["oschema"] or got["def"] != before["def"]:
                    fails.append(("values-not-carried", f"{describe(tasks, ix)}: with_values changed the task definition"))
                if task_canon(parent) != before or t is parent:
                    fails.append(("earlier-object-mutated", f"{describe(tasks, ix)}: with_values changed the task it was derived from: {jdump(before)[:300]} -> {jdump(task_canon(parent))[:300]}"))
            # the task still carries the callable it was made from
            tok = env.tokens.get(ix)
            if tok is not None:
                try:
                    carried = doc_of(TaskDefinition.func_dec(t.definition.func))
                except Exception as e:
                    carried = f"<{exn_name(e)}>"
                if carried != tok:
                    fails.append(("values-not-carried", f"{describe(tasks, ix)}: the task's payload is not the callable given (marker {carried!r}, expected {tok!r})"))
            objs.append(t)
            tobs.append(("task", got))
            tcanon.append(got)
        except Exception as e:
            if te_in_domain(tasks, ix) and not isinstance(e, LookupError):
                fails.append(("task-construction-raised", f"{describe(tasks, ix)}: {exn_name(e)}: {e} for {jdump(te)[:300]}"))
            objs.append(None)
            tobs.append(("raised", exn_name(e)))
            tcanon.append(None)
    usable = [i for i, o in enumerate(objs) if o is not None]
    if case.get("steps") is None:
        case["steps"] = gen_tree(random.Random(case["seed"]), tasks, usable, case["nsteps"])
    steps = []
    for p, op in case["steps"]:                   # (a stored case whose task can no longer be created ends there)
        if op[0] == "node" and objs[op[2]] is None:
            break
        steps.append([p, op])
    case["steps"] = steps

    builders = [JobBuilder()]
    descs = [{"nodes": {}, "edges": []}]
    results = []          # per builder: ("job", canon, obj) | ("problems", n) | ("raised", name)

    def build_and_check(b, d):
        in_dom = all(te_in_domain(tasks, ix) for ix in d["nodes"].values()) and all(isinstance(e[3], (str, int)) for e in d["edges"])
        try:
            r = b.build()
        except Exception as e:
            if in_dom:
                fails.append(("build-raised", f"build() raised {exn_name(e)}: {e}"))
            return ("raised", exn_name(e))
        t, e = getattr(r, "t", None), getattr(r, "e", None)
        if t is not None and not e:
            if not isinstance(t, JobInstance):
                fails.append(("either-shape", f"Either.ok carries {type(t).__name__}"))
                return ("raised", "not-a-job")
            jc = job_canon(t)
            # the job carries exactly what was given
            exp_tasks = {n: tcanon[ix] for n, ix in d["nodes"].items()}
            if jc["tasks"] != exp_tasks:
                what = f"job tasks differ from the tasks given: got {jdump(jc['tasks'])[:400]} expected {jdump(exp_tasks)[:400]}"
                for n in exp_tasks:
                    for part in ("kw", "ps"):
                        g, x = jc["tasks"].get(n, {}).get(part, {}), exp_tasks[n][part]
                        for k in x:
                            if k in g and g[k] != x[k]:
                                what = f"node {n!r} {'keyword' if part == 'kw' else 'position'} {k!r}: the task given carries {show(x[k])}, the job carries {show(g[k])}"
                fails.append(("values-not-carried", what))
            exp_edges = sorted(jdump([s, o, k, i if isinstance(i, str) else None, i if not isinstance(i, str) else None]) for s, o, k, i in d["edges"])
            if sorted(jdump(list(x)) for x in jc["edges"]) != exp_edges:
                fails.append(("edges-not-carried", f"job edges {jc['edges']} differ from the edges given {d['edges']}"))
            if jc["serdes"] or jc["ext"]:
                fails.append(("values-not-carried", "job has serdes / ext_outputs nobody gave"))
            # every edge of the accepted job is well formed (judged on the generator's record of the tasks)
            for (s, o, k, ikw, ips) in jc["edges"]:
                if s not in d["nodes"]:
                    fails.append(("accepted-dangling-source-task", f"accepted edge from missing task {s!r}"))
                    continue
                so = spec_schema(tasks, d["nodes"][s])[1]
                if o not in so:
                    fails.append(("accepted-dangling-source-output", f"accepted edge from missing output {s!r}.{o!r} (outputs {list(so)})"))
                if k not in d["nodes"]:
                    fails.append(("accepted-dangling-sink-task", f"accepted edge into missing task {k!r}"))
                    continue
                if ikw is not None:
                    si = spec_schema(tasks, d["nodes"][k])[0]
                    if ikw not in si:
                        fails.append(("accepted-dangling-sink-param", f"accepted edge into missing parameter {k!r}.{ikw!r} (parameters {list(si)})"))
                    elif o in so and compat(so[o], si[ikw]) is False:
                        fails.append(("accepted-incompatible-types", f"accepted edge {s!r}.{o!r}:{so[o]} -> {k!r}.{ikw!r}:{si[ikw]}"))
            return ("job", jc, t)
        if isinstance(e, list) and e and all(isinstance(x, str) for x in e) and t is None:
            return ("problems", len(e))
        fails.append(("either-shape", f"build() returned neither a job nor a non-empty list of problems: t={t!r} e={e!r}"))
        return ("raised", "bad-either")

    results.append(build_and_check(builders[0], descs[0]))
    for p, op in steps:
        b, d = builders[p], descs[p]
        if op[0] == "node":
            nb = b.with_node(op[1], objs[op[2]])
            nd = {"nodes": {**d["nodes"], op[1]: op[2]}, "edges": list(d["edges"])}
        else:
            _, s, k, into, frum = op
            nb = b.with_edge(s, k, into) if frum is None else b.with_edge(s, k, into, frum)
            nd = {"nodes": dict(d["nodes"]), "edges": d["edges"] + [[s, "0" if frum is None else frum, k, into]]}
        if nb is b:
            fails.append(("earlier-object-mutated", "with_node/with_edge returned the builder itself"))
        builders.append(nb)
        descs.append(nd)
        results.append(build_and_check(nb, nd))
    # persistence: nothing built earlier has changed, and earlier builders still build the same thing
    for ix, (b, d, r) in enumerate(zip(builders, descs, results)):
        if r[0] == "job" and jdump(job_canon(r[2])) != jdump(r[1]):
            fails.append(("earlier-object-mutated", f"job built from builder #{ix} changed after later builder operations: {jdump(r[1])[:300]} -> {jdump(job_canon(r[2]))[:300]}"))
        n0 = len(fails)
        r2 = build_and_check(b, d)
        del fails[n0:]                 # the same complaint was already recorded the first time
        if (r2[0], r2[1]) != (r[0], r[1]):
            fails.append(("earlier-object-mutated", f"builder #{ix} builds something else after later operations on derived builders: {str(r[:2])[:300]} -> {str(r2[:2])[:300]}"))
    for ix, (o, c) in enumerate(zip(objs, tcanon)):
        if o is not None and task_canon(o) != c:
            fails.append(("earlier-object-mutated", f"task #{ix} changed after it was made (later with_values on it or on tasks derived from it, or builds): {jdump(c)[:300]} -> {jdump(task_canon(o))[:300]}"))
    for i, (v, c) in enumerate(zip(env.values, vc)):
        if canon(v) != c:
            fails.append(("earlier-object-mutated", f"{vname(i)} given to the builders was changed in place: {show(c)} -> {show(canon(v))}"))
    return {"tobs": tobs, "results": [r[:2] for r in results], "descs": descs, "vcanon": vc}, fails


# ------------------------------------------------------------------------------ Coq terms
def cdict(items, f):
    return clist([f"({cstr(k)}, {f(v)})" for k, v in items])


def cann(a):
    k = a[0]
    if k == "empty":
        return "AEmpty"
    if k == "none":
        return "ANoName"
    if k == "str":
        return f"(AStr {cstr(a[-1])})"
    return f"(AType {cstr(a[-1])})"


KIND = {"posonly": "PosOnly", "poskw": "PosOrKw", "varpos": "VarPos", "kwonly": "KwOnly", "varkw": "VarKw"}


def ccase(case, obs):
    tasks = case["tasks"]
    vc = obs["vcanon"]
    names = {}
    lets = []
    for i, c in enumerate(vc):                       # values with parts are let-bound once per case
        if c[0] != "a" and jdump(c) not in names:
            lets.append(f"let v{i} := {cvalue(c, names)} in")
            names[jdump(c)] = f"v{i}"

    def cv(i):
        return cvalue(vc[i], names)

    def co(c):                                       # an observed value
        return cvalue(c, names)

    enames = {}

    def ctexpr(ix):                                  # task expressions are let-bound too: derived tasks repeat their base
        if ix not in enames:
            body = ctexpr_body(ix)
            lets.append(f"let e{ix} := {body} in")
            enames[ix] = f"e{ix}"
        return enames[ix]

    def ctexpr_body(ix):
        te = tasks[ix]
        k = te["kind"]
        if k == "callable":
            ps = clist([f"P {cstr(p['name'])} {KIND[p['kind']]} {cann(p['ann'])} {copt(p['default'], cv)}" for p in te["params"]])
            return f"(TFromCallable {ps} {cann(te['ret'])})"
        if k == "again":
            return ctexpr(te["of"])
        if k == "entrypoint":
            return f"(TFromEntrypoint {cdict(te['ischema'], cstr)} {cstr(te['out'])})"
        if k == "raw":
            return f"(TRaw (T (TD {cdict(te['ischema'], cstr)} {cdict(te['oschema'], cstr)}) {cdict(te['kw'], cv)} {cdict(te['ps'], cv)}))"
        return f"(TWithValues {ctexpr(te['base'])} {clist(te['args'], cv)} {cdict(te['kwargs'], cv)})"

    tnames = {}

    def ctask(c):                                    # an observed task: let-bound once per case, jobs repeat their tasks
        key = jdump([c[k] for k in ("ischema", "oschema", "kw", "ps")])
        if key not in tnames:
            lets.append(f"let t{len(tnames)} := (T (TD {cdict(c['ischema'].items(), cstr)} {cdict(c['oschema'].items(), cstr)}) {cdict(c['kw'].items(), co)} {cdict(c['ps'].items(), co)}) in")
            tnames[key] = f"t{len(tnames)}"
        return tnames[key]

    def cinto(i):
        return f"(IntoKw {cstr(i)})" if isinstance(i, str) else f"(IntoPs {cZ(i)})"

    tes = []
    for ix, o in enumerate(obs["tobs"]):
        if o[0] == "raised" and o[1] == "LookupError":       # never attempted: an ancestor could not be created, the model fails the same way
            j = ix
            while tasks[j]["kind"] == "with" and obs["tobs"][j] == ("raised", "LookupError"):
                j = tasks[j]["base"]
            tes.append(f"({ctexpr(ix)}, TObsRaised {cstr(obs['tobs'][j][1])})")
            continue
        tes.append(f"({ctexpr(ix)}, " + (f"TObsTask {ctask(o[1])}" if o[0] == "task" else f"TObsRaised {cstr(o[1])}") + ")")
    steps = []
    for p, op in case["steps"]:
        if op[0] == "node":
            steps.append(f"({cnat(p)}, SNode {cstr(op[1])} {cnat(op[2])})")
        else:
            steps.append(f"({cnat(p)}, SEdge {cstr(op[1])} {cstr(op[2])} {cinto(op[3])} {cstr('0' if op[4] is None else op[4])})")
    bobs = []
    for r in obs["results"]:
        if r[0] == "job":
            ts = clist([f"({cstr(n)}, {ctask(t)})" for n, t in r[1]["tasks"].items()])
            es = clist([f"E {cstr(s)} {cstr(o)} {cstr(k)} {cinto(ikw if ikw is not None else ips)}" for s, o, k, ikw, ips in r[1]["edges"]])
            bobs.append(f"BObsJob {ts} {es}")
        elif r[0] == "problems":
            bobs.append(f"BObsProblems {cnat(r[1])}")
        else:
            bobs.append(f"BObsRaised {cstr(r[1])}")
    return "(" + " ".join(lets) + f" ({clist(tes)}, {clist(steps)}, {clist(bobs)}))"


SHOW = ('Definition show (bs : list bool) : string := String.concat "" (List.map (fun b : bool => if b then "1" else "0") bs).\n')


def coq_check(terms, shard):
    """`check_case case` for every case by vm_compute; at most 4 coqc at a time; the cases are the argument of the Eval
    (nothing of them goes into a .vo); file names carry the process id"""
    from concurrent.futures import ThreadPoolExecutor
    d = BUILD / "C19"
    d.mkdir(parents=True, exist_ok=True)
    files = []
    for k in range(0, len(terms), shard):
        chunk = terms[k:k + shard]
        p = d / f"trees_p{os.getpid()}_{k // shard}.v"
        p.write_text(HEADER + SHOW + "Eval vm_compute in show (List.map check_case ([\n" + ";\n".join("  " + c for c in chunk) + "\n] : list case)).\n")
        files.append((p, len(chunk)))
    results, logs = [], []
    try:
        with ThreadPoolExecutor(max_workers=4) as ex:
            outs = list(ex.map(lambda f: coq_eval_file(f[0], 900), files))
        for (p, n), (rc, text) in zip(files, outs):
            m = re.search(r'=\s*"([01]*)"', text.replace("\n", "").replace(" ", "")) if rc == 0 else None
            if rc != 0 or not m or len(m.group(1)) != n:
                results.extend([None] * n)
                logs.append(f"{p.name}: rc={rc} {text[-1500:]}")
            else:
                results.extend(c == "1" for c in m.group(1))
    finally:
        for p, _ in files:
            for q in (p, p.with_suffix(".vo"), p.with_suffix(".vok"), p.with_suffix(".vos"), p.with_suffix(".glob"), p.parent / ("." + p.stem + ".aux")):
                try:
                    q.unlink()
                except OSError:
                    pass
    return results, logs


# ------------------------------------------------------------------------------ driver
def stored(case):
    return {k: case[k] for k in ("values", "tasks", "steps", "odd", "matrix") if k in case}


def value_kinds(c, out):
    out.add({"a": "atom:", "s": "seq:", "m": "map:", "o": "obj:"}[c[0]] + (c[1] if c[0] != "o" else c[1] + ":" + c[2]))
    for x in (c[2] if c[0] == "s" else [y for kv in c[2] for y in kv] if c[0] == "m" else [kv[1] for kv in c[3]] if c[0] == "o" else []):
        value_kinds(x, out)


def run(ctx, res):
    res.rule = ("one evaluation = one JobBuilder.build() of one builder of a generated tree of derived builders (plus the exhaustive type-pair / value-type / "
                "re-binding matrices); non-trivial = the builder has at least one edge or one static value; distinct = distinct (tasks as observed, edges) description")
    bad = check_class_table()
    if bad:
        res.disagree("the class table of Low/BuildersCheck.v (class_bases) is not the real issubclass: " + "; ".join(bad[:3]), {"table": bad[:20]})
    rng = ctx.sub_rng("trees")
    cases = matrix_cases() + [gen_case(rng) for _ in range(ctx.n(700, 27000))]
    terms, metas = [], []
    for case in cases:
        obs, fails = run_case(case)
        for sig, what in fails:
            res.fail(sig, what, stored(case))
        tasks = case["tasks"]
        for d, r in zip(obs["descs"], obs["results"]):
            res.evaluations += 1
            res.count("outcome:" + r[0])
            if r[0] == "job" and d["edges"]:
                res.count("outcome:job-with-edges")
                if any(isinstance(e[3], str) for e in d["edges"]):
                    res.count("outcome:job-with-keyword-edges")
            res.count("edges:" + str(min(len(d["edges"]), 6)) + ("+" if len(d["edges"]) >= 6 else ""))
            tt = {n: obs["tobs"][ix][1] for n, ix in d["nodes"].items()}
            if d["edges"] or any(t["kw"] or t["ps"] for t in tt.values()):
                res.nontrivial_keys.add(jdump([tt, d["edges"]]))
        res.count("case:" + ("matrix" if "matrix" in case else "odd-annotations" if case["odd"] else "in-domain"))
        for ix, o in enumerate(obs["tobs"]):
            res.count("task:" + ("created" if o[0] == "task" else "raised:" + o[1]))
            if o[0] == "task":
                te = tasks[ix]
                res.count("task-kind:" + (te["kind"] if te["kind"] != "callable" else "callable:" + te.get("flavour", "def")))
                depth, j = 0, ix
                while tasks[j]["kind"] == "with":
                    depth, j = depth + 1, tasks[j]["base"]
                if depth:
                    res.count("with_values-depth:" + str(min(depth, 4)))
                kinds = set()
                for c in list(o[1]["kw"].values()) + list(o[1]["ps"].values()):
                    value_kinds(c, kinds)
                for kd in kinds:
                    res.count("bound-value:" + kd)
        if len(res.samples) < 3 and "matrix" not in case and any(r[0] == "job" and r[1]["edges"] for r in obs["results"]):
            res.samples.append({"values": case["values"], "steps": case["steps"], "outcomes": [r[0] if r[0] != "problems" else f"problems:{r[1]}" for r in obs["results"]],
                                "tasks": [{k: v for k, v in o[1].items() if k != "def"} if o[0] == "task" else o[1] for o in obs["tobs"]]})
        try:
            terms.append(ccase(case, obs))
            metas.append(case)
        except ValueError as e:          # an unprintable name: the oracle has already complained
            res.disagree(f"case cannot be written as a Coq term: {e}", stored(case))
    r, logs = coq_check(terms, ctx.n(max(100, -(-len(terms) // 8)), 400))      # quick: two rounds of four coqc
    res.corr_checked += len(r)
    for ok, case in zip(r, metas):
        if ok is not True:
            res.disagree("Coq model of TaskBuilder/JobBuilder disagrees with cascade.low.builders" +
                         ("" if ok is False else " (cases file did not compile: " + (logs[0][-400:] if logs else "") + ")"), stored(case))
            break


def shrink(ctx, f):
    """shortest prefix of the tree that still fails with the same signature"""
    case = upgrade(f["case"])
    if not case.get("steps"):
        return f
    for n in range(len(case["steps"]) + 1):
        c = {**case, "steps": case["steps"][:n]}
        try:
            _, fails = run_case(c)
        except Exception:
            continue
        hit = [x for x in fails if x[0] == f["signature"]]
        if hit:
            return {"signature": f["signature"], "what": hit[0][1], "case": stored(c)}
    return f


def search(ctx, res):
    import random
    rng = random.Random(f"C19:{ctx.seed}:search")
    for c in matrix_cases():
        try:
            _, fails = run_case(c)
        except Exception as e:
            return {"signature": "harness-cannot-drive-builders", "what": repr(e), "case": stored(c)}
        if fails:
            return shrink(ctx, {"signature": fails[0][0], "what": fails[0][1], "case": stored(c)})
    for k in range(6000):
        case = gen_case(rng, odd=False)
        try:
            _, fails = run_case(case)
        except Exception as e:
            return {"signature": "harness-cannot-drive-builders", "what": repr(e), "case": stored(case)}
        if fails:
            f = {"signature": fails[0][0], "what": fails[0][1], "case": stored(case)}
            return shrink(ctx, f)
    return None


def replay(ctx, case):
    c = case.get("case", case)
    if ("tasks" not in c and "texprs" not in c) or c.get("steps") is None:
        return {"fails": None, "note": "no concrete input stored (proof / correspondence breakage): re-run ./check C19"}
    _, fails = run_case(upgrade(dict(c)))
    sig = case.get("signature")
    hit = [f for f in fails if sig is None or f[0] == sig]
    return {"fails": bool(hit), "failures": [list(f) for f in fails[:5]]}
