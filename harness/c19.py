"""C19 -- a job accepted by JobBuilder.build is well formed and carries the values given.

Generator: task expressions (from_callable over generated signatures, from_entrypoint, raw
TaskInstance, chains of with_values) and a TREE of derived builders (every op derives a new
builder from any earlier one).  Every builder of the tree is built.
Oracle (direct reading of the property on the real objects): build never raises on in-domain
input and returns exactly one of job / non-empty problem list; an accepted job has exactly the
nodes and edges given, every edge is well formed with respect to the *generator's own* record of
signatures and schemas; with_values puts values under exactly the given positions / names and
leaves the task it was derived from alone; jobs and builders built earlier never change.
Correspondence: the same expressions / tree are evaluated by the Coq model (Low/Builders.v) and
compared with everything observed (schemas, statics, job, number of problems, exception name)."""
import builtins
import json

from common import cN, cZ, cnat, clist, copt, cstr, coq_results

TRUSTED = [
    "harness/c19.py: generated source text of callables (exec), the value pool (a value is identified by class name and repr), "
    "the default `frum` of with_edge is written out as \"0\" in the Coq case",
]
ASSUMPTIONS = [
    "Section variables of Low/Builders.v: PyT, evalty (what eval(name) resolves to inside builders.py, None = NameError), "
    "isinst (isinstance), issub (issubclass); the theorems hold for every choice of them",
    "the correspondence instantiates them on the closed class set int,str,float,bool,bytes,list,dict,tuple,object "
    "(issubclass = reflexive, below object, bool below int); a Python value is opaque (class name, identity)",
    "C19_build_never_raises assumes every declared type of every node is \"Any\" or resolvable by eval (the property's domain: builtin or absent annotations)",
    "persistence (building never mutates earlier jobs) is definitional in the functional model; for the implementation it is observed on every tree, not proved",
    "pydantic validation inside JobInstance(...) / Task2TaskEdge(...) and cloudpickle of the callable are not modelled",
]

HEADER = """From Coq Require Import List String ZArith NArith.
From EKW Require Import Low.Builders Low.BuildersCheck.
Import ListNotations.
Open Scope string_scope.
"""

# ------------------------------------------------------------------------------ value pool
# (python literal, class name); a value is referred to by its index everywhere
VALUES = [("0", "int"), ("1", "int"), ("-5", "int"), ("1099511627776", "int"), ("True", "bool"), ("False", "bool"),
          ("'a'", "str"), ("''", "str"), ("'int'", "str"), ("1.5", "float"), ("b'x'", "bytes"), ("[1, 2]", "list"),
          ("{'k': 1}", "dict"), ("(1, 2)", "tuple"), ("None", "NoneType")]
POOL = [eval(src) for src, _ in VALUES]
CANON = {(t, repr(v)): i for i, ((_, t), v) in enumerate(zip(VALUES, POOL))}
BUILTIN = ["int", "str", "float", "bool", "bytes", "list", "dict", "tuple", "object"]
BY_TYPE = {}
for _i, (_s, _t) in enumerate(VALUES):
    for _b in BUILTIN:
        if _t in vars(builtins) and issubclass(getattr(builtins, _t), getattr(builtins, _b)):
            BY_TYPE.setdefault(_b, []).append(_i)
NODE_NAMES = ["a", "b", "c", "t.1", "x y"]
PARAM_NAMES = ["x", "y", "z", "k", "i", "v", "w"]


def vcanon(v):
    """index into the pool, or a description of a foreign value"""
    return CANON.get((type(v).__name__, repr(v)), f"foreign:{type(v).__name__}:{v!r}")


# ------------------------------------------------------------------------------ specs -> python objects
def ann_src(a):
    k = a[0]
    return {"empty": None, "type": a[-1], "str": repr(a[-1]), "generic": a[-1] + "[int]", "none": "None", "custom": a[-1]}[k]


def ann_name(a):
    """the generator's own reading of the declared type"""
    return "Any" if a[0] == "empty" else ("<none>" if a[0] == "none" else a[-1])


def ann_in_domain(a):
    return a[0] == "empty" or (a[0] in ("type", "str", "generic") and a[-1] in BUILTIN)


def callable_src(spec):
    groups = {"posonly": [], "poskw": [], "varpos": [], "kwonly": [], "varkw": []}
    for p in spec["params"]:
        s = p["name"]
        if p["kind"] == "varpos":
            s = "*" + s
        if p["kind"] == "varkw":
            s = "**" + s
        a = ann_src(p["ann"])
        if a is not None:
            s += ": " + a
        if p["default"] is not None:
            s += " = " + VALUES[p["default"]][0]
        groups[p["kind"]].append(s)
    parts = list(groups["posonly"])
    if groups["posonly"]:
        parts.append("/")
    parts += groups["poskw"]
    if groups["varpos"]:
        parts += groups["varpos"]
    elif groups["kwonly"]:
        parts.append("*")
    parts += groups["kwonly"] + groups["varkw"]
    r = ann_src(spec["ret"])
    return "def f(" + ", ".join(parts) + ")" + (" -> " + r if r is not None else "") + ":\n    return 0\n"


_NS = None


def exec_ns():
    global _NS
    if _NS is None:
        _NS = {"__name__": "c19gen"}
        exec("class Foo:\n    pass\nclass Bar(Foo):\n    pass\n", _NS)
    return _NS


def realise(te):
    """task expression -> real object (raises what the implementation raises)"""
    from cascade.low.builders import TaskBuilder
    from cascade.low.core import TaskDefinition, TaskInstance
    k = te["kind"]
    if k == "callable":
        ns = dict(exec_ns())
        exec(callable_src(te), ns)
        return TaskBuilder.from_callable(ns["f"])
    if k == "entrypoint":
        return TaskBuilder.from_entrypoint("mod.fn", dict(te["ischema"]), te["out"])
    if k == "raw":
        d = TaskDefinition(entrypoint="mod.raw", func=None, environment=[], input_schema=dict(te["ischema"]), output_schema=dict(te["oschema"]))
        cls = TaskBuilder if te.get("builder") else TaskInstance
        return cls(definition=d, static_input_kw={n: POOL[i] for n, i in te["kw"]}, static_input_ps={n: POOL[i] for n, i in te["ps"]})
    if k == "with":
        base = realise(te["base"])
        return base.with_values(*[POOL[i] for i in te["args"]], **{n: POOL[i] for n, i in te["kwargs"]})
    raise ValueError(k)


def spec_schema(te):
    """(input schema, output schema) as the generator knows them -- NOT via inspect"""
    k = te["kind"]
    if k == "callable":
        return ({p["name"]: ann_name(p["ann"]) for p in te["params"] if p["kind"] in ("poskw", "kwonly")}, {"0": ann_name(te["ret"])})
    if k == "entrypoint":
        return (dict(te["ischema"]), {"0": te["out"]})
    if k == "raw":
        return (dict(te["ischema"]), dict(te["oschema"]))
    return spec_schema(te["base"])


def te_in_domain(te):
    k = te["kind"]
    if k == "callable":
        return all(ann_in_domain(p["ann"]) for p in te["params"]) and ann_in_domain(te["ret"])
    if k == "with":
        return te_in_domain(te["base"])
    i, o = spec_schema(te)
    return all(t == "Any" or t in BUILTIN for t in list(i.values()) + list(o.values()))


def task_canon(t):
    d = t.definition
    return {"ischema": dict(d.input_schema), "oschema": dict(d.output_schema),
            "kw": {k: vcanon(v) for k, v in t.static_input_kw.items()}, "ps": {k: vcanon(v) for k, v in t.static_input_ps.items()}}


def job_canon(j):
    return {"tasks": {n: task_canon(t) for n, t in j.tasks.items()},
            "edges": [(e.source.task, e.source.output, e.sink_task, e.sink_input_kw, e.sink_input_ps) for e in j.edges],
            "serdes": dict(j.serdes), "ext": [repr(x) for x in j.ext_outputs]}


def jdump(x):
    return json.dumps(x, sort_keys=True, default=str)


# ------------------------------------------------------------------------------ generator
def gen_ann(rng, odd):
    r = rng.random()
    if odd and r < 0.25:
        return rng.choice([["none"], ["custom", "Foo"], ["custom", "Bar"], ["str", "_empty"], ["str", "ndarray"]])
    if r < 0.3:
        return ["empty"]
    if r < 0.8:
        return ["type", rng.choice(BUILTIN)]
    if r < 0.92:
        return ["str", rng.choice(BUILTIN)]
    return ["generic", rng.choice(["list", "dict", "tuple"])]


def gen_value_for(rng, tname, good=0.75):
    if rng.random() < good and tname in BY_TYPE:
        return rng.choice(BY_TYPE[tname])
    return rng.randrange(len(VALUES))


def gen_callable(rng, odd):
    names = rng.sample(PARAM_NAMES, rng.choice([0, 1, 2, 2, 3, 3, 4, 5]))
    kinds = []
    for _ in names:
        kinds.append(rng.choice(["poskw"] * 6 + ["kwonly"] * 3 + ["posonly"]))
    order = {"posonly": 0, "poskw": 1, "kwonly": 3}
    kinds.sort(key=lambda k: order[k])
    params = []
    npos = sum(1 for k in kinds if k in ("posonly", "poskw"))
    cut = rng.randrange(npos + 1) if npos else 0      # positional parameters from `cut` on carry defaults
    for i, (n, k) in enumerate(zip(names, kinds)):
        a = gen_ann(rng, odd)
        has_def = (i >= cut) if k in ("posonly", "poskw") else rng.random() < 0.5
        d = gen_value_for(rng, ann_name(a), 0.8) if has_def else None
        params.append({"name": n, "kind": k, "ann": a, "default": d})
    if rng.random() < 0.2:
        params.append({"name": "args", "kind": "varpos", "ann": ["empty"], "default": None})
    if rng.random() < 0.2:
        params.append({"name": "kwargs", "kind": "varkw", "ann": gen_ann(rng, False), "default": None})
    kord = {"posonly": 0, "poskw": 1, "varpos": 2, "kwonly": 3, "varkw": 4}
    params.sort(key=lambda p: kord[p["kind"]])
    return {"kind": "callable", "params": params, "ret": gen_ann(rng, odd)}


def gen_with(rng, base, unknown_kw=0.08):
    isch, _ = spec_schema(base)
    kwargs = []
    for n, t in isch.items():
        if rng.random() < 0.5:
            kwargs.append([n, gen_value_for(rng, t)])
    if rng.random() < unknown_kw:
        kwargs.append([rng.choice(["q", "kwargs", "args", "0"]), rng.randrange(len(VALUES))])
    rng.shuffle(kwargs)
    args = [rng.randrange(len(VALUES)) for _ in range(rng.choice([0, 0, 0, 1, 2, 3, 11]))] if rng.random() < 0.45 else []
    return {"kind": "with", "base": base, "args": args, "kwargs": kwargs}


def gen_texpr(rng, odd):
    r = rng.random()
    if r < 0.68:
        te = gen_callable(rng, odd)
    elif r < 0.78:
        te = {"kind": "entrypoint", "ischema": [[n, rng.choice(BUILTIN + ["Any"])] for n in rng.sample(PARAM_NAMES, rng.randrange(3))], "out": rng.choice(BUILTIN + ["Any"])}
    else:
        tys = BUILTIN + ["Any"] + (["ndarray", "", "grib", "grib.mir", "grib.earthkit"] if odd else [])
        outs = rng.choice([["0"], ["0", "1"], ["o"], ["0", "1", "10", "2"]])
        isch = [[n, rng.choice(tys)] for n in rng.sample(PARAM_NAMES, rng.randrange(4))]
        te = {"kind": "raw", "ischema": isch, "oschema": [[o, rng.choice(tys)] for o in outs],
              "kw": [[n, gen_value_for(rng, t)] for n, t in isch if rng.random() < 0.3],
              "ps": [[str(i), rng.randrange(len(VALUES))] for i in range(rng.choice([0, 0, 1, 2]))], "builder": rng.random() < 0.5}
    for _ in range(rng.choice([0, 1, 1, 2, 3])):
        if te["kind"] == "raw" and not te.get("builder"):
            break
        te = gen_with(rng, te)
    return te


def compat(o, i):
    """the generator's reading of `compatible declared type`; None = cannot judge (out-of-domain names)"""
    if i == "Any" or o == "Any" or o == i:
        return True
    if o in BUILTIN and i in BUILTIN:
        return issubclass(getattr(builtins, o), getattr(builtins, i))
    return None


def gen_tree(rng, texprs, usable, nsteps):
    """steps: [parent, op]; op = ["node", name, tix] | ["edge", source, sink, into, frum-or-None]"""
    descs = [{"nodes": {}, "edges": []}]
    steps = []
    for _ in range(nsteps):
        p = len(descs) - 1 if rng.random() < 0.7 else rng.randrange(len(descs))
        d = descs[p]
        names = list(d["nodes"])
        if not usable or (len(names) >= 2 and rng.random() < 0.6) or (len(names) == 1 and rng.random() < 0.15):
            src = rng.choice(names) if names and rng.random() < 0.9 else rng.choice(NODE_NAMES + ["ghost"])
            snk = rng.choice(names) if names and rng.random() < 0.9 else rng.choice(NODE_NAMES + ["ghost"])
            so = spec_schema(texprs[d["nodes"][src]])[1] if src in d["nodes"] else {"0": "Any"}
            frum = rng.choice(list(so)) if rng.random() < 0.88 else rng.choice(["1", "nope", ""])
            si = spec_schema(texprs[d["nodes"][snk]])[0] if snk in d["nodes"] else {}
            r = rng.random()
            if r < 0.7 and si:
                good = [k for k, t in si.items() if compat(so.get(frum, "Any"), t)]
                into = rng.choice(good) if good and rng.random() < 0.75 else rng.choice(list(si))
            elif r < 0.85:
                into = rng.choice([0, 1, 2, 7, -1])
            else:
                into = rng.choice(["nope", "args", "kwargs", "0", ""])
            if frum == "0" and rng.random() < 0.5:
                frum = None                       # use the default argument
            op = ["edge", src, snk, into, frum]
            nd = {"nodes": dict(d["nodes"]), "edges": d["edges"] + [[src, frum if frum is not None else "0", snk, into]]}
        else:
            name = rng.choice(NODE_NAMES)
            tix = rng.choice(usable)
            op = ["node", name, tix]
            nd = {"nodes": {**d["nodes"], name: tix}, "edges": list(d["edges"])}
        steps.append([p, op])
        descs.append(nd)
    return steps


def gen_case(rng, odd=None):
    odd = (rng.random() < 0.15) if odd is None else odd
    texprs = [gen_texpr(rng, odd) for _ in range(rng.randrange(2, 6))]
    return {"texprs": texprs, "steps": None, "nsteps": rng.randrange(3, 13), "odd": odd, "seed": rng.randrange(2**32)}


def matrix_cases():
    """exhaustive small scope: every (output type, parameter type) pair on one edge, every (value, parameter type) static"""
    tys = BUILTIN + ["Any"]
    out = []
    for o in tys:
        for i in tys:
            te = [{"kind": "raw", "ischema": [], "oschema": [["0", o]], "kw": [], "ps": [], "builder": False},
                  {"kind": "raw", "ischema": [["x", i]], "oschema": [["0", "Any"]], "kw": [], "ps": [], "builder": False}]
            out.append({"texprs": te, "steps": [[0, ["node", "a", 0]], [1, ["node", "b", 1]], [2, ["edge", "a", "b", "x", None]]], "odd": False, "matrix": f"edge {o}->{i}"})
    for v in range(len(VALUES)):
        for i in tys:
            te = [{"kind": "with", "base": {"kind": "entrypoint", "ischema": [["x", i]], "out": "int"}, "args": [], "kwargs": [["x", v]]}]
            out.append({"texprs": te, "steps": [[0, ["node", "a", 0]]], "odd": False, "matrix": f"static {VALUES[v][0]}:{i}"})
    return out


# ------------------------------------------------------------------------------ run one case on the implementation
def exn_name(e):
    return type(e).__name__


def run_case(case):
    """returns (observations, failures).  failures: list of (signature, what)"""
    from cascade.low.builders import JobBuilder
    from cascade.low.core import JobInstance
    import random
    fails = []
    texprs = case["texprs"]
    objs, tobs, tcanon = [], [], []
    for te in texprs:
        try:
            # with_values oracle needs the object it was derived from: realise step by step
            chain = []
            cur = te
            while cur["kind"] == "with":
                chain.append(cur)
                cur = cur["base"]
            t = realise(cur)
            for w in reversed(chain):
                before = task_canon(t)
                args = [POOL[i] for i in w["args"]]
                kwargs = {n: POOL[i] for n, i in w["kwargs"]}
                t2 = t.with_values(*args, **kwargs)
                after_base = task_canon(t)
                got = task_canon(t2)
                exp_kw = dict(before["kw"])
                exp_kw.update({n: i for n, i in w["kwargs"]})
                exp_ps = dict(before["ps"])
                exp_ps.update({str(p): i for p, i in enumerate(w["args"])})
                if got["kw"] != exp_kw or got["ps"] != exp_ps:
                    fails.append(("values-not-carried", f"with_values(*{w['args']}, **{w['kwargs']}) on statics kw={before['kw']} ps={before['ps']} gave kw={got['kw']} ps={got['ps']} (value = pool index)"))
                if got["ischema"] != before["ischema"] or got["oschema"] != before["oschema"]:
                    fails.append(("values-not-carried", "with_values changed the task definition"))
                if after_base != before or t2 is t:
                    fails.append(("earlier-object-mutated", f"with_values mutated the task it was derived from: {before} -> {after_base}"))
                t = t2
            objs.append(t)
            tobs.append(("task", task_canon(t)))
            tcanon.append(task_canon(t))
        except Exception as e:
            if te_in_domain(te):
                fails.append(("task-construction-raised", f"{exn_name(e)}: {e} for {jdump(te)[:300]}"))
            objs.append(None)
            tobs.append(("raised", exn_name(e)))
            tcanon.append(None)
    usable = [i for i, o in enumerate(objs) if o is not None]
    if case.get("steps") is None:
        case["steps"] = gen_tree(random.Random(case["seed"]), texprs, usable, case["nsteps"])
    steps = case["steps"]

    builders = [JobBuilder()]
    descs = [{"nodes": {}, "edges": []}]
    results = []          # per builder: ("job", canon, obj) | ("problems", n) | ("raised", name)

    def build_and_check(b, d):
        in_dom = all(te_in_domain(texprs[ix]) for ix in d["nodes"].values()) and all(isinstance(e[3], (str, int)) for e in d["edges"])
        try:
            r = b.build()
        except Exception as e:
            if in_dom:
                fails.append(("build-raised", f"build() raised {exn_name(e)}: {e}"))
            return ("raised", exn_name(e))
        t, e = getattr(r, "t", None), getattr(r, "e", None)
        if t is not None and not e:
            if not isinstance(t, JobInstance):
                fails.append(("either-shape", f"Either.ok carries {type(t).__name__}"))
                return ("raised", "not-a-job")
            jc = job_canon(t)
            # the job carries exactly what was given
            exp_tasks = {n: tcanon[ix] for n, ix in d["nodes"].items()}
            if jc["tasks"] != exp_tasks:
                fails.append(("values-not-carried", f"job tasks differ from the tasks given: got {jdump(jc['tasks'])[:400]} expected {jdump(exp_tasks)[:400]}"))
            exp_edges = sorted(jdump([s, o, k, i if isinstance(i, str) else None, i if not isinstance(i, str) else None]) for s, o, k, i in d["edges"])
            if sorted(jdump(list(x)) for x in jc["edges"]) != exp_edges:
                fails.append(("edges-not-carried", f"job edges {jc['edges']} differ from the edges given {d['edges']}"))
            if jc["serdes"] or jc["ext"]:
                fails.append(("values-not-carried", "job has serdes / ext_outputs nobody gave"))
            # every edge of the accepted job is well formed (judged on the generator's record of the tasks)
            for (s, o, k, ikw, ips) in jc["edges"]:
                if s not in d["nodes"]:
                    fails.append(("accepted-dangling-source-task", f"accepted edge from missing task {s!r}"))
                    continue
                so = spec_schema(texprs[d["nodes"][s]])[1]
                if o not in so:
                    fails.append(("accepted-dangling-source-output", f"accepted edge from missing output {s!r}.{o!r} (outputs {list(so)})"))
                if k not in d["nodes"]:
                    fails.append(("accepted-dangling-sink-task", f"accepted edge into missing task {k!r}"))
                    continue
                if ikw is not None:
                    si = spec_schema(texprs[d["nodes"][k]])[0]
                    if ikw not in si:
                        fails.append(("accepted-dangling-sink-param", f"accepted edge into missing parameter {k!r}.{ikw!r} (parameters {list(si)})"))
                    elif o in so and compat(so[o], si[ikw]) is False:
                        fails.append(("accepted-incompatible-types", f"accepted edge {s!r}.{o!r}:{so[o]} -> {k!r}.{ikw!r}:{si[ikw]}"))
            return ("job", jc, t)
        if isinstance(e, list) and e and all(isinstance(x, str) for x in e) and t is None:
            return ("problems", len(e))
        fails.append(("either-shape", f"build() returned neither a job nor a non-empty list of problems: t={t!r} e={e!r}"))
        return ("raised", "bad-either")

    results.append(build_and_check(builders[0], descs[0]))
    for p, op in steps:
        b, d = builders[p], descs[p]
        if op[0] == "node":
            nb = b.with_node(op[1], objs[op[2]])
            nd = {"nodes": {**d["nodes"], op[1]: op[2]}, "edges": list(d["edges"])}
        else:
            _, s, k, into, frum = op
            nb = b.with_edge(s, k, into) if frum is None else b.with_edge(s, k, into, frum)
            nd = {"nodes": dict(d["nodes"]), "edges": d["edges"] + [[s, "0" if frum is None else frum, k, into]]}
        if nb is b:
            fails.append(("earlier-object-mutated", "with_node/with_edge returned the builder itself"))
        builders.append(nb)
        descs.append(nd)
        results.append(build_and_check(nb, nd))
    # persistence: nothing built earlier has changed, and earlier builders still build the same thing
    for ix, (b, d, r) in enumerate(zip(builders, descs, results)):
        if r[0] == "job" and jdump(job_canon(r[2])) != jdump(r[1]):
            fails.append(("earlier-object-mutated", f"job built from builder #{ix} changed after later builder operations: {jdump(r[1])[:300]} -> {jdump(job_canon(r[2]))[:300]}"))
        n0 = len(fails)
        r2 = build_and_check(b, d)
        del fails[n0:]                 # the same complaint was already recorded the first time
        if (r2[0], r2[1]) != (r[0], r[1]):
            fails.append(("earlier-object-mutated", f"builder #{ix} builds something else after later operations on derived builders: {str(r[:2])[:300]} -> {str(r2[:2])[:300]}"))
    for ix, (o, c) in enumerate(zip(objs, tcanon)):
        if o is not None and task_canon(o) != c:
            fails.append(("earlier-object-mutated", f"task #{ix} changed while jobs were built"))
    return {"tobs": tobs, "results": [r[:2] for r in results], "descs": descs}, fails


# ------------------------------------------------------------------------------ Coq terms
def cval(i):
    if not isinstance(i, int):
        raise ValueError(f"value outside the pool: {i}")
    return f"(V {cstr(VALUES[i][1])} {cN(i)})"


def cdict(items, f):
    return clist([f"({cstr(k)}, {f(v)})" for k, v in items])


def cann(a):
    k = a[0]
    if k == "empty":
        return "AEmpty"
    if k == "none":
        return "ANoName"
    if k == "str":
        return f"(AStr {cstr(a[-1])})"
    return f"(AType {cstr(a[-1])})"


KIND = {"posonly": "PosOnly", "poskw": "PosOrKw", "varpos": "VarPos", "kwonly": "KwOnly", "varkw": "VarKw"}


def ctexpr(te):
    k = te["kind"]
    if k == "callable":
        ps = clist([f"P {cstr(p['name'])} {KIND[p['kind']]} {cann(p['ann'])} {copt(p['default'], cval)}" for p in te["params"]])
        return f"(TFromCallable {ps} {cann(te['ret'])})"
    if k == "entrypoint":
        return f"(TFromEntrypoint {cdict(te['ischema'], cstr)} {cstr(te['out'])})"
    if k == "raw":
        return f"(TRaw (T (TD {cdict(te['ischema'], cstr)} {cdict(te['oschema'], cstr)}) {cdict(te['kw'], cval)} {cdict(te['ps'], cval)}))"
    return f"(TWithValues {ctexpr(te['base'])} {clist(te['args'], cval)} {cdict(te['kwargs'], cval)})"


def ctask(c):
    return f"(T (TD {cdict(c['ischema'].items(), cstr)} {cdict(c['oschema'].items(), cstr)}) {cdict(c['kw'].items(), cval)} {cdict(c['ps'].items(), cval)})"


def cinto(i):
    return f"(IntoKw {cstr(i)})" if isinstance(i, str) else f"(IntoPs {cZ(i)})"


def ccase(case, obs):
    tes = clist([f"({ctexpr(te)}, " + (f"TObsTask {ctask(o[1])}" if o[0] == "task" else f"TObsRaised {cstr(o[1])}") + ")" for te, o in zip(case["texprs"], obs["tobs"])])
    steps = []
    for p, op in case["steps"]:
        if op[0] == "node":
            steps.append(f"({cnat(p)}, SNode {cstr(op[1])} {cnat(op[2])})")
        else:
            steps.append(f"({cnat(p)}, SEdge {cstr(op[1])} {cstr(op[2])} {cinto(op[3])} {cstr('0' if op[4] is None else op[4])})")
    bobs = []
    for r in obs["results"]:
        if r[0] == "job":
            ts = clist([f"({cstr(n)}, {ctask(t)})" for n, t in r[1]["tasks"].items()])
            es = clist([f"E {cstr(s)} {cstr(o)} {cstr(k)} {cinto(ikw if ikw is not None else ips)}" for s, o, k, ikw, ips in r[1]["edges"]])
            bobs.append(f"BObsJob {ts} {es}")
        elif r[0] == "problems":
            bobs.append(f"BObsProblems {cnat(r[1])}")
        else:
            bobs.append(f"BObsRaised {cstr(r[1])}")
    return f"({tes}, {clist(steps)}, {clist(bobs)})"


# ------------------------------------------------------------------------------ driver
def stored(case):
    return {k: case[k] for k in ("texprs", "steps", "odd") if k in case}


def run(ctx, res):
    res.rule = ("one evaluation = one JobBuilder.build() of one builder of a generated tree of derived builders (plus the exhaustive type-pair / value-type matrices); "
                "non-trivial = the builder has at least one edge or one static value; distinct = distinct (tasks as observed, edges) description")
    rng = ctx.sub_rng("trees")
    cases = matrix_cases() + [gen_case(rng) for _ in range(ctx.n(1200, 30000))]
    terms, metas = [], []
    for case in cases:
        obs, fails = run_case(case)
        for sig, what in fails:
            res.fail(sig, what, stored(case))
        for d, r in zip(obs["descs"], obs["results"]):
            res.evaluations += 1
            res.count("outcome:" + r[0])
            if r[0] == "job" and d["edges"]:
                res.count("outcome:job-with-edges")
                if any(isinstance(e[3], str) for e in d["edges"]):
                    res.count("outcome:job-with-keyword-edges")
            res.count("edges:" + str(min(len(d["edges"]), 6)) + ("+" if len(d["edges"]) >= 6 else ""))
            tasks = {n: obs["tobs"][ix][1] for n, ix in d["nodes"].items()}
            if d["edges"] or any(t["kw"] or t["ps"] for t in tasks.values()):
                res.nontrivial_keys.add(jdump([tasks, d["edges"]]))
        res.count("case:" + ("matrix" if "matrix" in case else "odd-annotations" if case["odd"] else "in-domain"))
        for o in obs["tobs"]:
            res.count("task:" + ("created" if o[0] == "task" else "raised:" + o[1]))
        if len(res.samples) < 3 and "matrix" not in case and any(r[0] == "job" and r[1]["edges"] for r in obs["results"]):
            res.samples.append({"steps": case["steps"], "outcomes": [r[0] if r[0] != "problems" else f"problems:{r[1]}" for r in obs["results"]],
                                "tasks": [o[1] for o in obs["tobs"]]})
        try:
            terms.append(ccase(case, obs))
            metas.append(case)
        except ValueError as e:          # a foreign value or unprintable name: the oracle has already complained
            res.disagree(f"case cannot be written as a Coq term: {e}", stored(case))
    r, logs = coq_results("C19", HEADER, terms, "check_case", shard=ctx.n(120, 400), tag="trees")
    res.corr_checked += len(r)
    for ok, case in zip(r, metas):
        if ok is not True:
            res.disagree("Coq model of TaskBuilder/JobBuilder disagrees with cascade.low.builders" +
                         ("" if ok is False else " (cases file did not compile: " + (logs[0][-400:] if logs else "") + ")"), stored(case))
            break


def shrink(ctx, f):
    """shortest prefix of the tree that still fails with the same signature"""
    case = f["case"]
    if not case.get("steps"):
        return f
    for n in range(len(case["steps"]) + 1):
        c = {**case, "steps": case["steps"][:n]}
        try:
            _, fails = run_case(c)
        except Exception:
            continue
        hit = [x for x in fails if x[0] == f["signature"]]
        if hit:
            return {"signature": f["signature"], "what": hit[0][1], "case": stored(c)}
    return f


def search(ctx, res):
    import random
    rng = random.Random(f"C19:{ctx.seed}:search")
    for k in range(6000):
        case = gen_case(rng, odd=False)
        try:
            _, fails = run_case(case)
        except Exception as e:
            return {"signature": "harness-cannot-drive-builders", "what": repr(e), "case": stored(case)}
        if fails:
            f = {"signature": fails[0][0], "what": fails[0][1], "case": stored(case)}
            return shrink(ctx, f)
    return None


def replay(ctx, case):
    c = case.get("case", case)
    if "texprs" not in c or c.get("steps") is None:
        return {"fails": None, "note": "no concrete input stored (proof / correspondence breakage): re-run ./check C19"}
    _, fails = run_case(dict(c))
    sig = case.get("signature")
    hit = [f for f in fails if sig is None or f[0] == sig]
    return {"fails": bool(hit), "failures": [list(f) for f in fails[:5]]}
