"""Value classes for the C01 check: a type with a custom serde registered through JobInstance.serdes, and a strict
subclass of it that has none (it must travel by cloudpickle and come back as itself)."""
import cloudpickle


class Box:
    def __init__(self, payload):
        self.payload = payload

    def __repr__(self):
        return f"{type(self).__name__}({self.payload!r})"


class SubBox(Box):
    """what a serde written for Box cannot represent: it would come back as a plain Box"""


def box_ser(b) -> bytes:
    return b"BOX" + cloudpickle.dumps(b.payload)


def box_des(v):
    raw = bytes(v)
    assert raw[:3] == b"BOX"
    return Box(cloudpickle.loads(raw[3:]))
