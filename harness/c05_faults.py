"""C05, runtime half: bounded fault enumeration on REAL processes.

One scenario = one real cluster (controller in this process, `hosts` executor processes, each
with its shm server, data server and `workers` worker processes, zmq + /dev/shm), one fault
injected at a chosen crash point, and four observations taken within deadlines:

  outcome   `cascade.controller.impl.run` returned / raised / did not end before the deadline
  values    the outputs it returned (compared with the sequential values by the caller)
  procs     processes of this scenario's session still alive after the executors' exit grace
  shm       /dev/shm segments carrying this scenario's host prefixes after that grace

This file is executed as a script in a fresh session (`start_new_session=True`) by harness/c05.py,
one process per scenario, so that every descendant can be found (session id) and killed, and
the check itself can never hang.  It prints one JSON line on stdout.  Host ids, ports, ipc
socket paths and shm prefixes are unique per scenario.
"""
from __future__ import annotations

import glob
import json
import os
import signal
import sys
import threading
import time

START_DEADLINE_S = 90.0    # the cluster must have registered by then, else the scenario is inconclusive (machine load)
RUN_DEADLINE_S = 40.0      # measured from registration: run() must have ended (returned or raised) by then
EXIT_GRACE_S = 30.0        # after run() ended: executors and their children must be gone by then
BUSY_WAIT_S = 2.5          # scenarios with a busy companion task: how long fault and companion wait for each other

KINDS = ["none", "raise", "sysexit", "osexit", "sigkill", "kill_ds", "kill_shm", "term_shm", "term_ds",
         "kill_sibling", "kill_siblings"]
POINTS = ["before", "between", "after"]


# ----------------------------------------------------------------------------- fault injection (runs in a worker)
def _pid_gone(pid: int, wait_s: float = 3.0) -> None:
    t0 = time.time()
    while time.time() - t0 < wait_s:
        try:
            with open(f"/proc/{pid}/stat") as f:
                st = f.read().rsplit(")", 1)[1].split()[0]
            if st == "Z":
                return
        except OSError:
            return
        time.sleep(0.02)


def inject(kind: str, code: int, piddir: str) -> None:
    """Called from inside a task body (the worker process)."""
    if kind == "none":
        return
    if kind == "raise":
        raise RuntimeError("injected task failure")
    if kind == "sysexit":
        sys.exit(code)
    if kind == "osexit":
        os._exit(code)
    if kind == "sigkill":
        os.kill(os.getpid(), signal.SIGKILL)
        time.sleep(10)
    # helper processes of the executor that owns this worker
    with open(os.path.join(piddir, f"{os.getppid()}.json")) as f:
        pids = json.load(f)
    if kind in ("kill_ds", "term_ds"):
        os.kill(pids["ds"], signal.SIGKILL if kind == "kill_ds" else signal.SIGTERM)
        _pid_gone(pids["ds"])
    elif kind in ("kill_shm", "term_shm"):
        os.kill(pids["shm"], signal.SIGKILL if kind == "kill_shm" else signal.SIGTERM)
        _pid_gone(pids["shm"])
    elif kind in ("kill_sibling", "kill_siblings"):
        # another worker process of the same executor (idle or busy) / a wave: all the other workers at once
        me = os.getpid()
        victims = [p for p in pids_of_parent(os.getppid()) if p != me and p not in (pids["ds"], pids["shm"])]
        if kind == "kill_sibling":
            victims = victims[:1]
        for p in victims:
            os.kill(p, signal.SIGKILL)
        for p in victims:
            _pid_gone(p)
    else:
        raise AssertionError(kind)


def pids_of_parent(ppid: int) -> list[int]:
    out = []
    for d in os.listdir("/proc"):
        if d.isdigit():
            try:
                with open(f"/proc/{d}/stat") as f:
                    rest = f.read().rsplit(")", 1)[1].split()
                if int(rest[1]) == ppid and rest[0] != "Z":
                    out.append(int(d))
            except OSError:
                pass
    return sorted(out)


# ----------------------------------------------------------------------------- the job
EXPECTED = {"c0.0": 11, "c1.0": 40, "s.0": 7, "g.1": 20}
EXTRA_BASE = 100           # extra task e<i> returns EXTRA_BASE + i


def make_job(sc: dict, piddir: str):
    """g (generator, outputs "0","1") -> c0 = g.0 + 1, c1 = g.1 * 2; s = 7 independent.
    External outputs: c0, c1, s and (shape "gout") g.1 itself.
    extra = n: n more independent tasks e0..e<n-1> (e<i> = 100 + i), all external outputs: they are published to the
    host's shared memory and stay there until the end, so the shm server has something to sweep at the teardown.
    busy = "sleep" | "gen": one more independent task z (plain / generator) that never ends once the fault is armed,
    so that the teardown meets a worker which will not read its shutdown request."""
    from cascade.low.builders import JobBuilder, TaskBuilder
    from cascade.low.core import DatasetId, TaskDefinition, TaskInstance

    f = sc["fault"]
    kind, code, site, point = f["kind"], int(f.get("code", 1)), f.get("site", "g"), f.get("point", "before")

    busy = sc.get("busy")
    armed, blocked = os.path.join(piddir, "fault.armed"), os.path.join(piddir, "z.blocked")

    def wait_for(path, seconds):
        t0 = time.time()
        while time.time() - t0 < seconds and not os.path.exists(path):
            time.sleep(0.02)
        return os.path.exists(path)

    def at(s, p):
        if kind != "none" and s == site and p == point:
            if busy:
                # give the companion task the chance to be inside its never-ending part when the fault happens
                open(armed, "w").close()
                wait_for(blocked, BUSY_WAIT_S)
            inject(kind, code, piddir)

    def block_if_armed():
        # never-ending only once the fault is certain to happen: without a fault a never-ending task is no failure,
        # and if this task sits in front of the faulty one on the same worker it must get out of its way
        if wait_for(armed, BUSY_WAIT_S + 0.5):
            open(blocked, "w").close()
            time.sleep(3600)

    def z() -> int:
        block_if_armed()
        return 5

    def zg():
        yield 5
        block_if_armed()       # stuck between two outputs, the first one already handled
        yield 6

    def g():
        at("g", "before")
        yield 10
        at("g", "between")      # runs after output "0" was handled (published if needed)
        yield 20
        at("g", "after")        # runs after both outputs were handled

    def c0(x: int) -> int:
        at("c0", "before")
        return x + 1

    def c1(x: int) -> int:
        at("c1", "before")
        return x * 2

    def s() -> int:
        at("s", "before")
        time.sleep(float(sc.get("s_sleep", 0.0)))
        return 7

    gd = TaskDefinition(func=TaskDefinition.func_enc(g), environment=[], input_schema={},
                        output_schema={"0": "int", "1": "int"})
    b = JobBuilder().with_node("g", TaskInstance(definition=gd, static_input_kw={}, static_input_ps={}))
    b = b.with_node("c0", TaskBuilder.from_callable(c0)).with_edge("g", "c0", "x", "0")
    b = b.with_node("c1", TaskBuilder.from_callable(c1)).with_edge("g", "c1", "x", "1")
    b = b.with_node("s", TaskBuilder.from_callable(s))
    if busy == "sleep":
        b = b.with_node("z", TaskBuilder.from_callable(z))
    elif busy == "gen":
        zd = TaskDefinition(func=TaskDefinition.func_enc(zg), environment=[], input_schema={},
                            output_schema={"0": "int", "1": "int"})
        b = b.with_node("z", TaskInstance(definition=zd, static_input_kw={}, static_input_ps={}))
    def mk_extra(i):
        def e() -> int:
            return EXTRA_BASE + i
        return e

    n_extra = int(sc.get("extra", 0))
    for i in range(n_extra):
        b = b.with_node(f"e{i}", TaskBuilder.from_callable(mk_extra(i)))
    job = b.build().get_or_raise()
    outs = [DatasetId("c0", "0"), DatasetId("c1", "0"), DatasetId("s", "0")]
    if sc.get("shape") == "gout":
        outs.append(DatasetId("g", "1"))
    outs += [DatasetId(f"e{i}", "0") for i in range(n_extra)]
    job.ext_outputs = outs
    return job


# ----------------------------------------------------------------------------- executor launcher (mirrors benchmarks.__main__.launch_executor)
def launch_executor(job, caddr, workers, host, port_base, piddir, quiet, sweep_delay=0.0):
    import logging.config

    from cascade.executor.config import logging_config
    from cascade.executor.executor import Executor
    cfg = dict(logging_config)
    if quiet:
        cfg = {"version": 1, "disable_existing_loggers": True, "handlers": {"n": {"class": "logging.NullHandler"}},
               "root": {"level": "CRITICAL", "handlers": ["n"]}}
        import cascade.executor.config as cc
        import cascade.executor.executor as ce
        cc.logging_config = cfg
        ce.logging_config = cfg
        try:
            import cascade.executor.runner.entrypoint as cep
            cep.logging_config = cfg
        except Exception:
            pass
    logging.config.dictConfig(cfg)
    os.environ["CASCADE_GPU_COUNT"] = "0"
    if sweep_delay:
        # The environment decides how long the shm server's at-exit sweep takes (number and size of the segments, the
        # paged-out files it has to remove).  With a handful of tiny segments it is over in ~100 us, and whether a
        # server that is cut short leaves anything is a coin toss; here the sweep takes `sweep_delay` seconds longer.
        # Seam replaced from outside, in this process, before the shm server is forked from it.
        import cascade.shm.dataset as sd
        orig_atexit = sd.Manager.atexit

        def slow_atexit(self):
            time.sleep(sweep_delay)
            return orig_atexit(self)
        sd.Manager.atexit = slow_atexit
    ex = Executor(job, caddr, workers, host, port_base, None)
    with open(os.path.join(piddir, f"{os.getpid()}.json"), "w") as f:
        json.dump({"shm": ex.shm_process.pid, "ds": ex.data_server.pid, "host": host}, f)
    ex.register()
    ex.recv_loop()


# ----------------------------------------------------------------------------- observation helpers
def session_procs(sid: int, me: int) -> list[dict]:
    out = []
    for d in os.listdir("/proc"):
        if not d.isdigit() or int(d) == me:
            continue
        try:
            with open(f"/proc/{d}/stat") as f:
                rest = f.read().rsplit(")", 1)[1].split()
            if int(rest[3]) == sid:
                out.append({"pid": int(d), "state": rest[0], "ppid": int(rest[1])})
        except OSError:
            pass
    return out


def shm_segments(hosts: list[str]) -> list[str]:
    out = []
    for h in hosts:
        out += [os.path.basename(p) for p in glob.glob(f"/dev/shm/sCasc{h}*")]
    return sorted(out)


def free_port_base(rng_seed: int) -> int:
    import random
    import socket
    r = random.Random(rng_seed ^ os.getpid())
    for _ in range(200):
        base = r.randrange(21000, 60000, 50)
        ok = True
        socks = []
        try:
            for off in range(0, 40):
                s = socket.socket(socket.AF_INET, socket.SOCK_STREAM)
                s.bind(("0.0.0.0", base + off))
                socks.append(s)
                u = socket.socket(socket.AF_INET, socket.SOCK_DGRAM)
                u.bind(("0.0.0.0", base + off))
                socks.append(u)
        except OSError:
            ok = False
        finally:
            for s in socks:
                s.close()
        if ok:
            return base
    raise RuntimeError("no free port range")


def cleanup(sid: int, me: int, hosts: list[str]) -> None:
    for _ in range(3):
        for p in session_procs(sid, me):
            try:
                os.kill(p["pid"], signal.SIGKILL)
            except OSError:
                pass
        time.sleep(0.05)
    cleanup_files(hosts)


def cleanup_files(hosts: list[str]) -> None:
    for h in hosts:
        for p in glob.glob(f"/dev/shm/sCasc{h}*") + glob.glob(f"/tmp/{h}.w*.socket"):
            try:
                os.unlink(p)
            except OSError:
                pass


# ----------------------------------------------------------------------------- one scenario
def run_scenario(sc: dict) -> dict:
    import logging
    import logging.config
    import tempfile
    from multiprocessing import get_context

    quiet = not sc.get("verbose")
    me = os.getpid()
    sid = os.getsid(0)
    tag = sc["tag"]                      # short unique string, [a-z0-9]{4,6}
    nh, nw = int(sc.get("hosts", 1)), int(sc.get("workers", 2))
    hosts = [f"{tag}{i}" for i in range(nh)]
    piddir = tempfile.mkdtemp(prefix=f"c05_{tag}_")
    obs: dict = {"tag": tag, "hosts": hosts}
    ps = []
    try:
        base = free_port_base(int(sc.get("seed", 0)))
        job = make_job(sc, piddir)
        from cascade.controller.impl import run
        from cascade.executor.bridge import Bridge
        from cascade.scheduler.graph import precompute
        if quiet:
            logging.config.dictConfig({"version": 1, "disable_existing_loggers": True,
                                       "handlers": {"n": {"class": "logging.NullHandler"}},
                                       "root": {"level": "CRITICAL", "handlers": ["n"]}})
        caddr = f"tcp://localhost:{base}"
        ctx = get_context("fork")
        for i, h in enumerate(hosts):
            p = ctx.Process(target=launch_executor, args=(job, caddr, nw, h, base + 1 + i * 10, piddir, quiet, float(sc.get("sweep_delay", 0.0))))
            p.start()
            ps.append(p)
        result: dict = {}

        def body():
            try:
                pre = precompute(job)
                b = Bridge(caddr, nh)
                result["t_registered"] = time.time()
                st = run(job, b, pre)
                result["outcome"] = "returned"
                result["values"] = {repr(k): (v if isinstance(v, (int, str, type(None))) else repr(v))
                                    for k, v in st.outputs.items()}
            except BaseException as e:  # noqa
                result["outcome"] = "raised"
                result["exc"] = type(e).__name__
                result["detail"] = repr(e)[:300]

        t0 = time.time()
        th = threading.Thread(target=body, daemon=True)
        th.start()
        while th.is_alive() and "t_registered" not in result and time.time() - t0 < START_DEADLINE_S:
            th.join(0.05)
        if th.is_alive() and "t_registered" not in result:
            obs["outcome"] = "not-started"
            return obs
        th.join(max(0.0, result.get("t_registered", t0) + RUN_DEADLINE_S - time.time()))
        t1 = time.time()
        if th.is_alive():
            obs["outcome"] = "hang"
        else:
            obs.update(result)
        obs["registered"] = "t_registered" in result
        obs["run_s"] = round(t1 - result.get("t_registered", t0), 2)
        obs.pop("t_registered", None)
        # what the hosts hold in shared memory when the run has ended (the teardown is under way or about to begin)
        obs["shm_at_end"] = len(shm_segments(hosts))
        # executors (and everything they started) must now go away on their own
        grace_end = time.time() + EXIT_GRACE_S
        left = None
        while time.time() < grace_end:
            left = [p for p in session_procs(sid, me) if p["state"] != "Z" or p["ppid"] == me]
            # our own finished children are reaped by join below; a zombie child of ours means it exited
            left = [p for p in left if not (p["ppid"] == me and p["state"] == "Z")]
            if not left:
                break
            time.sleep(0.1)
        for p in ps:
            p.join(0)
        obs["exit_s"] = round(time.time() - t1, 2)
        execs = {p.pid for p in ps}
        obs["procs_left"] = len(left or [])
        obs["executors_left"] = sum(1 for p in (left or []) if p["pid"] in execs)
        obs["shm_left"] = len(shm_segments(hosts))
        if sc.get("busy"):
            obs["busy_engaged"] = os.path.exists(os.path.join(piddir, "z.blocked"))
        obs["executor_exitcodes"] = [p.exitcode for p in ps]
    except BaseException as e:  # noqa  (driver trouble, not an observation)
        obs["driver_error"] = repr(e)[:500]
    finally:
        cleanup(sid, me, hosts)
        try:
            import shutil
            shutil.rmtree(piddir, ignore_errors=True)
        except Exception:
            pass
    return obs


if __name__ == "__main__":
    sc = json.loads(sys.argv[1])
    o = run_scenario(sc)
    sys.stdout.write("\nC05OBS " + json.dumps(o) + "\n")
    sys.stdout.flush()
    os._exit(0)
