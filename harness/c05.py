"""C05 -- a failing task or a dying worker-side process fails the run, never hangs it; nothing is left behind.

Four streams, all seeded:
  A  real Executor.recv_loop / healthcheck / terminate (object.__new__, fake child processes, recording
     collaborators, fake clock) over generated histories of message batches and child faults; compared call by
     call with Net.Executor.apply_ev inside Coq; direct oracle: a dead child is reported + torn down by the next
     iteration, a terminated executor has no live child, exactly one Exit/Failure report.
     The teardown is TIMED: workers are idle, busy for 1 ms .. 1 h, stuck for ever or unreachable when it
     begins; the fake Process.join treats its timeout as CPython does (None = for ever, too large = OverflowError);
     the monotonic / wall / perf clocks have unrelated epochs (uptime 0 .. 460 days).  Oracle: the teardown comes
     back, within the period the real-process stream grants, and nobody who is not about to leave is left alive.
     Every join/kill with its timeout is compared with Net.Teardown.reap_t (check_teardown).
     Round 5: ALL THREE phases of the teardown are timed.  1..8 workers, waves of dead workers: a shutdown request to a
     worker whose process is gone costs the linger of its socket; the fake shm server holds 0..200 segments, acknowledges
     the shutdown request at once and exits 0 ms .. 7 s later, having unlinked them -- killed before that, they stay.
     Oracle: a terminated executor whose shm server was not SIGKILLed by an injected fault has left no segment.
     The join/kill calls on the shm server and the total time are compared with Net.Teardown.teardown_t.
  B  real entrypoint.execute_sequence + runner.run over generated task sequences (ok / raise / sys.exit,
     single and generator outputs); compared with Net.Executor.execute_sequence; oracle: no silent failure.
  C  real Bridge.recv_events / Bridge.shutdown over scripted batches; compared with Net.Executor.recv_events.
  D  REAL processes (harness/c05_faults.py): one cluster per scenario, a fault injected at a crash point,
     deadlines on run() and on the teardown; oracle = the property read literally; each observation is also
     checked against the model's verdict (ExecutorCheck.check_scenario).  Round 5: scenarios whose teardown is long
     (a worker that does not leave; a wave of 6..7 dead workers on one host) run on hosts that hold extra datasets in
     shared memory, with a shm server whose at-exit sweep takes 0.3 s (seam replaced in the launcher).
"""
from __future__ import annotations

import json
import os
import subprocess
import sys
import time
from concurrent.futures import ThreadPoolExecutor

from common import BUILD, PY, REPO, cbool, clist, cnat, copt, coq_results, cZ, load_findings

import c05_faults as F

TRUSTED = [
    "C05 runtime half is NOT a theorem: process table, /dev/shm, signals, zmq linger are observed by bounded fault "
    "enumeration on real processes (harness/c05_faults.py), with deadlines and a serial re-run of any suspicious outcome",
    "fake child processes / listener / sender / shm client used to drive the real Executor and Bridge methods in-process; "
    "the `time` module seen by cascade.executor.executor is replaced by views of one fake clock",
    "real-process scenarios with `sweep_delay`: cascade.shm.dataset.Manager.atexit is wrapped (in the launcher, before the shm server "
    "is forked) to sleep 0.3 s before the real sweep -- stands for a host with many / large segments",
]
ASSUMPTIONS = [
    "delivery: what an executor sends with to_controller is contained in a batch the controller reads (C06's property); "
    "stated as the `incl` hypothesis of C05_failure_ends_run",
    "payload integrity (C07) for `never a wrong value`: C05_run_never_invents only shows values come from payloads",
    "to_controller / callback / logging do not raise inside the executor's exception handler",
    "the scheduler part of controller.run is abstracted to `which requested outputs have a value`; ReliableSender.maybe_retry "
    "and the heartbeat bookkeeping of Bridge.recv_events are not modelled",
    "a worker process has exited, or leaves a given time after it was asked to (0 = idle, longer = inside a task), or never reads "
    "another message; Process.join(timeout) as in CPython 3.12 (None waits for ever, <= 0 polls, more than INT_MAX ms raises "
    "OverflowError, a known exit code returns at once); time passes only while the executor waits (Net/Teardown.v): in join, and in "
    "callback() for the linger of its socket (1 s) when the addressed worker's process is gone -- a shutdown request to a live or an "
    "unreachable worker takes no time; Net/Executor.v's `Stuck` = has not left when the deadline of the worker phase comes "
    "(C05_terminate_is_timed, C05_teardown_is_terminate)",
    "the shm server answers the ShutdownCommand before it unlinks its segments (shm/server.py), gets through that sweep in a finite "
    "time of its own (number/size of segments, disk clean-up) and then exits; a SIGKILL before that leaves segments; a server that "
    "never finishes (`SWedged`) has not died and is outside the property (the code would wait for it for ever)",
    "the monotonic and the wall clock advance at the same rate during a teardown (no clock step), their epochs are unrelated",
    "SIGTERM to the shm server runs its handler (segments unlinked), SIGKILL does not; modelled by EvShmDies Term/Kill",
]
SIG_SHM_KILL = "shm-server-sigkill-leaks-segments"

HEADER = """From Coq Require Import List ZArith Bool Arith String.
From EKW Require Import Net.Executor Net.Teardown Net.ExecutorCheck.
Import ListNotations."""


# ============================================================================ stream A: executor histories
class _Stop(BaseException):
    pass


GRACE_MS = 5000            # cascade.executor.executor.worker_shutdown_grace_s, in the model's unit (Net/Teardown.grace)
BUSY_MS = [1, 100, 2000, 4999, 5000, 5001, 20000, 3600000]
LINGER_MS = 1000           # cascade.executor.comms: ZMQ_LINGER of the socket callback() sends with (Net/Teardown.linger)
SWEEP_MS = [0, 1, 1, 3, 40, 40, 900, 4999, 5000, 5001, 7000]        # shm server: from its Ok to the ShutdownCommand to its exit
MONO0_MS = [0, 500, 1234500, 1234500, 2600000000, 40000000000]      # uptimes from "just booted" to beyond INT_MAX ms
WALL0_MS = [1790000000000, 1790000000000, 1790000000000, 1000000000000, 100000]


def _gen_msgs(rng, n, pub):
    ms = []
    for _ in range(rng.choice([0, 0, 1, 1, 2, 3, 4])):
        q = rng.random()
        if q < 0.25:
            ms.append(["seq", rng.choice(list(range(n)) + ([9] if rng.random() < 0.1 else []))])
        elif q < 0.4:
            ms.append(["ack", rng.randrange(5)])
        elif q < 0.6:
            d = rng.randrange(6)
            pub.append(d)
            ms.append(["pub", d])
        elif q < 0.75:
            ms.append(["purge", rng.choice(pub) if pub and rng.random() < 0.8 else rng.randrange(6)])
        elif q < 0.85:
            ms.append(["tfail", rng.randrange(n), rng.randrange(4)])
        elif q < 0.9:
            ms.append(["xfail"])
        elif q < 0.96:
            ms.append(["shutdown"])
        else:
            ms.append(["other"])
    return ms


def _gen_worker_trouble(rng, n):
    """a worker that will not (or not at once) leave when asked to"""
    r = rng.random()
    if r < 0.45:
        return ["wstuck", rng.randrange(n)]
    if r < 0.9:
        return ["wbusy", rng.randrange(n), rng.choice(BUSY_MS)]
    return ["wdeaf", rng.randrange(n)]


def gen_exec_case(rng):
    n = rng.choice([1, 2, 2, 3, 4, 4, 6, 8])
    ns = [w for w in range(n) if rng.random() < 0.04]
    evs = []
    pub = []
    mono0 = rng.choice(MONO0_MS)
    wall0 = mono0 + 3 if rng.random() < 0.05 else rng.choice(WALL0_MS)
    case = {"n": n, "ns": ns, "evs": evs, "mono0": mono0, "wall0": wall0, "shm_race": rng.random() < 0.05,
            # what the host's shm server holds, and how long it takes from acknowledging a shutdown to its exit
            "shm_segs": rng.choice([0, 1, 1, 3, 3, 12, 200]), "shm_sweep": rng.choice(SWEEP_MS)}
    if rng.random() < 0.4:
        # teardown-focused: some workers are busy / stuck / unreachable / dead (one, or a wave of them), then
        # something ends the executor
        for _ in range(rng.randint(0, 2)):
            evs.append(["batch", _gen_msgs(rng, n, pub), False])
        r = rng.random()
        if r < 0.3:
            # a wave: several workers die at the same moment (OOM killer, cgroup limit, kill -9 of the job step)
            for w in rng.sample(range(n), rng.randint(1, n)):
                evs.append(["wdies", w, rng.choice([-9, -9, -9, 1, -15])])
        if r > 0.2:
            for _ in range(rng.randint(1, min(n, 4) + 1)):
                evs.append(_gen_worker_trouble(rng, n))
        r = rng.random()
        if r < 0.4:
            evs.append(["batch", _gen_msgs(rng, n, pub)[:2] + [["shutdown"]], False])
        elif r < 0.6:
            evs += [["wdies", rng.randrange(n), rng.choice([0, 1, -9])], ["batch", _gen_msgs(rng, n, pub), False]]
        elif r < 0.75:
            evs += [["shm", rng.choice(["term", "kill", 1])], ["batch", [], False]]
        elif r < 0.9:
            evs += [["ds", rng.choice([0, -9])], ["batch", [], False]]
        else:
            evs.append(["batch", [["other"]], False])
        if rng.random() < 0.3:
            evs.append(["batch", _gen_msgs(rng, n, pub), False])
        return case
    for _ in range(rng.randint(2, 7)):
        r = rng.random()
        if r < 0.55:
            evs.append(["batch", _gen_msgs(rng, n, pub), rng.random() < 0.25])
        elif r < 0.72:
            evs.append(["wdies", rng.randrange(n + 1), rng.choice([0, 0, 1, 3, -9, -15])])
        elif r < 0.82:
            evs.append(_gen_worker_trouble(rng, n))
        elif r < 0.91:
            evs.append(["shm", rng.choice(["term", "kill", 0, 1])])
        else:
            evs.append(["ds", rng.choice([0, 1, -9])])
    if rng.random() < 0.7:
        evs.append(["batch", [], False])
    return case


class _Hang(BaseException):
    """the call would never return on real processes"""


class FakeClock:
    """Integer milliseconds. Only waiting (join with a timeout, sleep) makes time pass."""

    def __init__(self, mono0, wall0):
        self.now, self.mono0, self.wall0, self.perf0 = 0, mono0, wall0, 77250


class FakeTime:
    """Stands in for the `time` module inside cascade.executor.executor: every clock the module can read
    is a view of one FakeClock, each with its own epoch (as on a real machine)."""

    def __init__(self, clock):
        import time as real
        self._c, self._real = clock, real

    def monotonic(self):
        return (self._c.mono0 + self._c.now) / 1000.0

    def time(self):
        return (self._c.wall0 + self._c.now) / 1000.0

    def perf_counter(self):
        return (self._c.perf0 + self._c.now) / 1000.0

    def monotonic_ns(self):
        return (self._c.mono0 + self._c.now) * 10 ** 6

    def time_ns(self):
        return (self._c.wall0 + self._c.now) * 10 ** 6

    def perf_counter_ns(self):
        return (self._c.perf0 + self._c.now) * 10 ** 6

    def sleep(self, s):
        if s > 10 ** 7:
            raise _Hang(f"sleep({s})")
        self._c.now += max(0, round(s * 1000))

    def __getattr__(self, name):
        return getattr(self._real, name)


CLOCK_FUNCS = ["monotonic", "time", "perf_counter", "monotonic_ns", "time_ns", "perf_counter_ns", "sleep"]


def poll_timeout_ms(timeout):
    """What CPython does with Process.join(timeout) of a live process (Popen.wait -> connection.wait ->
    PollSelector.select -> poll): returns the milliseconds waited at most, None = for ever; raises like CPython."""
    import math
    if timeout is None:
        return None
    if timeout <= 0:
        return 0
    ms = math.ceil(timeout * 1e3)          # ValueError for nan, OverflowError for inf
    if ms > 2 ** 31 - 1:
        raise OverflowError("timeout is too large")
    return max(0, round(timeout * 1000))


def drive_exec(case):
    """Run the real Executor methods over the history, under a fake clock.
    Returns (per-event acts, final, oracle problems, teardown observation | None)."""
    import time as real_time

    import cascade.executor.executor as ex
    from cascade.executor import msg as M
    from cascade.low.core import DatasetId, WorkerId

    host = "h0"
    cur: list = []
    joins: list = []
    shm_calls: list = []
    clock = FakeClock(int(case.get("mono0", 1234500)), int(case.get("wall0", 1790000000000)))
    ftime = FakeTime(clock)

    class Proc:
        def __init__(self, role, idx=None):
            self.role, self.idx = role, idx
            self._exitcode, self.pid, self.alive, self.stuck, self.asked = None, 4242, True, False, False
            self.deaf, self.leave, self.asked_at = False, 0, None
            # shm server: segments it holds, time from acknowledging a shutdown to its exit, killed by an injected fault
            self.segs, self.sweep, self.fault_killed = 0, 0, False

        def _settle(self):
            # a worker that was asked to leave does so when its time has come, whether somebody waits for it or not
            if (self.alive and self.role == "w" and self.asked and not self.stuck and not self.deaf
                    and clock.now >= self.asked_at + self.leave):
                self.alive, self._exitcode = False, 0
            # so does the shm server, once it is through its sweep
            if self.alive and self.role == "shm" and self.asked and clock.now >= self.asked_at + self.sweep:
                self.alive, self._exitcode, self.segs = False, 0, 0

        @property
        def exitcode(self):
            self._settle()
            return self._exitcode

        @exitcode.setter
        def exitcode(self, v):
            self._exitcode = v

        def join(self, timeout=None):
            # NOTE no _settle here: a process that has exited but was not polled yet goes through the timeout handling too
            if not self.alive:
                if self.role == "w":
                    joins.append(("joindead", self.idx))
                return                          # exit code already known: returns at once, whatever the timeout
            if self.role == "w":
                try:
                    t = None if timeout is None else int(max(-1, min(2 ** 62, round(timeout * 1000))))
                except (OverflowError, ValueError):
                    t = 2 ** 62
                joins.append(("join", self.idx, t))
            if self.role == "shm":
                try:
                    t = None if timeout is None else int(max(-1, min(2 ** 62, round(timeout * 1000))))
                except (OverflowError, ValueError):
                    t = 2 ** 62
                shm_calls.append(("sjoin", t))
            ms = poll_timeout_ms(timeout)       # raises what CPython raises for a timeout poll(2) cannot take
            leaves_at = None
            if self.role == "w" and self.asked and not self.stuck and not self.deaf:
                leaves_at = self.asked_at + self.leave
            elif self.role == "shm" and self.asked:
                leaves_at = self.asked_at + self.sweep      # it has acknowledged; now it unlinks what it holds, then exits
            if leaves_at is not None and (ms is None or leaves_at <= clock.now + ms):
                clock.now = max(clock.now, leaves_at)
                self.alive, self.exitcode = False, 0
                if self.role == "shm":
                    self.segs = 0
            elif ms is None:
                raise _Hang(f"join() without timeout of the live {self.role}{'' if self.idx is None else self.idx} which is not going to exit")
            else:
                clock.now += ms

        def is_alive(self):
            self._settle()
            return self.alive

        def kill(self):
            self._settle()
            cur.append(("KillWorker", self.idx) if self.role == "w" else ("KillDs",) if self.role == "ds" else ("KillShm",))
            if self.role == "w":
                joins.append(("kill", self.idx))
            if self.role == "shm" and self.alive:
                shm_calls.append(("skill",))        # SIGKILL: whatever it has not unlinked yet stays in /dev/shm
            self.alive, self.exitcode = False, -9

        def terminate(self):
            # SIGTERM: a worker / the data server dies of it; the shm server's handler runs its sweep first
            self._settle()
            cur.append(("TermWorker", self.idx) if self.role == "w" else ("TermDs",) if self.role == "ds" else ("TermShm",))
            if not self.alive:
                return
            if self.role == "shm":
                if not self.asked:
                    self.asked, self.asked_at = True, clock.now
            else:
                self.alive, self.exitcode = False, -15

        def die(self, code):
            if self.alive:
                self.alive, self.exitcode = False, code
                if self.role == "shm":
                    if code == -9:
                        self.fault_killed = True     # injected SIGKILL: the open finding, not this stream's subject
                    else:
                        self.segs = 0                # SIGTERM handler / own exit: Manager.atexit runs

    n = case["n"]
    wids = [WorkerId(host, f"w{i}") for i in range(n)]
    procs = {w: (None if i in case["ns"] else Proc("w", i)) for i, w in enumerate(wids)}
    addr2w = {ex.worker_address(w): i for i, w in enumerate(wids)}
    shm, ds = Proc("shm"), Proc("ds")
    shm.segs, shm.sweep = int(case.get("shm_segs", 0)), int(case.get("shm_sweep", 0))
    hb = [False]

    def dsid(d):
        return DatasetId("t", str(d))

    def fake_callback(address, m):
        if address == "DADDR":
            cur.append(("ToData", int(m.ds.output)))
            return
        w = addr2w[address]
        p = procs[wids[w]]
        if isinstance(m, M.WorkerShutdown):
            cur.append(("ToWorker", w, "WShutdown"))
            if p is not None:
                if not p.alive:
                    # nobody will ever take the message: closing the socket blocks for its linger period
                    # (only the teardown is timed, so only its message carries the cost)
                    clock.now += LINGER_MS
                    return
                if p.deaf:
                    raise OSError("injected: the worker's socket cannot be reached")
                if not p.asked:
                    p.asked, p.asked_at = True, clock.now
        elif isinstance(m, M.TaskSequence):
            cur.append(("ToWorker", w, "WSeq"))
        elif isinstance(m, M.DatasetPurge):
            cur.append(("ToWorker", w, f"(WPurge {int(m.ds.output)})"))
        elif isinstance(m, M.DatasetPublished):
            cur.append(("ToWorker", w, f"(WPublished {int(m.ds.output)})"))
        else:
            cur.append(("ToWorker", w, "?" + type(m).__name__))

    class Sender:
        def maybe_retry(self):   # retries are C06's subject; here the sender has nothing in flight
            pass

        def send(self, h, m):
            assert h == "controller"
            if m is REG:
                cur.append(("ToCtl", "CRegistration"))
            elif isinstance(m, M.ExecutorExit):
                cur.append(("ToCtl", "CExit"))
            elif isinstance(m, M.ExecutorFailure):
                cur.append(("ToCtl", "CFailure"))
            elif isinstance(m, M.TaskFailure):
                cur.append(("ToCtl", f"(CTaskFailure {int(m.worker.worker[1:])} {int(m.task[1:])})"))
            elif isinstance(m, M.DatasetPublished):
                cur.append(("ToCtl", f"(CPublished {int(m.ds.output)})"))
            elif isinstance(m, M.DatasetTransmitFailure):
                cur.append(("ToCtl", "CTransmitFailure"))
            else:
                cur.append(("ToCtl", "?" + type(m).__name__))

        def ack(self, idx):
            cur.append(("SenderAck", idx))

    class HB:
        def step(self):
            pass

        def is_breach(self):
            return 1 if hb[0] else 0

        def elapsed_ms(self):
            return 0

    class ShmClient:
        @staticmethod
        def shutdown():
            cur.append(("ShmShutdown",))
            if case.get("shm_race") and shm.alive:
                # the server died between the is_alive() test and the request
                shm.alive, shm.exitcode, shm.fault_killed = False, -9, True
                raise ConnectionRefusedError(111, "injected: shm server gone")
            if shm.alive and not shm.asked:
                shm.asked, shm.asked_at = True, clock.now      # Ok comes back at once; the sweep starts now

    batch = [None]

    class Listener:
        address = "MADDR"

        def recv_messages(self, timeout_ms=None):
            if batch[0] is None:
                raise _Stop()
            b, batch[0] = batch[0], None
            return b

    REG = object()
    E = object.__new__(ex.Executor)
    E.host, E.workers, E.datasets, E.terminating = host, procs, set(), False
    E.shm_process, E.data_server, E.daddress = shm, ds, "DADDR"
    E.sender, E.heartbeat_watcher, E.mlistener, E.registration = Sender(), HB(), Listener(), REG

    def mk(m):
        k = m[0]
        if k == "seq":
            return M.TaskSequence(worker=WorkerId(host, f"w{m[1]}"), tasks=["t0"], publish=set())
        if k == "ack":
            return M.Ack(idx=m[1])
        if k == "pub":
            return M.DatasetPublished(origin=wids[0], ds=dsid(m[1]), transmit_idx=None)
        if k == "purge":
            return M.DatasetPurge(ds=dsid(m[1]))
        if k == "tfail":
            return M.TaskFailure(worker=WorkerId(host, f"w{m[1]}"), task=f"t{m[2]}", detail="x")
        if k == "xfail":
            return M.DatasetTransmitFailure(host=host, detail="x")
        if k == "shutdown":
            return M.ExecutorShutdown()
        return M.WorkerReady(worker=wids[0])

    # every clock the module can read becomes a view of the fake clock (the module object, and names
    # it may have imported from it)
    saved = {"callback": ex.callback, "shm_client": ex.shm_client}
    for name, val in list(vars(ex).items()):
        if val is real_time:
            saved[name] = val
        else:
            for fn in CLOCK_FUNCS:
                if val is getattr(real_time, fn):
                    saved[name] = val
    was_disabled = ex.logger.disabled
    ex.callback, ex.shm_client, ex.logger.disabled = fake_callback, ShmClient, True
    for name, val in saved.items():
        if val is real_time:
            setattr(ex, name, ftime)
        elif name not in ("callback", "shm_client"):
            setattr(ex, name, getattr(ftime, next(fn for fn in CLOCK_FUNCS if val is getattr(real_time, fn))))
    obs, problems, teardown, crashes = [], [], None, []

    def children():
        return [p for p in procs.values()] + [shm, ds]

    def tstat(p):
        if p is None:
            return ["notstarted"]
        if not p.alive:
            return ["exited", p.exitcode]
        if p.stuck or p.deaf:
            return ["never"]
        return ["leaves", p.leave]

    try:
        for i, e in enumerate(case["evs"]):
            cur = []
            if e[0] == "batch":
                was_term = E.terminating
                dead = any(p is None or p.exitcode is not None for p in children())
                hb[0] = bool(e[2])
                batch[0] = [mk(m) for m in e[1]]
                snapshot = [[w, tstat(p)] for w, p in enumerate(procs.values())]
                shm_snapshot = (["holds", shm.segs, shm.sweep] if shm.is_alive() and not shm.asked and not case.get("shm_race") else ["gone"])
                t_before, mono_before = clock.now, clock.mono0 + clock.now
                del joins[:]
                del shm_calls[:]
                hang = None
                try:
                    E.recv_loop()
                except _Stop:
                    pass
                except _Hang as h:
                    hang = str(h)
                except Exception as x:
                    # an exception that escapes recv_loop ends the executor process; what then still runs is the atexit
                    # hook registered by the constructor, ie terminate (a no-op if a teardown had begun)
                    crashes.append(f"event {i}: {x!r}")
                    try:
                        E.terminate()
                    except _Hang as h:
                        hang = str(h)
                    except Exception as x2:
                        crashes.append(f"event {i}, atexit: {x2!r}")
                batch[0] = None
                if not was_term and E.terminating:
                    teardown = {"event": i, "t0": t_before, "mono": mono_before, "workers": snapshot, "calls": [list(j) for j in joins],
                                "elapsed": None if hang else clock.now - t_before,
                                "shm": shm_snapshot, "shm_calls": [list(j) for j in shm_calls], "segs_left": None}
                    if hang:
                        problems.append(("teardown-hangs", f"event {i}: the teardown never comes back: {hang}; workers were {snapshot}"))
                    elif clock.now - t_before > F.EXIT_GRACE_S * 1000:
                        problems.append(("teardown-unbounded", f"event {i}: the teardown took {(clock.now - t_before) / 1000.0}s on the "
                                                               f"executor's clock (joins: {joins}); workers were {snapshot}"))
                elif hang:
                    problems.append(("loop-hangs", f"event {i}: {hang}"))
                terminal = [a for a in cur if a[0] == "ToCtl" and a[1] in ("CExit", "CFailure")]
                if not was_term and dead:
                    left = any(p is not None and p.is_alive() for p in children())
                    if not (E.terminating and terminal and not left):
                        problems.append(("child-death-undetected" if not (E.terminating and terminal) else "teardown-misses-child",
                                         f"event {i}: a child was dead before this loop iteration, afterwards terminating={E.terminating}, "
                                         f"reports={terminal}, alive={[p.is_alive() for p in children() if p is not None]}"))
                if was_term and cur:
                    problems.append(("acts-after-termination", f"event {i}: {cur}"))
                if not was_term and not terminal:
                    for m in e[1]:
                        want = (("ToCtl", f"(CTaskFailure {m[1]} {m[2]})") if m[0] == "tfail" else ("ToCtl", "CTransmitFailure") if m[0] == "xfail" else None)
                        if want and want not in cur:
                            problems.append(("failure-not-forwarded", f"event {i}: {m} was received but neither forwarded to the controller "
                                                                      f"nor followed by the executor's own Exit/Failure report: {cur}"))
            elif e[0] == "wdies":
                p = procs.get(WorkerId(host, f"w{e[1]}"))
                if p is not None:
                    p.die(e[2])
            elif e[0] == "wstuck":
                p = procs.get(WorkerId(host, f"w{e[1]}"))
                if p is not None and p.alive:
                    p.stuck = True
            elif e[0] == "wdeaf":
                p = procs.get(WorkerId(host, f"w{e[1]}"))
                if p is not None:
                    p.deaf = True
                    if p.alive:
                        p.stuck = True
            elif e[0] == "wbusy":
                p = procs.get(WorkerId(host, f"w{e[1]}"))
                if p is not None and p.alive:
                    p.leave = max(p.leave, int(e[2]))
            elif e[0] == "shm":
                shm.die({"term": 0, "kill": -9}.get(e[1], e[1]))
            elif e[0] == "ds":
                ds.die(e[1])
            obs.append(cur)
        # a second terminate must be a no-op
        cur = []
        if E.terminating:
            try:
                E.terminate()
            except _Hang as h:
                problems.append(("terminate-not-idempotent", f"second terminate blocks: {h}"))
            if cur:
                problems.append(("terminate-not-idempotent", f"second terminate did {cur}"))
            # whoever was asked and is about to leave may do so: the verdict is taken at the end of the same period
            # the real-process stream grants (F.EXIT_GRACE_S after the teardown began)
            if teardown is not None:
                clock.now = max(clock.now, teardown["t0"] + int(F.EXIT_GRACE_S * 1000))
            if any(p is not None and p.is_alive() for p in children()):
                problems.append(("teardown-misses-child", f"{F.EXIT_GRACE_S}s after the teardown began the terminated executor still has live children: "
                                 f"{[(p.role, p.idx) for p in children() if p is not None and p.is_alive()]} "
                                 f"(workers at the teardown: {teardown and teardown['workers']}, calls: {teardown and teardown['calls']}, "
                                 f"exceptions that escaped the loop: {crashes}, "
                                 f"monotonic clock {case.get('mono0')} ms, wall clock {case.get('wall0')} ms)"))
            # ... and no shared memory: whatever the server held must be unlinked (a server SIGKILLed by an injected fault
            # is the open finding of the real-process stream, not judged here)
            if teardown is not None:
                teardown["segs_left"] = bool(shm.segs > 0 and not shm.fault_killed)
            if shm.segs > 0 and not shm.fault_killed:
                problems.append(("segments-left-behind", f"the executor has terminated and {shm.segs} shared-memory segments of its shm server remain: "
                                 f"the server was {teardown and teardown['shm']} when the teardown began (segments held, ms from acknowledging the "
                                 f"shutdown to its exit) and got {teardown and teardown['shm_calls']} (join timeout in ms / kill); workers at the "
                                 f"teardown: {teardown and teardown['workers']}, calls on them: {teardown and teardown['calls']}"))
        allacts = [a for o in obs for a in o]
        nterm = sum(1 for a in allacts if a[0] == "ToCtl" and a[1] in ("CExit", "CFailure"))
        if nterm != (1 if E.terminating else 0):
            problems.append(("terminal-report-count", f"{nterm} Exit/Failure reports, terminating={E.terminating}"))
    finally:
        for name, val in saved.items():
            setattr(ex, name, val)
        ex.logger.disabled = was_disabled
    fin = (E.terminating, [p is not None and p.is_alive() for p in procs.values()], shm.is_alive(), ds.is_alive(),
           sorted(int(d.output) for d in E.datasets))
    return obs, fin, problems, teardown


def act_term(a):
    if a[0] == "ToCtl":
        return f"ToCtl {a[1]}"
    if a[0] == "ToWorker":
        return f"ToWorker {a[1]} {a[2]}"
    if a[0] in ("ToData", "SenderAck", "KillWorker"):
        return f"{a[0]} {a[1]}"
    return a[0]


def stuck_thresholds(teardown):
    """Net/Executor.v's `Stuck` = has not left when the deadline of the worker phase comes.  The deadline is taken
    after the last worker was asked; a worker is asked before the workers behind it, and every dead one among
    those costs the linger: worker i is killed iff it needs more than grace + linger * (dead workers behind i)."""
    thr = {}
    if teardown is not None:
        ws = teardown["workers"]
        for k, (w, st) in enumerate(ws):
            thr[w] = GRACE_MS + LINGER_MS * sum(1 for _, st2 in ws[k + 1:] if st2[0] == "exited")
    return thr


def ev_term(e, thr=None):
    """the event as Net/Executor.v sees it; None = invisible to that model (a worker that is busy, but
    leaves before the deadline of the teardown, is simply alive there)"""
    def m_term(m):
        k = m[0]
        return {"seq": lambda: f"MTaskSeq {m[1]}", "ack": lambda: f"MAck {m[1]}", "pub": lambda: f"MPublished {m[1]}",
                "purge": lambda: f"MPurge {m[1]}", "tfail": lambda: f"MTaskFailure {m[1]} {m[2]}", "xfail": lambda: "MTransmitFailure",
                "shutdown": lambda: "MShutdown", "other": lambda: "MOther"}[k]()
    if e[0] == "batch":
        return f"EvBatch {clist(e[1], m_term)} {cbool(e[2])}"
    if e[0] == "wdies":
        return f"EvWorkerDies {e[1]} {cZ(e[2])}"
    if e[0] in ("wstuck", "wdeaf"):
        return f"EvWorkerStuck {e[1]}"
    if e[0] == "wbusy":
        return f"EvWorkerStuck {e[1]}" if e[2] > (thr or {}).get(e[1], GRACE_MS) else None
    if e[0] == "shm":
        return "EvShmDies " + ("Term" if e[1] == "term" else "Kill" if e[1] == "kill" else f"(Code {cZ(e[1])})")
    if e[0] == "ds":
        return f"EvDsDies {cZ(e[1])}"
    raise AssertionError(e)


def tstat_term(t):
    return {"notstarted": lambda: "TNotStarted", "exited": lambda: f"TExited {cZ(t[1])}", "leaves": lambda: f"TLeaves {cZ(t[1])}",
            "never": lambda: "TNever"}[t[0]]()


def sstat_term(t):
    return "SGone" if t[0] == "gone" else f"(SHolds {int(t[1])} {cZ(t[2])})"


def scall_term(c):
    return "SKill" if c[0] == "skill" else f"(SJoin {copt(c[1], cZ)})"


MODEL_ACTS = ("ToCtl", "ToWorker", "ToData", "SenderAck", "KillWorker", "ShmShutdown", "KillDs")


def tcall_term(c):
    if c[0] == "kill":
        return f"TKill {c[1]}"
    if c[0] == "joindead":
        return f"TJoinDead {c[1]}"
    return f"TJoin {c[1]} {copt(c[2], cZ)}"


def exec_case_term(case, obs, fin, teardown):
    if any(a[0] not in MODEL_ACTS or (a[0] in ("ToCtl", "ToWorker") and str(a[-1]).startswith("?")) for o in obs for a in o):
        return None
    term, walive, salive, dalive, dsets = fin
    evs, eobs, index = [], [], {}
    thr = stuck_thresholds(teardown)
    for i, (e, o) in enumerate(zip(case["evs"], obs)):
        t = ev_term(e, thr)
        if t is None:
            continue
        index[i] = len(evs)
        evs.append(t)
        eobs.append(o)
    if teardown is None:
        td = "None"
    else:
        td = (f"(Some ({index[teardown['event']]}, {cZ(teardown['mono'])}, "
              f"{clist(teardown['workers'], lambda p: f'({p[0]}, {tstat_term(p[1])})')}, {clist(teardown['calls'], tcall_term)}, "
              f"{copt(teardown['elapsed'], cZ)}, "
              f"({sstat_term(teardown['shm'])}, {clist(teardown['shm_calls'], scall_term)}, {cbool(teardown['segs_left'])})))")
    return (f"({case['n']}, {clist(case['ns'], str)}, {clist(evs)}, "
            f"{clist(eobs, lambda o: clist(o, act_term))}, "
            f"({cbool(term)}, {clist(walive, cbool)}, {cbool(salive)}, {cbool(dalive)}, {clist(dsets, str)}), {td})")


# ============================================================================ stream B: execute_sequence
def gen_seq_case(rng):
    ts = []
    for i in range(rng.randint(1, 4)):
        nout = rng.choice([1, 1, 2, 3])
        r = rng.random()
        if r < 0.62:
            ts.append({"nout": nout, "beh": "ok"})
        elif r < 0.82:
            ts.append({"nout": nout, "beh": "raise", "after": rng.randrange(nout) if nout > 1 else 0})
        else:
            ts.append({"nout": nout, "beh": "exit", "after": rng.randrange(nout) if nout > 1 else 0, "code": rng.choice([0, 0, 1, 3])})
    return {"tasks": ts}


def _mk_func(spec):
    nout, beh, after, code = spec["nout"], spec["beh"], spec.get("after", 0), spec.get("code", 0)

    def boom():
        if beh == "raise":
            raise RuntimeError("injected")
        if beh == "exit":
            sys.exit(code)

    if nout == 1:
        def single():
            boom()
            return 1
        return single

    def gen():
        for j in range(nout):
            if j == after:
                boom()
            yield j
    return gen


def drive_seq(case):
    import cascade.executor.runner.entrypoint as ep
    from cascade.executor import msg as M
    from cascade.low.core import DatasetId, JobInstance, TaskDefinition, TaskInstance, WorkerId

    names = [f"t{i}" for i in range(len(case["tasks"]))]
    tasks = {}
    for nm, spec in zip(names, case["tasks"]):
        d = TaskDefinition(func=TaskDefinition.func_enc(_mk_func(spec)), environment=[], input_schema={},
                           output_schema={str(j): "int" for j in range(spec["nout"])})
        tasks[nm] = TaskInstance(definition=d, static_input_kw={}, static_input_ps={})
    job = JobInstance(tasks=tasks, edges=[])
    acts = []

    class Mem:
        def handle(self, outputId, outputSchema, outputValue, isPublish):
            acts.append(f"WHandled {int(outputId.task[1:]) * 10 + int(outputId.output)}")

        def flush(self):
            acts.append("WFlush")

        def provide(self, *a):
            raise AssertionError("no inputs")

    class Pckg:
        def extend(self, env):
            pass

    w = WorkerId("h0", "w0")
    rc = ep.RunnerContext(workerId=w, job=job, callback="CB", param_source={nm: {} for nm in names})
    seq = M.TaskSequence(worker=w, tasks=names, publish=set())

    def fake_callback(address, m):
        assert address == "CB" and isinstance(m, M.TaskFailure)
        acts.append(f"WTaskFailure {int(m.task[1:])}")

    saved = (ep.callback, ep.logger.disabled)
    ep.callback, ep.logger.disabled = fake_callback, True
    code = None
    try:
        try:
            ep.execute_sequence(seq, Mem(), Pckg(), rc)
        except SystemExit as e:
            code = e.code if isinstance(e.code, int) else (0 if e.code is None else 1)
        except Exception:
            code = 1      # an uncaught exception ends a multiprocessing child with exit code 1
    finally:
        ep.callback, ep.logger.disabled = saved
    return acts, code


def seq_case_term(case, acts, code):
    def t_term(it):
        i, s = it
        if s["beh"] == "ok":
            return f"({i}, BOk {clist([i * 10 + j for j in range(s['nout'])], str)})"
        outs = clist([i * 10 + j for j in range(s["after"] if s["nout"] > 1 else 0)], str)
        if s["beh"] == "raise":
            return f"({i}, BRaise {outs})"
        return f"({i}, BExit {outs} {cZ(s['code'])})"
    return f"({clist(list(enumerate(case['tasks'])), t_term)}, {clist(acts, str)}, {copt(code, cZ)})"


# ============================================================================ stream C: Bridge.recv_events / shutdown
def gen_bridge_case(rng):
    nh = rng.choice([1, 2, 3])
    bs = []
    for _ in range(rng.randint(0, 5)):
        b = []
        for _ in range(rng.choice([0, 1, 1, 2, 3])):
            q = rng.random()
            h = rng.randrange(nh)
            if q < 0.3:
                b.append(["ack", rng.randrange(9)])
            elif q < 0.45:
                b.append(["reg", h])
            elif q < 0.6:
                b.append(["pub", rng.randrange(5)])
            elif q < 0.7:
                b.append(["payload", rng.randrange(5), rng.randrange(100)])
            elif q < 0.76:
                b.append(["tfail", h])
            elif q < 0.84:
                b.append(["efail", h])
            elif q < 0.92:
                b.append(["eexit", h])
            elif q < 0.96:
                b.append(["xfail", h])
            else:
                b.append(["unsupported"])
        bs.append(b)
    return {"nh": nh, "bs": bs}


def drive_bridge(case):
    import cascade.executor.bridge as br
    from cascade.executor import msg as M
    from cascade.low.core import DatasetId, WorkerId

    nh = case["nh"]
    hosts = [f"h{i}" for i in range(nh)]
    state = {"i": 0, "in_shutdown": False, "late": False}
    sent = []

    class Listener:
        address = "CADDR"

        def recv_messages(self, timeout_ms=None):
            if state["i"] >= len(case["bs"]):
                if state["in_shutdown"]:
                    state["late"] = True      # grace period over
                    return []
                raise _Stop()
            b = case["bs"][state["i"]]
            state["i"] += 1
            return [mk(m) for m in b]

    class Sender:
        def __init__(self):
            self.hosts = {}
            for h in hosts:
                self.hosts[h] = (None, "a")
                self.hosts["data." + h] = (None, "d")

        def send(self, h, m):
            assert isinstance(m, M.ExecutorShutdown)
            sent.append(int(h[1:]))

        def ack(self, idx):
            pass

        def maybe_retry(self):
            pass

    class HB:
        def step(self):
            pass

        def is_breach(self):
            return 0

        def elapsed_ms(self):
            return 0

    class Time:
        @staticmethod
        def time_ns():
            return 10 ** 30 if state["late"] else 0

    def mk(m):
        k = m[0]
        if k == "ack":
            return M.Ack(idx=m[1])
        if k == "reg":
            return M.ExecutorRegistration(host=f"h{m[1]}", maddress="a", daddress="d", workers=[])
        if k == "pub":
            return M.DatasetPublished(origin=WorkerId("h0", "w0"), ds=DatasetId("t", str(m[1])), transmit_idx=None)
        if k == "payload":
            return M.DatasetTransmitPayload(header=M.DatasetTransmitPayloadHeader(confirm_address="x", confirm_idx=0,
                                                                                   ds=DatasetId("t", str(m[1])), deser_fun="f"),
                                            value=bytes([m[2]]))
        if k == "tfail":
            return M.TaskFailure(worker=WorkerId(f"h{m[1]}", "w0"), task="t0", detail="x")
        if k == "efail":
            return M.ExecutorFailure(host=f"h{m[1]}", detail="x")
        if k == "eexit":
            return M.ExecutorExit(host=f"h{m[1]}")
        if k == "xfail":
            return M.DatasetTransmitFailure(host=f"h{m[1]}", detail="x")
        return M.ExecutorShutdown()

    B = object.__new__(br.Bridge)
    B.mlistener, B.sender = Listener(), Sender()
    B.heartbeat_checker = {h: HB() for h in hosts}
    B.transmit_idx_counter = 0
    orig_shutdown = br.Bridge.shutdown

    def shutdown():
        state["in_shutdown"] = True
        orig_shutdown(B)
    B.shutdown = shutdown
    saved = (br.time, br.logger.disabled)
    br.time, br.logger.disabled = Time, True
    kind, evs = None, []
    try:
        try:
            out = B.recv_events()
            kind = 0
            for e in out:
                if isinstance(e, M.DatasetPublished):
                    evs.append(f"BPublished {int(e.ds.output)}")
                else:
                    evs.append(f"BPayload {int(e.header.ds.output)} {cZ(e.value[0])}")
        except _Stop:
            kind = 2
        except ValueError:
            kind = 1
    finally:
        br.time, br.logger.disabled = saved
    left = [int(h[1:]) for h in B.sender.hosts if not h.startswith("data.")]
    return kind, evs, sent, left, state["i"]


def bridge_case_term(case, obs):
    kind, evs, sent, left, used = obs

    def m_term(m):
        k = m[0]
        return {"ack": lambda: f"BAck {m[1]}", "reg": lambda: f"BRegistration {m[1]}", "pub": lambda: f"BPublished {m[1]}",
                "payload": lambda: f"BPayload {m[1]} {cZ(m[2])}", "tfail": lambda: f"BTaskFailure {m[1]}",
                "efail": lambda: f"BExecFailure {m[1]}", "eexit": lambda: f"BExecExit {m[1]}", "xfail": lambda: f"BTransmitFailure {m[1]}",
                "unsupported": lambda: "BUnsupported"}[k]()
    return (f"({clist(range(case['nh']), str)}, {clist(case['bs'], lambda b: clist(b, m_term))}, "
            f"({kind}, {clist(evs, str)}, {clist(sent, str)}, {clist(left, str)}, {used}))")


# ============================================================================ stream D: real processes
CORE = [
    {"fault": {"kind": "none"}},
    {"fault": {"kind": "raise", "site": "g", "point": "before"}},
    {"fault": {"kind": "sysexit", "code": 0, "site": "g", "point": "between"}},
    {"fault": {"kind": "osexit", "code": 1, "site": "c0", "point": "before"}},
    {"fault": {"kind": "sigkill", "site": "g", "point": "before"}},
    {"fault": {"kind": "kill_ds", "site": "s", "point": "before"}},
    {"fault": {"kind": "kill_shm", "site": "g", "point": "between"}},
    {"fault": {"kind": "term_shm", "site": "s", "point": "before"}},
    {"fault": {"kind": "sigkill", "site": "g", "point": "between"}, "hosts": 2, "workers": 1},
]


# faults under which run() must raise (a busy companion task is only added to those: without a failure a never-ending
# task is no defect, the run legitimately does not end)
SWEEP_DELAY_S = 0.3        # how much longer the shm server's at-exit sweep takes in the scenarios that say so (c05_faults.launch_executor)
BUSY_TASKFAILURE = [("raise", 0)]
BUSY_EXECFAILURE = [("sigkill", 0), ("osexit", 1), ("sysexit", 0), ("kill_ds", 0), ("term_ds", 0), ("term_shm", 0)]


def scenarios(ctx):
    rng = ctx.sub_rng("faults")
    out = []
    if ctx.tier != "thorough":
        for sc in CORE:
            sc = json.loads(json.dumps(sc))
            sc.setdefault("hosts", 1)
            sc.setdefault("workers", 2)
            sc["shape"] = rng.choice(["", "gout"])
            sc["s_sleep"] = rng.choice([0.0, 0.2])
            sc["sweep_delay"] = rng.choice([0.0, 0.0, SWEEP_DELAY_S])
            out.append(sc)
        # one seeded extra crash point
        k = rng.choice(["raise", "sysexit", "osexit", "sigkill", "term_ds", "kill_sibling"])
        site, point = rng.choice([("g", "before"), ("g", "between"), ("g", "after"), ("c0", "before"), ("s", "before")])
        out.append({"hosts": 1, "workers": 2, "shape": "", "s_sleep": 0.0,
                    "fault": {"kind": k, "code": rng.choice([0, 1, 3]), "site": site, "point": point}})
        # the teardown meets a worker that will not read its shutdown request (inside a never-ending task, or a
        # generator stuck between two outputs): once after a TaskFailure (controller asks the executor to shut down),
        # once after a failure the executor finds itself
        brng = ctx.sub_rng("faults-busy")
        k1 = brng.choice(BUSY_TASKFAILURE)
        k2 = brng.choice(BUSY_EXECFAILURE)
        flavours = brng.sample(["sleep", "gen"], 2)
        for (k, code), flavour in zip([k1, k2], flavours):
            out.append({"hosts": 1, "workers": 2, "shape": brng.choice(["", "gout"]), "s_sleep": 0.0, "busy": flavour,
                        "extra": brng.choice([2, 6]), "sweep_delay": SWEEP_DELAY_S,
                        "fault": {"kind": k, "code": code, "site": brng.choice(["s", "c0"]), "point": "before"}})
        # the teardown meets a wave of dead workers (every undeliverable shutdown request costs the linger of its socket)
        # on a host that holds datasets in shared memory
        wrng = ctx.sub_rng("faults-wave")
        site, point = wrng.choice([("s", "before"), ("g", "between"), ("c0", "before"), ("g", "after")])
        out.append({"hosts": 1, "workers": wrng.choice([7, 8]), "shape": wrng.choice(["", "gout"]), "s_sleep": 0.0,
                    "extra": wrng.choice([4, 8]), "sweep_delay": SWEEP_DELAY_S,
                    "fault": {"kind": "kill_siblings", "code": 0, "site": site, "point": point}})
    else:
        for hosts, workers in [(1, 1), (1, 2), (2, 1), (2, 2)]:
            for kind, code in [("none", 0), ("raise", 0), ("sysexit", 0), ("sysexit", 3), ("osexit", 0), ("osexit", 1), ("sigkill", 0),
                               ("kill_ds", 0), ("term_ds", 0), ("kill_shm", 0), ("term_shm", 0), ("kill_sibling", 0)]:
                for site, point in [("g", "before"), ("g", "between"), ("g", "after"), ("c0", "before"), ("s", "before")]:
                    if kind == "none" and (site, point) != ("g", "before"):
                        continue
                    if kind == "kill_sibling" and workers < 2:
                        continue
                    out.append({"hosts": hosts, "workers": workers, "shape": rng.choice(["", "gout"]), "s_sleep": rng.choice([0.0, 0.2]),
                                "fault": {"kind": kind, "code": code, "site": site, "point": point}})
        for hosts, workers in [(1, 2), (2, 2), (1, 3)]:
            for j, (kind, code) in enumerate(BUSY_TASKFAILURE + BUSY_EXECFAILURE + [("kill_shm", 0)]):
                for site in ("s", "c0"):
                    out.append({"hosts": hosts, "workers": workers, "shape": rng.choice(["", "gout"]), "s_sleep": 0.0,
                                "busy": ["sleep", "gen"][(j + (site == "s")) % 2],
                                "extra": rng.choice([0, 2, 6]), "sweep_delay": rng.choice([0.0, SWEEP_DELAY_S, SWEEP_DELAY_S]),
                                "fault": {"kind": kind, "code": code, "site": site, "point": "before"}})
        for hosts, workers in [(1, 3), (1, 6), (1, 7), (1, 8), (2, 7)]:
            for site, point in [("g", "before"), ("g", "between"), ("g", "after"), ("c0", "before"), ("s", "before")]:
                out.append({"hosts": hosts, "workers": workers, "shape": rng.choice(["", "gout"]), "s_sleep": 0.0,
                            "extra": rng.choice([0, 4, 8]), "sweep_delay": rng.choice([0.0, SWEEP_DELAY_S, SWEEP_DELAY_S]),
                            "fault": {"kind": "kill_siblings", "code": 0, "site": site, "point": point}})
    for i, sc in enumerate(out):
        sc["tag"] = f"v{os.getpid() % 1000:03d}{i:03d}"[:8]
        sc["seed"] = ctx.seed * 1000 + i
    return out


def run_real(sc, timeout=None):
    env = dict(os.environ, PYTHONPATH=f"{REPO}/src:{os.path.dirname(os.path.abspath(__file__))}", PYTHONHASHSEED="0",
               PYTHONDONTWRITEBYTECODE="1")
    timeout = timeout or (F.START_DEADLINE_S + F.RUN_DEADLINE_S + F.EXIT_GRACE_S + 30)
    p = subprocess.Popen([PY, F.__file__, json.dumps(sc)], env=env, stdout=subprocess.PIPE, stderr=subprocess.DEVNULL,
                         text=True, start_new_session=True)
    try:
        out, _ = p.communicate(timeout=timeout)
    except subprocess.TimeoutExpired:
        out = ""
    finally:
        # whatever happened: nothing of this scenario survives, nothing it created stays
        try:
            os.killpg(p.pid, 9)
        except OSError:
            pass
        try:
            p.wait(5)
        except Exception:
            pass
        hosts = [f"{sc['tag']}{i}" for i in range(int(sc.get("hosts", 1)))]
        F.cleanup_files(hosts)
    for ln in out.split("\n"):
        if ln.startswith("C05OBS "):
            return json.loads(ln[7:])
    return {"driver_error": "no observation (driver timed out or crashed)"}


def must_raise(sc):
    f = sc["fault"]
    k = f["kind"]
    if k in ("none", "kill_sibling", "kill_siblings"):
        return False
    if k in ("raise", "sysexit", "osexit", "sigkill"):
        return not (f.get("site") == "g" and f.get("point") == "after")
    return True     # data server / shm server gone while a requested output is still to be published or fetched


def expected_values(sc):
    keys = ["c0.0", "c1.0", "s.0"] + (["g.1"] if sc.get("shape") == "gout" else [])
    vals = {k: F.EXPECTED[k] for k in keys}
    vals.update({f"e{i}.0": F.EXTRA_BASE + i for i in range(int(sc.get("extra", 0)))})
    return vals


def judge(sc, o):
    """The property, read on one observation. Returns list of (signature, what)."""
    bad = []
    k = sc["fault"]["kind"]
    if "driver_error" in o or o.get("outcome") == "not-started":
        return [("inconclusive", o.get("driver_error", "cluster did not register in time"))]
    if o["outcome"] == "hang":
        bad.append(("run-hangs", f"run() neither returned nor raised within {F.RUN_DEADLINE_S}s after the fault {sc['fault']}"))
    elif o["outcome"] == "returned":
        if o.get("values") != expected_values(sc):
            bad.append(("wrong-or-missing-value-returned", f"run() returned {o.get('values')} instead of {expected_values(sc)} (fault {sc['fault']})"))
    elif o["outcome"] == "raised" and k == "none":
        bad.append(("healthy-run-raised", f"run() raised {o.get('detail')} without any fault"))
    if o.get("procs_left"):
        bad.append(("processes-left-behind", f"{o['procs_left']} processes (executors: {o.get('executors_left')}) still alive "
                                             f"{F.EXIT_GRACE_S}s after run() ended (fault {sc['fault']})"))
    if o.get("shm_left"):
        bad.append((SIG_SHM_KILL if k == "kill_shm" else "segments-left-behind",
                    f"{o['shm_left']} /dev/shm segments of this run remain after the executors exited (fault {sc['fault']})"))
    return bad


FK = {"none": "FNone", "raise": "FRaise", "sysexit": "FWorkerExit", "osexit": "FWorkerExit", "sigkill": "FWorkerExit",
      "kill_ds": "FDs", "term_ds": "FDs", "kill_shm": "FShmKill", "term_shm": "FShmTerm", "kill_sibling": "FSibling", "kill_siblings": "FSibling"}


def scenario_term(sc, o):
    return (f"({FK[sc['fault']['kind']]}, {cbool(o.get('busy_engaged'))}, ({cbool(o['outcome'] == 'raised')}, {min(int(o.get('procs_left') or 0), 99)}, "
            f"{min(int(o.get('shm_left') or 0), 99)}, {cbool(must_raise(sc))}))")


def run_faults(ctx, res, scs, par):
    listed = {f["signature"] for f in load_findings().get("open", []) if f.get("property") == "C05"}
    with ThreadPoolExecutor(par) as ex:
        first = list(ex.map(run_real, scs))
    terms, meta = [], []
    counts = {"scenarios": 0, "raised": 0, "returned": 0, "retried": 0, "inconclusive": 0}
    for sc, o in zip(scs, first):
        bad = judge(sc, o)
        if any(s != SIG_SHM_KILL for s, _ in bad):
            # under machine load deadlines can be missed without any defect: one serial re-run decides
            counts["retried"] += 1
            sc2 = dict(sc, tag=sc["tag"][:6] + "r")
            o2 = run_real(sc2)
            bad2 = judge(sc2, o2)
            ctx.notes.append(f"scenario {sc['fault']} hosts={sc.get('hosts')} busy={sc.get('busy')} first gave {[s for s, _ in bad]} "
                             f"({o.get('outcome')}, {str(o.get('detail') or o.get('driver_error') or '')[:160]}), serial re-run gave {[s for s, _ in bad2]}")
            o, bad = o2, bad2
        res.evaluations += 1
        counts["scenarios"] += 1
        f = sc["fault"]
        key = (f"{f['kind']}:{f.get('code', 0) if f['kind'] in ('sysexit', 'osexit') else ''}:{f.get('site', '')}:{f.get('point', '')}"
               f":h{sc.get('hosts')}w{sc.get('workers')}:{sc.get('shape')}:{sc.get('busy') if o.get('busy_engaged') else ''}")
        res.count("real:" + f["kind"])
        if sc.get("busy"):
            res.count("real:busy-worker-at-teardown:" + ("engaged" if o.get("busy_engaged") else "not-engaged"))
        if "shm_at_end" in o:
            res.count("real:segments-held-when-run-ended:" + ("none" if not o["shm_at_end"] else "1-3" if o["shm_at_end"] <= 3 else "4+"))
        if sc.get("sweep_delay"):
            res.count("real:slow-shm-sweep")
        if f["kind"] != "none":
            res.nontrivial_keys.add("real:" + key)
        if any(s == "inconclusive" for s, _ in bad):
            counts["inconclusive"] += 1
            res.count("real:inconclusive")
            continue
        counts[o["outcome"]] = counts.get(o["outcome"], 0) + 1
        for sig, what in bad:
            if sig == SIG_SHM_KILL:
                res.count("known-signature:" + SIG_SHM_KILL)
                if SIG_SHM_KILL in listed:
                    res.fail(sig, what, {"stream": "real", "scenario": sc, "observation": o})
            else:
                res.fail(sig, what, {"stream": "real", "scenario": sc, "observation": o})
        terms.append(scenario_term(sc, o))
        meta.append((sc, o))
        if len(res.samples) < 5 and f["kind"] != "none":
            res.samples.append({"stream": "real", "scenario": {k: v for k, v in sc.items() if k not in ("tag", "seed")},
                                "observation": {k: o.get(k) for k in ("outcome", "exc", "run_s", "exit_s", "procs_left", "shm_at_end", "shm_left", "busy_engaged") if k in o}})
    res.extra["fault_enumeration"] = counts
    return terms, meta


# ============================================================================ run
def run(ctx, res):
    res.rule = ("A: histories of 2..8 events (message batches of 0..4 messages over the 8 message classes, worker/shm/data-server deaths with "
                "codes 0/1/3/-9/-15, workers stuck / busy for 1 ms..1 h / unreachable, shm server dying under the shutdown request) on "
                "1..8 workers, clock epochs varied; 40% of the histories end the executor while some worker will not leave at once or a wave of "
                "workers is dead; the shm server holds 0..200 segments and needs 0 ms..7 s from acknowledging its shutdown to its exit; "
                "non-trivial = contains a fault or a failure message followed by a loop iteration. B: sequences of 1..4 tasks (1..3 outputs; ok/raise/sys.exit at a chosen yield); non-trivial = some task fails. "
                "C: 0..5 batches over 9 message classes on 1..3 hosts; non-trivial = contains an event or a shutdown reason. "
                "D: real clusters with one injected fault, some with a companion task that never ends once the fault is armed (the teardown "
                "meets a worker that does not read its shutdown request) or a wave of dead workers on a 7..8-worker host, on hosts holding "
                "extra datasets in shared memory behind a shm server with a slow sweep; non-trivial = a fault was injected. distinct = distinct canonical case")
    # ---- D first (it is the slow one): start it in a thread, do A-C meanwhile
    scs = scenarios(ctx)
    scs.sort(key=lambda sc: 0 if sc.get("busy") or sc["fault"]["kind"] == "kill_siblings" else 1)      # the long ones (grace period, lingers) first
    par = 4
    box = {}

    t_start = time.time()

    def real():
        box["d"] = run_faults(ctx, res, scs, par)
        box["d_s"] = round(time.time() - t_start, 1)
    import threading
    th = threading.Thread(target=real)
    th.start()

    # ---- A
    rng = ctx.sub_rng("exec")
    a_terms, a_meta = [], []
    for _ in range(ctx.n(500, 12000)):
        case = gen_exec_case(rng)
        obs, fin, problems, teardown = drive_exec(case)
        res.evaluations += 1
        faults = [e for e in case["evs"] if e[0] != "batch" or any(m[0] in ("tfail", "xfail", "shutdown", "other") for m in e[1])]
        res.count("exec:" + ("fault" if faults else "plain"))
        if teardown is not None:
            live = [t[1][0] for t in teardown["workers"] if t[1][0] in ("leaves", "never")]
            slow = [t for t in teardown["workers"] if t[1][0] == "never" or (t[1][0] == "leaves" and t[1][1] > 0)]
            res.count("exec:teardown:" + ("worker-not-leaving-at-once" if slow else "workers-idle" if live else "no-live-worker"))
        if faults and case["evs"][-1][0] == "batch":
            res.nontrivial_keys.add("A" + json.dumps(case, sort_keys=True))
        for sig, what in problems:
            res.fail(sig, what, {"stream": "exec", "case": case})
        t = exec_case_term(case, obs, fin, teardown)
        if t is None:
            res.disagree("executor made a call the model has no action for", {"stream": "exec", "case": case, "obs": obs})
            continue
        a_terms.append(t)
        a_meta.append((case, obs, fin, teardown))
        if len(res.samples) < 2 and faults:
            res.samples.append({"stream": "exec", "case": case, "acts": obs, "final": fin})
    # ---- B
    rng = ctx.sub_rng("seq")
    b_terms, b_meta = [], []
    for _ in range(ctx.n(150, 3000)):
        case = gen_seq_case(rng)
        acts, code = drive_seq(case)
        res.evaluations += 1
        failing = [s for s in case["tasks"] if s["beh"] != "ok"]
        res.count("seq:" + ("failing" if failing else "ok"))
        if failing:
            res.nontrivial_keys.add("B" + json.dumps(case, sort_keys=True))
            if code is None and not any(a.startswith("WTaskFailure") for a in acts):
                res.fail("silent-task-failure", f"a task failed but neither a TaskFailure was sent nor did the worker exit: {acts}",
                         {"stream": "seq", "case": case})
        b_terms.append(seq_case_term(case, acts, code))
        b_meta.append((case, acts, code))
    # ---- C
    rng = ctx.sub_rng("bridge")
    c_terms, c_meta = [], []
    for _ in range(ctx.n(300, 6000)):
        case = gen_bridge_case(rng)
        obs = drive_bridge(case)
        res.evaluations += 1
        reason_at = next((i for i, b in enumerate(case["bs"]) if any(m[0] in ("tfail", "efail", "eexit", "xfail", "unsupported") for m in b)), None)
        event_at = next((i for i, b in enumerate(case["bs"]) if any(m[0] in ("pub", "payload") for m in b)), None)
        res.count("bridge:" + ("reason" if reason_at is not None else "event" if event_at is not None else "quiet"))
        if reason_at is not None or event_at is not None:
            res.nontrivial_keys.add("C" + json.dumps(case, sort_keys=True))
        if reason_at is not None and (event_at is None or reason_at <= event_at) and obs[0] != 1:
            res.fail("failure-report-ignored", f"a failure report in batch {reason_at} did not make recv_events raise (kind={obs[0]})",
                     {"stream": "bridge", "case": case})
        c_terms.append(bridge_case_term(case, obs))
        c_meta.append((case, obs))

    for name, terms, meta, checker in [("exec", a_terms, a_meta, "check_exec_t"), ("seq", b_terms, b_meta, "check_seq"),
                                       ("bridge", c_terms, c_meta, "check_bridge")]:
        results, logs = coq_results("C05", HEADER, terms, checker, tag=name)
        for r, m in zip(results, meta):
            res.corr_checked += 1
            if r is not True:
                res.disagree(f"{name}: model and implementation differ" + ("" if r is False else " (Coq could not evaluate the case)"),
                             {"stream": name, "case": m[0], "observed": m[1:], "log": logs[:1]})
    box["abc_s"] = round(time.time() - t_start, 1)
    th.join()
    res.extra["wall_seconds"] = {"in_process_streams_and_their_coq_runs": box["abc_s"], "real_process_stream": box.get("d_s")}
    d_terms, d_meta = box.get("d", ([], []))
    if d_terms:
        results, logs = coq_results("C05", HEADER, d_terms, "check_scenario", tag="real")
        for r, (sc, o) in zip(results, d_meta):
            res.corr_checked += 1
            if r is not True:
                res.disagree("real fault scenario: observation is not one the model allows",
                             {"stream": "real", "scenario": sc, "observation": o, "log": logs[:1]})


# ============================================================================ search / replay
def search(ctx, res):
    """Something no longer checks: look for a concrete failing input with more cases."""
    for stream, gen, n in [("exec", gen_exec_case, 6000), ("seq", gen_seq_case, 1500), ("bridge", gen_bridge_case, 3000)]:
        rng = ctx.sub_rng("search-" + stream)
        for _ in range(n):
            case = gen(rng)
            r = replay(ctx, {"case": {"stream": stream, "case": case}})
            if r["fails"]:
                return {"signature": r["signature"], "what": r["what"], "case": {"stream": stream, "case": case}}
    return None


def replay(ctx, stored):
    c = stored.get("case", stored)
    if stored.get("kind") == "no-failing-input-found":
        fd = (stored.get("first_disagreement") or {}).get("case") or {}
        return {"fails": False, "note": "stored case names a broken proof/correspondence, not a failing input", "stream": fd.get("stream")}
    stream = c.get("stream")
    if stream == "exec":
        _, _, problems, _ = drive_exec(c["case"])
        return {"fails": bool(problems), "signature": problems[0][0] if problems else None, "what": problems[0][1] if problems else None}
    if stream == "seq":
        acts, code = drive_seq(c["case"])
        failing = [s for s in c["case"]["tasks"] if s["beh"] != "ok"]
        bad = bool(failing) and code is None and not any(a.startswith("WTaskFailure") for a in acts)
        return {"fails": bad, "signature": "silent-task-failure" if bad else None, "what": f"acts={acts} code={code}"}
    if stream == "bridge":
        obs = drive_bridge(c["case"])
        bs = c["case"]["bs"]
        reason_at = next((i for i, b in enumerate(bs) if any(m[0] in ("tfail", "efail", "eexit", "xfail", "unsupported") for m in b)), None)
        event_at = next((i for i, b in enumerate(bs) if any(m[0] in ("pub", "payload") for m in b)), None)
        bad = reason_at is not None and (event_at is None or reason_at <= event_at) and obs[0] != 1
        return {"fails": bad, "signature": "failure-report-ignored" if bad else None, "what": f"observation {obs}"}
    if stream == "real":
        sc = dict(c["scenario"], tag="rp" + str(os.getpid() % 10000))
        o = run_real(sc)
        bad = [b for b in judge(sc, o) if b[0] != "inconclusive"]
        return {"fails": bool(bad), "signature": bad[0][0] if bad else None, "what": bad[0][1] if bad else None, "observation": o}
    return {"fails": False, "note": "unknown case kind"}
