"""C08 -- the shared-memory store never hands out more memory than its capacity.

The REAL LocalServer.start loop / dataset.Manager / algorithms.lottery / disk.Disk bodies are driven by
generated op lists (harness/shm_common.py): allocate / client write / finish-write / get / finish-read /
purge from any number of clients, interleaved with the steps of every page-out job (attach+write, unlink, callback) and
page-in job (create+read, callback), successful or failed.

* oracle (after EVERY op, on the real Manager): free_space == capacity - sum(size of datasets whose status is
  created/in_memory/paging_out/paged_in); that sum <= capacity; FreeSpaceResponse over the protocol reports the same
  number; an allocation that does not fit (w.r.t. that sum before the request) is not granted: answered `wait`, or
  refused when larger than the capacity; a page-in is only started when it fits; the memory really present in the
  (fake) /dev/shm never exceeds the capacity.  `capacity` is what the store has to work with: the configured value, but never
  more than /dev/shm offers (every stream also starts servers configured with more than is available, or not configured).
  While a completion callback of a disk job is in flight (stream conc: callbacks and job bodies run from yield point to
  yield point with requests and other jobs' steps in between) the free space may lag behind by the sizes of the datasets whose
  callbacks are in flight -- wherever the callback is parked; once no callback is in flight the equation is exact again.
* correspondence: the same op lists are evaluated by the Coq model (Shm/Manager.v) and every response, every
  free-space report and every job submission is compared inside Coq (Shm/ManagerCheck.check_case)."""
import itertools
import time as _time
import json

import shm_common as S
from common import coq_results, coq_print, load_findings

TRUSTED = [
    "harness/shm_common.py + harness/fakes/shm_fakes.py: in-memory SharedMemory/open registry (POSIX create/open/unlink semantics), manual executor that "
    "splits each Disk job into the real body and the real Manager callback, scripted time_ns/uuid4, scripted UDP socket under the real LocalServer.start",
    "cooperative scheduler (fakes/shm_fakes.py Task/Sched): job bodies and Manager callbacks run in their own threads and are parked at their yield points -- "
    "calls of the module-level loggers (replaced by a silent stand-in), blocking acquisitions of the Manager's plain locks (wrapped from outside), every "
    "operation on the fake SharedMemory and on the page files; exactly one of {history thread, one task} runs at a time; a task holding a watched lock is not parked",
    "what /dev/shm offers is scripted per history through dataset.get_capacity and through a stand-in for dataset.subprocess that answers findmnt",
    "key string -> number map (injective per history); shmid handed out by the server is checked to be a function of the key and collision free per history",
]
ASSUMPTIONS = [
    "atomicity: a request handler and each step of a disk job (page-out: attach+write the file / shm.unlink / callback; page-in: body / callback) run "
    "without interleaving with each other; the real page-out body runs in a helper thread that the harness parks just before its shm.unlink "
    "(CPython 3.12 switches threads only at calls/back-edges; the counters are updated by single += statements); every order of these steps is covered",
    "the md5-derived shmid is injective on the keys in use (model: shmid = key)",
    "sizes arrive through the protocol as unsigned integers; capacity >= 0",
    "finer than that (stream conc, Shm/ManagerConc.v): a completion callback may be parked at any blocking lock acquisition (model and "
    "implementation compared) and at any log call / segment operation (oracle only), a page-in or page-out body at any log call / segment / file "
    "operation, with requests and steps of other jobs in between; code between two yield points and code under a lock is atomic",
    "C08_accounting_partial / C08_never_granted_early_partial: no page-out job completes successfully for a dataset object that was purged "
    "after the job was issued (the open finding readd-during-pageout; C08_accounting_refuted is its witness)",
    "Manager.atexit / is_exit=True purges are not modelled; what findmnt reports for /dev/shm is constant during a history",
]

SIG_READD = "readd-during-pageout"


# ----------------------------------------------------------------------------- oracle
class Watch:
    """direct reading of the property on the real objects after every op"""

    def __init__(self, capacity):
        self.capacity = capacity
        self.bad = []            # (signature, what, index)
        self.resident_before = 0
        self.stats = {"granted": 0, "wait": 0, "refused": 0, "pageout": 0, "pagein": 0, "max_resident": 0, "jobs_failed": 0}
        self.discount_before = 0

    def __call__(self, d, i, op, ob):
        m, cap = d.m, self.capacity
        total = S.resident_total(m)
        free_reported = ob[-2]
        # datasets whose completion callback is in flight (parked somewhere between its first and its last statement): in transition
        flying = d.board.cb_in_flight()
        slack = sum(getattr(d.job_obj.get(j.jid), "size", 0) for j in flying)
        # ... and those of them whose page-out has succeeded are physically gone: a grant that counts on their space is not early
        gone = sum(ds.size for j in flying for ds in [d.job_obj.get(j.jid)]
                   if j.kind == "out" and j.ok and ds is not None and m.datasets.get(d.key_for(j.shmid)) is ds and ds.status.name == "paging_out")
        before = self.resident_before - self.discount_before
        self.resident_before, self.discount_before = total, gone
        self.stats["max_resident"] = max(self.stats["max_resident"], total)

        def bad(sig, what):
            if S.readd_evidence(d):
                sig = S_or(sig)
            self.bad.append((sig, f"op {i} {op}: {what}", i))

        if m.capacity != cap:
            bad("capacity-not-what-is-available", f"Manager.capacity={m.capacity}, configured {d.configured}, /dev/shm offers {d.avail}: the store has {cap} to work with")
        if abs(m.free_space - (cap - total)) > slack:
            bad("free-space-accounting", f"free_space={m.free_space} but capacity - resident = {cap} - {total} = {cap - total}"
                + (f" (callbacks in flight for {slack} bytes)" if flying else "") + f"; datasets {S.snapshot(m)}")
        if total > cap:
            bad("resident-exceeds-capacity", f"resident total {total} > capacity {cap}; datasets {S.snapshot(m)}")
        if free_reported != m.free_space:
            bad("free-space-report", f"FreeSpaceResponse says {free_reported}, Manager.free_space is {m.free_space}")
        if op[0] == "write" and ob[1]:
            ds = m.datasets.get(op[1])
            if ds is None or ds.status.name != "created" or ds.size != len(op[2]) // 2:
                d.wild_write = True   # a client filling /dev/shm outside the protocol: not the store's doing
        real = sum(len(b) for name, b in d.reg.segs.items() if name in d.key_of)
        if real > cap and not d.wild_write:
            bad("real-memory-exceeds-capacity", f"{real} bytes present in shared memory under handed-out names, capacity {cap}")
        if op[0] == "add":
            size = op[2]
            granted = ob[2] == "" and ob[1] is not None
            if granted:
                self.stats["granted"] += 1
                if size > cap:
                    bad("granted-over-capacity", f"allocation of {size} granted by a store of capacity {cap}")
                elif size > cap - before:
                    bad("granted-early", f"allocation of {size} granted while {before} of {cap} were resident")
            elif ob[2] == "wait":
                self.stats["wait"] += 1
                if size > cap:
                    bad("wait-over-capacity", f"allocation of {size} > capacity {cap} answered wait instead of being refused")
            else:
                self.stats["refused"] += 1
        for kind, key, size in ob[-1]:
            if kind == "in":
                self.stats["pagein"] += 1
                if size > cap - before:
                    bad("pagein-early", f"page-in of {size} bytes started while {before} of {cap} were resident")
            else:
                self.stats["pageout"] += 1
        if op[0] == "io" and ob[1] and d.board.jobs[op[1]].ok is False:
            self.stats["jobs_failed"] += 1


def S_or(sig):
    return SIG_READD


def evaluate(env, cap, ops):
    w = Watch(S.cfg_of(cap)[2])
    d = S.Driver(env, cap, ops, w)
    cap = d.effective
    d.wild_write = False
    # a write is "wild" when no allocation for that key was granted before it: then the client, not the store, fills /dev/shm
    obs, crash = d.run()
    bad = list(w.bad)
    if crash:
        total = S.resident_total(d.m)
        orphan = S.readd_evidence(d)
        if d.m.free_space != cap - total or total > cap:
            bad.append((SIG_READD if orphan else "free-space-accounting",
                        f"op {crash[2]} {ops[crash[2]] if crash[2] < len(ops) else ''}: free_space={d.m.free_space}, resident total {total}, capacity {cap} "
                        f"(then {crash[0]} left the serve loop); datasets {S.snapshot(d.m)}", crash[2]))
        sig = "server-crash"
        if S.readd_evidence(d):
            sig = SIG_READD
        bad.append((sig, f"op {crash[2]}: {crash[0]} left LocalServer.start ({crash[1]})", crash[2]))
    return d, obs, crash, bad, w


# ----------------------------------------------------------------------------- streams
def corpus():
    readd = (10, [["add", "K", 6, 10], ["write", "K", "010203040506"], ["close", "K", None], ["add", "L", 6, 20], ["purge", "K"],
                  ["add", "K", 6, 30], ["write", "K", "0a0b0c0d0e0f"], ["io", 0, False], ["unlink", 0], ["cb", 0], ["add", "M", 10, 40], ["rseg", "K"]])
    leak = (4, [["add", "A", 4, 10], ["add", "B", 2, 20], ["add", "B", 1, 21], ["write", "A", "01020304"], ["close", "A", None],
                ["add", "B", 2, 30], ["io", 0, False], ["unlink", 0], ["cb", 0], ["add", "B", 2, 40]])
    test_shm = (4, [["add", "k1", 2, 1], ["write", "k1", "0102"], ["close", "k1", None], ["add", "k2", 2, 2], ["write", "k2", "0304"], ["close", "k2", None],
                    ["add", "k3", 2, 3], ["io", 0, False], ["unlink", 0], ["cb", 0], ["add", "k3", 2, 4], ["get", "k1", 5, [1]], ["io", 1, False], ["unlink", 1], ["cb", 1],
                    ["get", "k1", 6, [1]], ["io", 2, False], ["cb", 2], ["get", "k1", 7, [1]], ["rseg", "k1"], ["close", "k1", 1]])
    failed = (4, [["add", "a", 3, 1], ["write", "a", "010203"], ["close", "a", None], ["add", "b", 3, 2], ["io", 0, True], ["unlink", 0], ["cb", 0], ["add", "b", 3, 3],
                  ["get", "a", 4, [1]], ["rseg", "a"]])
    purge_race = (4, [["add", "a", 3, 1], ["write", "a", "010203"], ["close", "a", None], ["add", "b", 3, 2], ["purge", "a"], ["io", 0, False],
                      ["add", "a", 2, 3], ["unlink", 0], ["cb", 0], ["add", "b", 2, 4], ["add", "c", 1, 5]])
    # a purge between the two halves of the page-out body: the unlink must fail and the job must not credit the space again
    midpurge = (10, [["add", "k1", 6, 1], ["write", "k1", "010203040506"], ["close", "k1", None], ["add", "k2", 6, 2], ["io", 0, False], ["purge", "k1"],
                     ["unlink", 0], ["cb", 0], ["add", "k3", 8, 3], ["add", "k4", 8, 4]])
    rewrite = (3, [["alloc", "k1", "0102", 4, 0], ["alloc", "k2", "0304", 4, 0], ["read", "k1", 4, 0], ["purge", "k1"], ["alloc", "k1", "0a0b", 4, 0],
                   ["read", "k2", 4, 0], ["read", "k1", 4, 0]])
    # a server configured with more than /dev/shm offers (16 on a /dev/shm of 10), one that is not configured (None) and one that asks for less
    trimmed = ([16, 10], [["add", "k0", 11, 1], ["add", "k1", 8, 2], ["write", "k1", "0102030405060708"], ["close", "k1", None], ["get", "k1", 3, [1]],
                          ["add", "k2", 8, 4], ["close", "k1", 1], ["add", "k2", 8, 5], ["drain"], ["add", "k2", 8, 6], ["add", "k3", 2, 7], ["add", "k4", 1, 8]])
    default = ([None, 6], [["add", "a", 7, 1], ["add", "a", 4, 2], ["add", "b", 2, 3], ["add", "c", 1, 4]])
    less = ([4, 9], [["add", "a", 5, 1], ["add", "a", 4, 2], ["add", "b", 1, 3]])
    # requests and other completions while the completion callback of a page-out is parked right before it takes pageout_one
    during_cb = (10, [["add", "k1", 6, 1], ["write", "k1", "010203040506"], ["close", "k1", None], ["add", "k2", 8, 2], ["io", 0, False], ["unlink", 0],
                      ["cpart", 0], ["add", "k3", 4, 3], ["write", "k3", "0a0b0c0d"], ["close", "k3", None], ["cpart", 0], ["add", "k2", 8, 4], ["drain"], ["add", "k2", 8, 5]])
    two_cbs = (10, [["add", "k1", 3, 1], ["write", "k1", "010203"], ["close", "k1", None], ["add", "k2", 3, 2], ["write", "k2", "040506"], ["close", "k2", None],
                    ["add", "k3", 10, 3], ["io", 0, False], ["io", 1, False], ["unlink", 1], ["unlink", 0], ["cpart", 0], ["cpart", 1], ["cpart", 0], ["cpart", 1],
                    ["add", "k3", 10, 4], ["add", "k4", 1, 5]])
    return [readd, leak, test_shm, failed, purge_race, midpurge, rewrite, trimmed, default, less, during_cb, two_cbs]


def small_scope(maxlen):
    """every op list of length <= maxlen over two keys from a fixed alphabet (capacity 3), with a draining tail"""
    A, B = "A", "B"
    alpha = [["add", A, 2], ["add", B, 2], ["write", A, "0101"], ["close", A, None], ["get", A], ["purge", A],
             ["io", 0, False], ["unlink", 0], ["cb", 0], ["io", 1, False], ["cb", 1]]
    tail = [["drain"], ["add", B, 2], ["get", A], ["rseg", A]]
    for n in range(maxlen + 1):
        for mid in itertools.product(alpha, repeat=n):
            ops, t, rd = [], 1, 1
            for o in list(mid) + tail:
                o = list(o)
                if o[0] == "add":
                    o.append(t)
                elif o[0] == "get":
                    o += [t, [rd]]
                    rd += 1
                t += 1
                ops.append(o)
            yield 3, ops


def nontrivial(obs):
    """at least one allocation answered wait/refused for lack of space AND at least one disk job ran its callback"""
    press = any(o[0] == "add" and o[2] in ("wait",) for o in obs) or any(o[0] == "get" and o[-1] for o in obs)
    done = any(o[0] == "cb" and o[1] for o in obs)
    return press and done


def run(ctx, res):
    t_start = _time.time()
    listed = {f["signature"] for f in load_findings().get("open", []) if f.get("property") == "C08"}
    res.rule = ("an op list (allocate / client write / finish-write / get / finish-read / purge over 1-5 keys, capacity 1-16, sizes 1..capacity+2 and a few "
                "huge ones, interleaved with the io and callback halves of page-out/page-in jobs incl. injected disk faults, clock jumps beyond the "
                "15-minute staleness windows, malformed requests) counts as non-trivial when a request was answered `wait` or started a page-in for lack "
                "of space AND at least one disk-job callback ran; distinct = distinct (capacity, op list)")
    streams = [("corpus", c, o) for c, o in corpus()]
    rng = ctx.sub_rng("random")
    for _ in range(ctx.n(600, 12000)):
        streams.append(("random",) + S.gen_history(rng))
    rng = ctx.sub_rng("pressure")
    for _ in range(ctx.n(800, 16000)):
        streams.append(("pressure",) + S.pressure_history(rng))
    rng = ctx.sub_rng("malformed")
    for _ in range(ctx.n(200, 4000)):
        streams.append(("malformed",) + S.gen_history(rng, malformed=True))
    rng = ctx.sub_rng("midpurge")
    for _ in range(ctx.n(400, 8000)):
        streams.append(("midpurge",) + S.midpurge_history(rng))
    rng = ctx.sub_rng("rewrite")
    for _ in range(ctx.n(100, 2000)):
        streams.append(("rewrite",) + S.rewrite_history(rng))
    rng = ctx.sub_rng("conc")
    for _ in range(ctx.n(160, 3000)):
        streams.append(("conc",) + S.conc_history(rng))
    # how the store comes by its capacity: every stream also runs on servers configured with more than /dev/shm offers, or not at all
    rng = ctx.sub_rng("config")
    streams = [(kind, c if kind == "corpus" else S.with_config(rng, c), o) for kind, c, o in streams]
    for c, o in small_scope(ctx.n(3, 4)):
        streams.append(("small-scope", c, o))
    terms, metas, fterms, fmetas = [], [], [], []
    with S.patched() as env:
        stream_s = {}
        for kind, cap, ops in streams:
            t_h = _time.time()
            d, obs, crash, bad, w = evaluate(env, cap, ops)
            stream_s[kind] = stream_s.get(kind, 0.0) + _time.time() - t_h
            res.evaluations += 1
            res.count(f"stream:{kind}")
            case = {"capacity": cap, "ops": ops, "stream": kind}   # ops: macros are expanded in place by the run
            if nontrivial(obs):
                res.nontrivial_keys.add(S.hist_key(cap, ops))
            if isinstance(cap, list):
                res.count("config:not-configured" if not cap[0] else "config:more-than-available" if cap[0] > cap[1] else "config:at-most-available")
            for k in d.conc:
                res.count("conc:" + k)
            if kind != "small-scope":
                for k, v in w.stats.items():
                    if k != "max_resident" and v:
                        res.count(f"histories-with-{k}")
                if w.stats["max_resident"] == d.effective:
                    res.count("histories-reaching-full-store")
                for e in d.events:
                    res.count("event:" + e[0])
            for sig, what, i in bad[:1]:
                if sig == SIG_READD:
                    res.count("known-signature:" + SIG_READD)
                    if SIG_READD in listed:
                        res.fail(sig, what, case)
                else:
                    res.fail(sig, what, case)
            if len(res.samples) < 3 and kind == "pressure" and nontrivial(obs):
                res.samples.append({"capacity": cap, "ops": ops[:14], "observations": obs[:14]})
            if crash is not None or len(obs) != len(ops):
                res.count("not-compared:crashed")
            elif d.unmodelled:
                res.count("not-compared:finer-than-the-model")        # oracle only
            elif d.fine:
                fterms.append(S.c_fcase(cap, ops, obs))
                fmetas.append((case, obs))
            else:
                terms.append(S.c_case(cap, ops, obs))
                metas.append((case, obs))
        # the witness of C08_accounting_refuted must still fail on the implementation (else the model is out of date)
        wcap, wops = corpus()[0]
        d, obs, crash, bad, w = evaluate(env, wcap, wops)
        res.evaluations += 1
        if not (S.readd_evidence(d) and any(b[0] == SIG_READD for b in bad)):
            res.disagree("the witness of C08_accounting_refuted (readd-during-pageout) no longer breaks the accounting on the implementation: "
                         "the model (and the _partial/_refuted split) is out of date", {"capacity": wcap, "ops": wops, "observations": obs})
    t_impl = _time.time()
    results, logs = coq_results("C08", S.HEADER, terms, "check_case", tag="hist", shard=250)
    fresults, flogs = coq_results("C08", S.HEADER, fterms, "check_fcase", tag="fine", shard=250) if fterms else ([], [])
    res.count("compared:fine-grained-histories", len(fresults))
    res.extra["phase_s"] = {"implementation+oracle": round(t_impl - t_start, 1), "coq-correspondence": round(_time.time() - t_impl, 1),
                            "per-stream": {k: round(v, 1) for k, v in stream_s.items()}}
    results, logs, metas = results + fresults, logs + flogs, metas + fmetas
    res.corr_checked += len(results)
    for r, (case, obs) in zip(results, metas):
        if r is not True:
            res.disagree("Coq model (Shm.Manager.run) and the real shm server differ on an op list" +
                         ("" if r is False else " (cases file did not compile: " + (logs[0][-400:] if logs else "") + ")"),
                         {**case, "observations": obs})
            break


def search(ctx, res):
    first = [((d.get("case") or {}).get("capacity"), (d.get("case") or {}).get("ops")) for d in res.disagreements]
    first = [(c, o) for c, o in first if o]
    listed = {f["signature"] for f in load_findings().get("open", []) if f.get("property") == "C08"}

    def many():
        rng = ctx.sub_rng("search")
        for i in range(8000):
            c, o = [S.pressure_history, S.midpurge_history, S.gen_history, S.rewrite_history, S.conc_history][i % 5](rng)
            yield S.with_config(rng, c), o
    with S.patched() as env:
        for cap, ops in itertools.chain(first, corpus(), many(), small_scope(4)):
            d, obs, crash, bad, w = evaluate(env, cap, ops)
            bad = [b for b in bad if b[0] != SIG_READD or SIG_READD in listed]
            if bad:
                return shrink(ctx, {"signature": bad[0][0], "what": bad[0][1], "case": {"capacity": cap, "ops": ops, "stream": "search"}})
    return None


def shrink(ctx, f):
    cap, ops, sig = f["case"]["capacity"], list(f["case"]["ops"]), f["signature"]
    with S.patched() as env:
        def still(o):
            try:
                _, _, _, bad, _ = evaluate(env, cap, o)
            except Exception:
                return None
            for s, w, _ in bad:
                if s == sig:
                    return w
            return None
        what = still(ops)
        if what is None:
            return f
        changed = True
        while changed and len(ops) > 1:
            changed = False
            for i in range(len(ops) - 1, -1, -1):
                trial = ops[:i] + ops[i + 1:]
                w = still(trial)
                if w is not None:
                    ops, what, changed = trial, w, True
    return {"signature": sig, "what": what, "case": {"capacity": cap, "ops": ops, "stream": f["case"].get("stream", "?") + "+shrunk"}}


def replay(ctx, case):
    c = case.get("case") or (case.get("first_disagreement") or {}).get("case") or case
    ops, cap = c.get("ops"), c.get("capacity")
    if not ops:
        return {"fails": None, "note": "no op list in this replay file"}
    with S.patched() as env:
        d, obs, crash, bad, w = evaluate(env, cap, ops)
    return {"fails": bool(bad), "failures": [{"signature": s, "what": w_} for s, w_, _ in bad[:5]], "observations": obs, "crash": crash,
            "events": d.events}
