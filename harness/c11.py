"""C11 -- graph transformations preserve the computation the graph denotes.

Real code driven: earthkit.workflows.graph.{copy_graph, rename_nodes, deduplicate_nodes,
split_graph, expand_graph, fuse_nodes} on generated Node graphs.
Property oracle (Python, independent of the model): a hash-consing symbolic interpreter
turns every node into the expression (payload, outputs, {input name: (parent expression,
output name)}); the expression of every sink is taken BEFORE the transformation (the
transformers write nodes in place) and compared with the expression of the corresponding
sink of the result; plus the extra claims for dedup / split / expand.
Expansion: sub-graph templates with no / explicit input and output maps of every shape (empty, partial, identity, swapping,
fan-in, extra keys) whose node names collide with the names the maps talk about (gen_template_maps, SHAPES).
Split keys read the node only (name / payload / outputs), the node's DIRECT inputs too (input names, selected outputs, the parents' name / payload /
outputs / source-ness: "io" for sources and what reads a source, "compute" for the rest ...) or walk further up (depth, ancestors); for the second family
the generator looks for graphs where the key of a node would differ if it were taken after the node's inputs have been rewired to cut sources.
Fusion callbacks answer with a new Node, with the child object written in place, a mix of both, or the child as it is (FMODES, FKeep).
Sessions (gen_session / run_session): programs of several operations in one process on Graph objects that live on -- Graph.empty(), +, +=,
join_namespaced (1-3 graphs, the same graph twice, adversarial namespaces), and copy / rename / dedup / fuse applied to graphs made by
earlier operations (graphs sharing node objects, renamed / fused-in-place nodes); after EVERY operation every graph made so far is read again.
Correspondence: the Gallina models (coq/theories/Graph/{Engine,Copy,Rename,Dedup,Split,
Expand,Fuse}.v) are evaluated inside Coq on the same graphs and compared with the observed
result graph up to renumbering of nodes (exact names, outputs, payloads, inputs and their
order, sinks and their order; exception type when the real function raises); sessions: the sink lists of ALL graph objects after every
operation against the list-object store of Graph/GraphOps.v (check_session), the transformer calls inside sessions against the node-level
models as above."""
import json

from common import cZ, cbool, clist, cnat, copt, coq_results, cstr, load_findings

TRUSTED = [
    "harness/c11.py: identity-based numbering of Node objects in a topological order (Python object -> heap index); payload <-> pv conversion; "
    "the symbolic interpreter (nexpr) used by the property oracle",
    "in-place writes to Node objects are modelled as new versions appended to a result heap (Engine.v header): object identity between input and result "
    "graphs is not part of the model (the property does not mention it) -- except where it decides what is computed: the fusion callback's answer says "
    "whether it is the child OBJECT written in place (Fuse.v: self / is_self), a Graph holds a sink-list OBJECT (GraphOps.v)",
    "harness/c11.py sessions: numbering of Node objects by identity for the whole session (objects kept alive); the expected denotations of a session are "
    "computed by the harness from the operation's arguments (lists of expression ids)",
]
ASSUMPTIONS = [
    "graph objects are numbered topologically (an input points to a smaller index): every acyclic pointer graph has such a numbering; cyclic Node structures are outside the property",
    "theorems are stated for runs that return (f g = Ok g'): Err is a Python exception or an out-of-domain marker; that the model's fuel suffices on acyclic graphs with valid sinks is proved (C11_engine_fuel_sufficient, C11_fuel_all)",
    "inputs refer to outputs their parents have (otherwise Transformer falls back to a (node, output) tuple and the result is not a graph): model answers model:tuple-input, generator stays inside",
    "C11_dedup_preserves: the interpretation takes inputs as keyword arguments (a dictionary: hypothesis interp_kw), because _cmp_nodes merges nodes whose inputs are listed in a different order; "
    "the predicate only merges nodes of equal payload (pred_payload); C11_dedup_no_two_equal: pred decides payload equality (pred_spec); "
    "self.nodes (a set) is modelled as a list in registration order, __find_node returns the first match",
    "split: the key callback is a function of the node and of the heap its inputs point into (it may follow n.inputs[..].parent); the model takes it on the INPUT graph "
    "(key (heap g) nd: the Splitter asks once per node, before it writes node.inputs). Exact for keys that read the node and, of its direct inputs, the input names, the "
    "selected output names and each parent's name / outputs / payload / whether it has inputs -- fields the Splitter never writes (KFUNS_NODE, KFUNS_INPUTS); keys that walk "
    "further up (KFUNS_DEEP) read parents that are already rewired to cut sources: they are run against the property oracle only (every node in exactly one part, a part named "
    "by a key the function returned for that node; reported cuts = edges between parts; re-join), not against the model",
    "C11_split_rejoin / C11_split_cuts_exact_partial: key function, key equality and the cut-name hash are arbitrary parameters; re-joining = the source node of a cut denotes the output the cut replaced (sem_rj); "
    "C11_split_placed_by_input_key: which result node is the written version of which input node is read off the engine's `done` dict, kept as a ghost field of the model's "
    "result (rdone); the version keeps name, outputs, payload and input names, its inputs may be cut sources. "
    "C11_split_partition / C11_split_part_of_key: key equality is equality (keqb a b = true <-> a = b). That distinct cut edges get distinct names (CutEdge.name is a hash) is outside the model: the oracle checks it on adversarial field texts",
    "C11_dedup_idempotent: pred decides payload equality; sink order of the model (the implementation's set order is matched by the checker)",
    "C11_expand_sources: input maps are association lists with distinct keys (a Python dict); the default Splicer (splice_source / splice_sink not overridden)",
    "C11_expand_splice_sem: the sub-graph is acyclic and the node's transformed inputs live in the result heap; the reading of the sub-graph with its bound sources connected (ssem) is a definition of "
    "Graph/ExpandSplice.v. C11_expand_preserves_contract_partial: hypothesis sub_denotes on every answer of the expander (for the interpretation at hand: the sub-graph computes what the node computes "
    "from the inputs the input map binds); conclusion only for sinks that are not expanded themselves",
    "C11_expand_preserves_partial: hypothesis splice_denotes (every spliced sub-graph denotes the node it replaces, stated on the result of the model's splice step); the expander returns a FRESH sub-graph on every call",
    "C11_fuse_preserves: node.inputs is a dict (distinct input names); the callback contract (result refers to existing nodes only, keeps the child's other inputs, denotes the child when the child's input cin is fed by "
    "something denoting the parent's output) -- the harness's `inline` callback is checked against this reading by the oracle (fused nodes are read as child-with-parent-inlined), not proved to satisfy it",
    "C11_fuse_preserves covers callbacks that answer with a new node or with the child object they were handed, written in place; a callback that writes the "
    "PARENT object (or any other node) is outside the contract",
    "C11_graph_ops_frame: programs that never hand a graph's own list to the constructor (wrap_free; Graph(g.sinks) keeps the list and is expressible in the model: GWrap); "
    "which node objects a transformer / join_namespaced returns is read off the observation (GTrans, parts of GJoin), the model fixes their number and allocates the list. "
    "C11_join_preserves: each argument is renamed from its own heap (arguments sharing node objects are renamed more than once by the source: names are not part of "
    "what a node denotes); the joined graph is the disjoint union of the renamed graphs",
    "sessions: every transformer but split/expand keeps what its INPUT graph (and every graph sharing nodes with it) denotes, fused nodes read as child-with-parent-inlined "
    "-- the oracle demands it of copy/rename/dedup/fuse/join/+/+=; split and expand replace inputs of the nodes they are given and are not part of sessions",
    "Node.__init__ cannot bind inputs called self/name/outputs/payload (TypeError in Node.copy / splice_sink, modelled by mk_node); generated graphs are built with Node(...), so such inputs do not occur",
]

HEADER = """From Coq Require Import List String Bool Arith ZArith.
From EKW Require Import Graph.GStore Graph.ExportCheck Graph.Engine Graph.Split Graph.Expand Graph.EngineCheck Graph.GraphOps Graph.GraphOpsCheck.
Import ListNotations.
Open Scope string_scope.
Open Scope list_scope.
"""

# ----------------------------------------------------------------------------- pools
NAMES = ["main", "min", "main.min", "m", "ma", "a", "n", "ai", "in", "main.", ".", "main.main", "i", "mm", "x", "a.b", "b", "0", "nim", "am.",
         "reader", "process-1", "writer", "mai", "n.i", "a.a", "", " ", "na", "main.m"]
ONAMES_ATTR = ["payload", "name", "inputs", "outputs", "copy", "get_output", "serialise", "is_sink", "leaves", "inner_sinks", "output_map"]
ONAMES = ["0", "a", "b", "x", "out.1", "0.", "min", "main"] + ONAMES_ATTR
INAMES = ["x", "y", "input", "node", "n", "s", "p", "data", "i0", "i1", "a.b", "0", "", "in put", "func", "graph", "inputs", "cut", "key"]
PAYLOADS = [None, None, 0, 1, 2, 7, "p", "q", "", "a.b", ("t", 1), [1, 2]]


# a tiny alphabet: texts of different fields run together ("a"+"ba" == "ab"+"a"), for anything that concatenates names
TINY_NAMES = ["a", "b", "aa", "ab", "ba", "bb", "aaa", "aab", "aba", "abb", "baa", "bab", "bba", "bbb", "1", "10", "11", "0", "01", "1a", "a1"]
TINY_OUTS = ["a", "b", "ab", "ba", "aa", "0", "1", "a1", "01", "u", "u1"]
TINY_INS = ["a", "b", "ab", "ba", "x", "1", "a1", "1a"]


def gen_outputs(rng):
    k = rng.randrange(10)
    if k < 4:
        return None
    if k < 5:
        return ["0"]
    if k < 6:
        return []
    n = rng.choice([1, 2, 2, 3])
    outs = rng.sample(ONAMES, n)
    return outs


def gen_spec(rng, flavour="plain", maxn=12):
    n = rng.choice([1, 2, 2, 3, 3, 4, 4, 5, 6, 7, 8, 10, maxn])
    n = min(n, maxn)
    tiny = flavour == "tiny"
    pool = list(TINY_NAMES if tiny else NAMES)
    rng.shuffle(pool)
    names = pool[:n]
    if flavour == "dup-names" and n >= 2:
        names[rng.randrange(1, n)] = names[0]
    nodes = []
    for i in range(n):
        outs = gen_outputs(rng)
        if flavour in ("chain", "dups") and rng.random() < (0.7 if flavour == "chain" else 0.45):
            outs = None
        if tiny:
            outs = rng.choice([None, [], rng.sample(TINY_OUTS, 2), rng.sample(TINY_OUTS, 2), rng.sample(TINY_OUTS, 3)])
        ins = []
        cands = [j for j in range(i) if (nodes[j]["outputs"] is None or nodes[j]["outputs"])]
        p_in = 0.85 if flavour != "wide" else 0.6
        if cands and rng.random() < p_in:
            k = rng.choice([1, 1, 2, 2, 3]) if flavour != "chain" else 1
            for iname in rng.sample(TINY_INS if tiny else INAMES, k):
                j = rng.choice(cands) if rng.random() < 0.6 else cands[-1]
                po = nodes[j]["outputs"]
                oname = "0" if po is None else rng.choice(po)
                ins.append([iname, j, oname])
        pay = rng.choice(PAYLOADS)
        nodes.append({"name": names[i], "outputs": outs, "payload": pay, "inputs": ins})
    if flavour == "dups" and n >= 2:
        # clone some nodes (same payload, outputs, inputs -- sometimes with the inputs listed in another order)
        for _ in range(rng.choice([1, 2, 3])):
            j = rng.randrange(len(nodes))
            c = json.loads(json.dumps(nodes[j]))
            c["payload"] = nodes[j]["payload"]
            c["name"] = nodes[j]["name"] + "'" * rng.choice([1, 2])
            if rng.random() < 0.4:
                c["inputs"] = c["inputs"][::-1]
            multi = [x for x in c["inputs"] if len(nodes[x[1]]["outputs"] or ["0"]) > 1]
            if multi and rng.random() < 0.6:
                # a look-alike, not a duplicate: it reads ANOTHER OUTPUT of the same parent, everything else equal
                x = rng.choice(multi)
                x[2] = rng.choice([o for o in nodes[x[1]]["outputs"] if o != x[2]] or [x[2]])
            elif c["inputs"] and rng.random() < 0.45:
                # a look-alike, not a duplicate: same payload, outputs, input and output names, but one input comes from ANOTHER parent
                x = rng.choice(c["inputs"])
                alts = [q for q in range(len(nodes)) if q != x[1] and q != j and x[2] in (nodes[q]["outputs"] if nodes[q]["outputs"] is not None else ["0"])
                        and not depends_on(nodes, q, j)]
                if alts:
                    x[1] = rng.choice(alts)
            # consumers of the clone: a new node, or rewire an existing consumer
            nodes.append(c)
            ci = len(nodes) - 1
            if c["outputs"] is None or c["outputs"]:
                users = [nd for nd in nodes[j + 1:ci] if any(x[1] == j for x in nd["inputs"])]
                if users and rng.random() < 0.6:
                    u = rng.choice(users)
                    cu = json.loads(json.dumps(u))
                    cu["payload"] = u["payload"]
                    cu["name"] = u["name"] + "~"
                    for x in cu["inputs"]:
                        if x[1] == j:
                            x[1] = ci
                    nodes.append(cu)
    nn = len(nodes)
    consumed = {j for nd in nodes for (_, j, _) in nd["inputs"]}
    terminal = [i for i in range(nn) if i not in consumed]
    mode = rng.randrange(7)
    if mode <= 2:
        sinks = terminal
    elif mode == 3:
        sinks = terminal[::-1]
    elif mode == 4:
        sinks = [i for i in range(nn) if rng.random() < 0.5] or terminal
    elif mode == 5:
        sinks = terminal + [rng.randrange(nn)]          # a sink that is also an inner node / listed twice
    else:
        sinks = terminal[:]
        rng.shuffle(sinks)
    return {"nodes": nodes, "sinks": sinks}


def depends_on(nodes, a, b):
    """does node a (transitively) use node b"""
    todo, seen = [a], set()
    while todo:
        i = todo.pop()
        if i == b:
            return True
        if i in seen:
            continue
        seen.add(i)
        todo.extend(j for _, j, _ in nodes[i]["inputs"])
    return False


def pay_to_json(p):
    if p is None:
        return None
    if isinstance(p, bool):
        raise ValueError("bool payload")
    if isinstance(p, int):
        return {"i": p}
    if isinstance(p, str):
        return {"s": p}
    if isinstance(p, list):
        return {"l": [pay_to_json(x) for x in p]}
    if isinstance(p, tuple):
        return {"t": [pay_to_json(x) for x in p]}
    raise ValueError(f"payload outside the modelled domain: {p!r}")


def pay_from_json(j):
    if j is None:
        return None
    if "i" in j:
        return j["i"]
    if "s" in j:
        return j["s"]
    if "l" in j:
        return [pay_from_json(x) for x in j["l"]]
    return tuple(pay_from_json(x) for x in j["t"])


def spec_to_json(spec):
    return {"nodes": [{**nd, "payload": pay_to_json(nd["payload"])} for nd in spec["nodes"]], "sinks": list(spec["sinks"])}


def spec_from_json(j):
    return {"nodes": [{**nd, "payload": pay_from_json(nd["payload"])} for nd in j["nodes"]], "sinks": list(j["sinks"])}


def build_spec(spec):
    """fresh Node objects for a spec; returns (Graph, list of objects in spec order)"""
    from earthkit.workflows.graph import Graph, Node
    objs = []
    for nd in spec["nodes"]:
        kw = {}
        for k, (iname, j, oname) in enumerate(nd["inputs"]):
            p = objs[j]
            kw[iname] = p if (oname == "0" and k % 2 == 0 and "0" in p.outputs) else p.get_output(oname)
        if nd["outputs"] is None:
            o = Node(nd["name"], payload=nd["payload"], **kw)
        else:
            o = Node(nd["name"], list(nd["outputs"]), nd["payload"], **kw)
        objs.append(o)
    return Graph([objs[i] for i in spec["sinks"]]), objs


# ----------------------------------------------------------------------------- Coq literals
def coq_pv(p):
    if isinstance(p, bool):
        raise ValueError("bool payload")
    if isinstance(p, int):
        return f"PInt {cZ(p)}"
    if isinstance(p, str):
        return f"PStr {cstr(p)}"
    if isinstance(p, (list, tuple)):
        return f"PSeq {cbool(isinstance(p, tuple))} " + clist([f"({coq_pv(x)})" if isinstance(x, (list, tuple)) else coq_pv(x) for x in p])
    raise ValueError(f"payload outside the modelled domain: {p!r}")


def copt_pv(p):
    return "None" if p is None else f"(Some ({coq_pv(p)}))"


def coq_spec(spec):
    nodes = []
    for nd in spec["nodes"]:
        outs = ["0"] if nd["outputs"] is None else nd["outputs"]
        ins = clist([f"({cstr(i)}, ({cnat(j)}, {cstr(o)}))" for i, j, o in nd["inputs"]])
        nodes.append(f"mkNode {cstr(nd['name'])} {clist(outs, cstr)} {copt_pv(nd['payload'])} {ins}")
    return f"(@mkGraph pv {clist(nodes)} {clist([cnat(i) for i in spec['sinks']])})"


def topo_objects(sinks):
    """reachable Node objects, parents first, by identity (own traversal; no Graph.nodes)"""
    order, state = [], {}
    for s in sinks:
        if id(s) in state:
            continue
        state[id(s)] = 1
        stack = [(s, iter([src.parent for src in s.inputs.values()]))]
        while stack:
            node, it = stack[-1]
            nxt = next(it, None)
            if nxt is None:
                stack.pop()
                state[id(node)] = 2
                order.append(node)
            elif id(nxt) not in state:
                state[id(nxt)] = 1
                stack.append((nxt, iter([src.parent for src in nxt.inputs.values()])))
            elif state[id(nxt)] == 1:
                raise ValueError("cycle")
    return order


def coq_objs(sink_lists):
    """one heap for the objects reachable from all the given sink lists; returns (heap term, [sink index lists])"""
    allsinks = [s for sl in sink_lists for s in sl]
    objs = topo_objects(allsinks)
    idx = {id(o): i for i, o in enumerate(objs)}
    nodes = []
    for o in objs:
        ins = clist([f"({cstr(k)}, ({cnat(idx[id(s.parent)])}, {cstr(s.name)}))" for k, s in o.inputs.items()])
        nodes.append(f"mkNode {cstr(o.name)} {clist(o.outputs, cstr)} {copt_pv(o.payload)} {ins}")
    return clist(nodes), [[idx[id(s)] for s in sl] for sl in sink_lists]


def coq_graph(g):
    heap, (sinks,) = coq_objs([g.sinks])
    return f"(@mkGraph pv {heap} {clist([cnat(i) for i in sinks])})"


def observed(fn):
    """run the real transformation; returns (result or None, Coq term of the observation, exception name)"""
    try:
        g2 = fn()
    except Exception as e:
        return None, f"o_err {cstr(type(e).__name__)}", type(e).__name__
    try:
        return g2, f"o_ok {coq_graph(g2)}", None
    except Exception as e:   # result is not a graph of Nodes/Outputs
        return g2, f"o_err {cstr('not-a-graph:' + type(e).__name__)}", "not-a-graph:" + type(e).__name__


# ----------------------------------------------------------------------------- symbolic interpreter (oracle)
class Interner:
    """hash-consing: structurally equal expressions get the same small integer"""

    def __init__(self):
        self.table = {}

    def key(self, k):
        return self.table.setdefault(k, len(self.table))


def pay_key(p):
    if isinstance(p, list):
        return ("L",) + tuple(pay_key(x) for x in p)
    if isinstance(p, tuple):
        return ("T",) + tuple(pay_key(x) for x in p)
    return (type(p).__name__, p)


def nexpr(node, it, memo, resolve=None):
    """expression of a node = (payload, outputs, sorted {iname: (expression of parent, output name)}).
    `resolve(output) -> output` lets a caller redirect an input (re-joining cut edges)."""
    if id(node) in memo:
        return memo[id(node)]
    args = []
    for iname, src in node.inputs.items():
        if resolve is not None:
            src = resolve(src)
        args.append((iname, nexpr(src.parent, it, memo, resolve), src.name))
    k = it.key((pay_key(node.payload), tuple(node.outputs), tuple(sorted(args))))
    memo[id(node)] = k
    return k


def snapshot(g, it):
    memo = {}
    return [nexpr(s, it, memo) for s in g.sinks]


# ----------------------------------------------------------------------------- renaming functions
RFUNS = [("RPrefix", "ns."), ("RPrefix", "main."), ("RSuffix", ".0"), ("RSuffix", ""), ("RConst", "same"), ("RConst", ""), ("RHead", None), ("RId", None)]


def rfun_py(rf):
    kind, s = rf
    return {"RPrefix": lambda n: s + n, "RSuffix": lambda n: n + s, "RConst": lambda n: s, "RHead": lambda n: n[:1], "RId": lambda n: n}[kind]


def rfun_coq(rf):
    kind, s = rf
    return kind if s is None else f"({kind} {cstr(s)})"


# ----------------------------------------------------------------------------- per-transformation drivers
def positional_oracle(what, before, g2, it):
    """sink i of the result denotes what sink i of the input denoted"""
    from earthkit.workflows.graph import Graph
    if not isinstance(g2, Graph):
        return f"{what}: result is {type(g2).__name__}, not a Graph"
    if len(g2.sinks) != len(before):
        return f"{what}: {len(g2.sinks)} sinks in the result, {len(before)} in the input"
    try:
        after = snapshot(g2, it)
    except Exception as e:
        return f"{what}: result graph cannot be evaluated ({type(e).__name__}: {e})"[:300]
    for i, (a, b) in enumerate(zip(before, after)):
        if a != b:
            return f"{what}: sink {i} ({g2.sinks[i].name!r}) denotes a different expression than sink {i} of the input"
    return None


def drive_copy(spec, rng, out):
    from earthkit.workflows.graph import copy_graph
    g, _ = build_spec(spec)
    it = Interner()
    before = snapshot(g, it)
    g2, obs, exc = observed(lambda: copy_graph(g))
    out["coq"].append(("copy", f"({coq_spec(spec)}, {obs})"))
    if exc:
        return ("copy-raises-" + exc, f"copy_graph raised {exc}")
    why = positional_oracle("copy_graph", before, g2, it)
    if why:
        return ("copy-changes-denotation", why)
    if snapshot(g, it) != before:
        return ("copy-changes-input", "copy_graph: the sinks of the INPUT graph denote something else after the call")
    return None


def drive_rename(spec, rng, out):
    from earthkit.workflows.graph import rename_nodes
    rf = rng.choice(RFUNS)
    out["params"] = {"rfun": list(rf)}
    return run_rename(spec, rf, out)


def run_rename(spec, rf, out):
    from earthkit.workflows.graph import rename_nodes
    g, _ = build_spec(spec)
    it = Interner()
    before = snapshot(g, it)
    g2, obs, exc = observed(lambda: rename_nodes(rfun_py(rf), g))
    out["coq"].append(("rename", f"({rfun_coq(rf)}, {coq_spec(spec)}, {obs})"))
    if exc:
        return ("rename-raises-" + exc, f"rename_nodes raised {exc}")
    why = positional_oracle("rename_nodes", before, g2, it)
    if why:
        return ("rename-changes-denotation", why)
    return None


# ----------------------------------------------------------------------------- dedup
def same_inputs(a, b):
    return ({k: (id(v.parent), v.name) for k, v in a.inputs.items()} == {k: (id(v.parent), v.name) for k, v in b.inputs.items()})


def drive_dedup(spec, rng, out):
    from earthkit.workflows.graph import Graph, deduplicate_nodes
    g, _ = build_spec(spec)
    it = Interner()
    before = snapshot(g, it)
    g2, obs, exc = observed(lambda: deduplicate_nodes(g))
    out["coq"].append(("dedup", f"({coq_spec(spec)}, {obs})"))
    if exc:
        return ("dedup-raises-" + exc, f"deduplicate_nodes raised {exc}")
    if not isinstance(g2, Graph):
        return ("dedup-result-not-a-graph", f"result is {type(g2).__name__}")
    after = snapshot(g2, it)
    for i, e in enumerate(before):
        if e not in after:
            return ("dedup-changes-denotation", f"deduplicate_nodes: no sink of the result denotes what sink {i} of the input denoted")
    for j, e in enumerate(after):
        if e not in before:
            return ("dedup-changes-denotation", f"deduplicate_nodes: sink {j} ({g2.sinks[j].name!r}) of the result denotes something no sink of the input denoted")
    objs = topo_objects(g2.sinks)
    for x in range(len(objs)):
        for y in range(x + 1, len(objs)):
            a, b = objs[x], objs[y]
            if a.payload == b.payload and a.outputs == b.outputs and same_inputs(a, b):
                return ("dedup-leaves-duplicates", f"deduplicate_nodes: nodes {a.name!r} and {b.name!r} of the result have equal payload, outputs and inputs")
    n2 = len(objs)
    names2 = sorted((o.name, nexpr(o, it, {})) for o in objs)
    g3 = deduplicate_nodes(g2)
    objs3 = topo_objects(g3.sinks)
    if len(objs3) != n2 or sorted(snapshot(g3, it)) != sorted(after) or sorted((o.name, nexpr(o, it, {})) for o in objs3) != names2:
        return ("dedup-not-idempotent", f"deduplicate_nodes applied to its own result changed it ({n2} nodes -> {len(objs3)})")
    return None


# ----------------------------------------------------------------------------- split
def pay_class(p):
    return "none" if p is None else "int" if isinstance(p, int) else "str" if isinstance(p, str) else "seq"


# key functions.  KFUNS_NODE read the node only (name / payload / outputs -- all the repository's tests use).  KFUNS_INPUTS read the node's
# DIRECT inputs as well: input names, the output names they select, and of each parent what the Splitter never writes (name, payload, outputs,
# whether it has inputs) -- "io for sources and whatever reads a source, compute for the rest".  The Splitter writes node.inputs while it walks
# the graph, so for these keys it matters WHEN the key of a node is taken: split_graph takes it once, when the node is visited and still has the
# inputs of the input graph.  KFUNS_DEEP walk further up (depth, ancestors' payloads, grandparents): they read a graph that is partly split
# already, so the part a node goes to is not predicted -- the oracle demands of them what the property says (every node in exactly one part, a
# part whose key the function returned for that node; the reported cuts are the edges between parts; re-joining gives back the original).
KFUNS_NODE = [("KHead", None), ("KHead", None), ("KConst", "k"), ("KPay", None), ("KOuts", None), ("KName", None), ("KLast", None), ("KLen", None)]
KFUNS_INPUTS = [("KIo", None), ("KIo", None), ("KNin", None), ("KParHead", None), ("KParPay", None), ("KIname", None), ("KOname", None), ("KParOuts", None),
                ("KMix", None), ("KParNames", None)]
KFUNS_DEEP = [("KDepth", None), ("KAncInt", None), ("KRoots", None), ("KGrand", None)]
# keys that are not strings (K is any hashable with ==): an int, a pair, a tuple of input names -- all read the node and its direct inputs; oracle as for
# KFUNS_INPUTS, no model case (the model's checker instantiates K with strings)
KFUNS_TYPED = [("KNinInt", None), ("KPair", None), ("KInTuple", None)]
KFUNS = KFUNS_NODE + KFUNS_INPUTS
DEEP_KINDS = {k for k, _ in KFUNS_DEEP}
NOCOQ_KINDS = DEEP_KINDS | {k for k, _ in KFUNS_TYPED}
INPUT_KINDS = {k for k, _ in KFUNS_INPUTS}


def _outs_class(outs):
    return "sink" if not outs else "one" if len(outs) == 1 else "many"


def _parents(n):
    return [src.parent for src in n.inputs.values()]


def _k_io(n):
    return "io" if not n.inputs or any(not p.inputs for p in _parents(n)) else "compute"


def _depth(n, memo=None):
    memo = {} if memo is None else memo
    if id(n) not in memo:
        memo[id(n)] = 1 + max((_depth(p, memo) for p in _parents(n)), default=-1)
    return memo[id(n)]


def _ancestors(n):
    seen, todo = {}, list(_parents(n))
    while todo:
        p = todo.pop()
        if id(p) not in seen:
            seen[id(p)] = p
            todo.extend(_parents(p))
    return list(seen.values())


def kfun_py(kf):
    kind, s = kf
    return {"KHead": lambda n: n.name[:1], "KConst": lambda n: s, "KPay": lambda n: pay_class(n.payload),
            "KOuts": lambda n: _outs_class(n.outputs), "KName": lambda n: n.name,
            "KLast": lambda n: n.name[-1:], "KLen": lambda n: "1" if len(n.name) % 2 else "0",
            # -- keys that read the direct inputs
            "KIo": _k_io,
            "KNin": lambda n: str(min(len(n.inputs), 2)),
            "KParHead": lambda n: _parents(n)[0].name[:1] if n.inputs else "-",
            "KParPay": lambda n: pay_class(_parents(n)[0].payload) if n.inputs else "src",
            "KIname": lambda n: next(iter(n.inputs)) if n.inputs else "-",
            "KOname": lambda n: next(iter(n.inputs.values())).name if n.inputs else "-",
            "KParOuts": lambda n: _outs_class(_parents(n)[-1].outputs) if n.inputs else "-",
            "KMix": lambda n: n.name[:1] + "/" + _k_io(n),
            "KParNames": lambda n: ",".join(p.name for p in _parents(n)),
            "KNinInt": lambda n: len(n.inputs),
            "KPair": lambda n: (n.name[:1], _k_io(n)),
            "KInTuple": lambda n: tuple(sorted(n.inputs)),
            # -- keys that walk further up
            "KDepth": lambda n: str(_depth(n) // 2),
            "KAncInt": lambda n: "t" if any(isinstance(a.payload, int) for a in _ancestors(n)) else "f",
            "KRoots": lambda n: "".join(sorted({a.name[:1] for a in _ancestors(n) if not a.inputs}))[:2],
            "KGrand": lambda n: next((g.name[:1] for p in _parents(n) for g in _parents(p)), "-")}[kind]


def kfun_coq(kf):
    kind, s = kf
    return kind if s is None else f"({kind} {cstr(s)})"


def coq_cut(c):
    return f"(mkCut {cstr(c.source_key)} {cstr(c.source_node)} {cstr(c.source_output)} {cstr(c.dest_key)} {cstr(c.dest_node)} {cstr(c.dest_input)})"


class _O:
    def __init__(self, parent, name):
        self.parent, self.name = parent, name


class _N:
    def __init__(self, nd, inputs=None):
        self.name, self.payload, self.outputs = nd["name"], nd["payload"], (["0"] if nd["outputs"] is None else nd["outputs"])
        self.inputs = inputs or {}


def spec_keys(spec, kf):
    """the key of every reachable node of a spec, on stand-ins linked like the Node objects would be"""
    keyf = kfun_py(kf)
    fake = []
    for nd in spec["nodes"]:
        fake.append(_N(nd, {iname: _O(fake[j], o) for iname, j, o in nd["inputs"]}))
    return {i: keyf(fake[i]) for i in sorted(reachable(spec))}


def concat_collisions(spec, kf):
    """number of pairs of distinct cross-part edges whose field texts, written one after the other, read the same"""
    reach = sorted(reachable(spec))
    keys = spec_keys(spec, kf)
    edges = {(keys[j], spec["nodes"][j]["name"], o, keys[i], spec["nodes"][i]["name"], iname)
             for i in reach for iname, j, o in spec["nodes"][i]["inputs"] if keys[i] != keys[j]}
    texts = {}
    for e in edges:
        texts.setdefault("".join(e), []).append(e)
    return sum(len(v) - 1 for v in texts.values())


def adversarial_split_case(rng, tries=300):
    """a tiny-alphabet graph and a key function under which two distinct cut edges have field texts that run together identically"""
    best = None
    for _ in range(tries):
        spec = gen_spec(rng, "tiny", maxn=7)
        for kf in KFUNS:
            if concat_collisions(spec, kf):
                return spec, kf
        best = spec
    return best, rng.choice(KFUNS)


def late_keys(spec, kf):
    """the keys the nodes WOULD get if the key function were asked after the cross-part inputs have been replaced by cut sources"""
    keyf = kfun_py(kf)
    keys = spec_keys(spec, kf)
    fake = {}
    for i in sorted(keys):
        nd = spec["nodes"][i]
        ins = {}
        for iname, j, o in nd["inputs"]:
            ins[iname] = _O(fake[j], o) if keys[j] == keys[i] else _O(_N({"name": "__cut__", "payload": None, "outputs": None}), "0")
        fake[i] = _N(nd, ins)
    return keys, {i: keyf(fake[i]) for i in keys}


def pick_kfun(rng):
    r = rng.random()
    return rng.choice(KFUNS_NODE) if r < 0.3 else rng.choice(KFUNS_INPUTS) if r < 0.78 else rng.choice(KFUNS_TYPED) if r < 0.87 else rng.choice(KFUNS_DEEP)


def drive_split(spec, rng, out):
    if out.get("flavour") == "tiny" and rng.random() < 0.7:
        spec2, kf = adversarial_split_case(rng)
        spec.clear()
        spec.update(spec2)
        out["params"] = {"kfun": list(kf)}
        return run_split(spec, kf, out)
    kf = pick_kfun(rng)
    if kf[0] in INPUT_KINDS or kf in KFUNS_TYPED:
        # mostly graphs on which the moment the key is taken matters: some node has a cut edge coming in and would get another key afterwards
        for _ in range(6):
            keys, late = late_keys(spec, kf)
            if keys != late:
                break
            spec2 = gen_spec(rng, out.get("flavour") if out.get("flavour") in ("plain", "wide", "chain", "dup-names") else "chain")
            spec.clear()
            spec.update(spec2)
    out["params"] = {"kfun": list(kf)}
    return run_split(spec, kf, out)


def run_split(spec, kf, out):
    from earthkit.workflows.graph import Graph, split_graph
    pure = kfun_py(kf)
    deep = kf[0] in DEEP_KINDS
    nocoq = kf[0] in NOCOQ_KINDS
    calls = {}

    def keyf(n):
        k = pure(n)
        calls.setdefault(id(n), []).append(k)
        return k
    g, objs = build_spec(spec)
    it = Interner()
    before = snapshot(g, it)
    reach = sorted(reachable(spec))
    keys = {i: pure(objs[i]) for i in reach}          # the key of every node IN THE INPUT GRAPH
    orig_sinks = list(g.sinks)
    try:
        parts, cuts = split_graph(keyf, g)
        exc = None
    except Exception as e:
        exc = type(e).__name__
    if exc:
        if not nocoq:
            out["coq"].append(("split", f"({kfun_coq(kf)}, {coq_spec(spec)}, so_err {cstr(exc)})"))
        return ("split-raises-" + exc, f"split_graph raised {exc}")
    st = out.setdefault("stats", set())
    st.add("key-reads-" + ("ancestors" if deep else "direct-inputs" if (kf[0] in INPUT_KINDS or nocoq) else "node-only"))
    if nocoq and not deep:
        st.add("key-is-not-a-string")
    if len({keys[i] for i in reach}) > 1:
        st.add("several-parts")
    try:
        if any(pure(objs[i]) != keys[i] for i in reach):
            st.add("key-of-some-node-differs-after-the-split")
    except Exception:
        pass
    if not nocoq:
        heap, sink_idx = coq_objs([p.sinks for p in parts.values()])
        parts_term = clist([f"({cstr(k)}, {clist([cnat(i) for i in idx])})" for k, idx in zip(parts.keys(), sink_idx)])
        cuts_term = clist([f"({coq_cut(c)}, {cstr(c.name)})" for c in cuts])
        out["coq"].append(("split", f"({kfun_coq(kf)}, {coq_spec(spec)}, so_ok (mkSO {heap} {parts_term} {cuts_term}))"))
    # -- every node in exactly one part, the part of its key
    members = {k: topo_objects(p.sinks) for k, p in parts.items()}
    for i in reach:
        homes = [k for k, m in members.items() if any(o is objs[i] for o in m)]
        if deep:
            # the key walks up a graph the Splitter is writing: the part is not predicted, it must be ONE part, named by a key the function gave for this node
            if len(homes) != 1:
                return ("split-not-a-partition", f"split_graph: node {objs[i].name!r} is in parts {homes!r}")
            if homes[0] not in calls.get(id(objs[i]), []):
                return ("split-part-is-no-key-of-the-node", f"split_graph: node {objs[i].name!r} is in part {homes[0]!r}, the key function answered {calls.get(id(objs[i]), [])!r} for it")
            keys[i] = homes[0]
        elif homes != [keys[i]]:
            return ("split-not-a-partition", f"split_graph: node {objs[i].name!r} (key {keys[i]!r}) is in parts {homes!r}")
    orig_ids = {id(objs[i]) for i in reach}
    # -- one cut per cross-part edge
    want = sorted((keys[j], spec["nodes"][j]["name"], o, keys[i], spec["nodes"][i]["name"], iname)
                  for i in reach for iname, j, o in spec["nodes"][i]["inputs"] if keys[i] != keys[j])
    got = sorted((c.source_key, c.source_node, c.source_output, c.dest_key, c.dest_node, c.dest_input) for c in cuts)
    if want != got:
        return ("split-cuts-wrong", f"split_graph: reported cuts {got[:4]!r}... differ from the cross-part edges {want[:4]!r}...")
    for k, m in members.items():
        for o in m:
            if id(o) in orig_ids:
                continue
            if not any(c.name == o.name and ((c.source_key == k and not o.outputs) or (c.dest_key == k and not o.inputs)) for c in cuts):
                return ("split-stray-node", f"split_graph: part {k!r} contains node {o.name!r} that is neither an input node nor a reported cut end")
    # -- sink and source of a cut are found by the cut's name: distinct cut edges need distinct names
    by_name = {}
    for c in cuts:
        f = (c.source_key, c.source_node, c.source_output, c.dest_key, c.dest_node, c.dest_input)
        if by_name.setdefault(c.name, f) != f:
            return ("split-cut-names-collide", f"split_graph: the distinct cut edges {by_name[c.name]!r} and {f!r} are both called {c.name!r}: re-joining by name cannot tell them apart")
    # -- re-join along the reported cuts: a source named like a cut stands for the input of the sink of that name
    cut_names = [c.name for c in cuts]
    if len(set(cut_names)) == len(cut_names):
        sink_of = {}
        for c in cuts:
            cands = [s for s in parts[c.source_key].sinks if s.name == c.name and not s.outputs and len(s.inputs) == 1]
            if len(cands) != 1:
                return ("split-cut-sink-missing", f"split_graph: part {c.source_key!r} has {len(cands)} sinks named {c.name!r} for the reported cut")
            src = next(iter(cands[0].inputs.values()))
            if src.parent.name != c.source_node or src.name != c.source_output:
                return ("split-cut-sink-wrong", f"split_graph: the sink of cut {c.name!r} is fed by {src.parent.name!r}.{src.name!r}, the cut reports {c.source_node!r}.{c.source_output!r}")
            sink_of[c.name] = (c, src)

        def resolve(src):
            p = src.parent
            if not p.inputs and p.name in sink_of and id(p) not in orig_ids and any(o is p for o in members[sink_of[p.name][0].dest_key]):
                return sink_of[p.name][1]
            return src
        memo = {}
        for i, s in enumerate(orig_sinks):
            home = parts.get(keys[spec["sinks"][i]])
            if home is None or not any(x is s for x in home.sinks):
                return ("split-sink-lost", f"split_graph: sink {s.name!r} of the input is not a sink of part {keys[spec['sinks'][i]]!r}")
            if nexpr(s, it, memo, resolve) != before[i]:
                return ("split-rejoin-differs", f"split_graph: re-joined along the reported cuts, sink {s.name!r} denotes something else than in the input")
    return None


# ----------------------------------------------------------------------------- expand
SUBNAMES = ["min", "m", "main", "a", "ai", "n", "in", "mi", "x", "nim", "i", "src", "leaf", "main.min", ".", "ma"]


def pick_parent(rng, nodes):
    c = [j for j in range(len(nodes)) if nodes[j]["outputs"] is None or nodes[j]["outputs"]]
    return rng.choice(c)


def gen_template(rng, nd):
    """a sub-graph for node spec nd: returns {"spec", "imap", "omap"}; sources / sinks are connected to the node's inputs / outputs
    by name (default maps) or through explicit maps"""
    inames = [i for i, _, _ in nd["inputs"]]
    outs = ["0"] if nd["outputs"] is None else list(nd["outputs"])
    use_imap = rng.random() < 0.5
    use_omap = rng.random() < 0.5
    pool = [n for n in SUBNAMES if n not in inames and n not in outs]
    rng.shuffle(pool)
    nodes, imap, omap = [], {}, {}
    # sources
    srcs = []
    for iname in inames:
        if rng.random() < 0.8:
            if use_imap:
                nm = pool.pop()
                imap[nm] = iname
            else:
                nm = iname
            srcs.append(len(nodes))
            nodes.append({"name": nm, "outputs": rng.choice([None, None, ["0", "b"]]), "payload": rng.choice(PAYLOADS), "inputs": []})
    if rng.random() < 0.4 or not nodes:
        srcs.append(len(nodes))
        nodes.append({"name": pool.pop(), "outputs": None, "payload": rng.choice(PAYLOADS), "inputs": []})      # unmapped source
    # processors
    for _ in range(rng.choice([0, 1, 1, 2])):
        k = rng.choice([1, 1, 2])
        ins = []
        for iname in rng.sample(["x", "y", "input", "s", "p"], k):
            j = pick_parent(rng, nodes)
            po = nodes[j]["outputs"]
            ins.append([iname, j, "0" if po is None else rng.choice(po)])
        nodes.append({"name": pool.pop(), "outputs": None, "payload": rng.choice(PAYLOADS), "inputs": ins})
    # leaves: one sink per output of the node (mostly)
    sinks = []
    for o in dict.fromkeys(outs):
        if rng.random() < 0.92:
            if use_omap and rng.random() < 0.8:
                nm = pool.pop()
                omap[o] = nm
            else:
                nm = o
            j = pick_parent(rng, nodes)
            po = nodes[j]["outputs"]
            leaf_outs = [] if rng.random() < 0.85 else None     # sometimes a leaf that keeps an output of its own
            sinks.append(len(nodes))
            nodes.append({"name": nm, "outputs": leaf_outs, "payload": rng.choice(PAYLOADS), "inputs": [[rng.choice(["x", "input", "s"]), j, "0" if po is None else rng.choice(po)]]})
    if rng.random() < 0.4:
        j = pick_parent(rng, nodes)
        po = nodes[j]["outputs"]
        if po is None or po:
            sinks.append(len(nodes))
            nodes.append({"name": pool.pop(), "outputs": [], "payload": rng.choice(PAYLOADS), "inputs": [["input", j, "0" if po is None else rng.choice(po)]]})   # inner sink
    consumed = {j for n2 in nodes for (_, j, _) in n2["inputs"]}
    for i in range(len(nodes)):
        if i not in consumed and i not in sinks:
            sinks.append(i)
    if rng.random() < 0.3:
        rng.shuffle(sinks)
    return {"spec": {"nodes": nodes, "sinks": sinks}, "imap": imap if use_imap else None, "omap": omap if use_omap else None}


def gen_template_maps(rng, nd):
    """a sub-graph for node spec nd whose node names COLLIDE on purpose with the names the maps talk about.
    The input map is None or an explicit (empty / partial / identity / swapping / fan-in / extra-keys) map from a small
    set of candidate names (the node's input names, its output names, a few fresh names) to the node's input names; the
    sub-graph's own sources, processors and sinks draw their names from the same candidates.  So there are sources that
    are named like a node input but are NOT keys of an explicit map (they must stay sources), sources named like the input
    another source is mapped to, two sources fed by one input, maps that swap two input names, keys that name no source
    (or a processor); likewise on the output side: non-injective and swapping output maps, keys that are not outputs,
    inner sinks named like an output that the map sends elsewhere."""
    inames = [i for i, _, _ in nd["inputs"]]
    outs = list(dict.fromkeys(["0"] if nd["outputs"] is None else nd["outputs"]))
    fresh = [n for n in SUBNAMES if n not in inames and n not in outs]
    rng.shuffle(fresh)
    cand = list(dict.fromkeys(inames + [fresh.pop(), fresh.pop()] + (outs[:1] if rng.random() < 0.3 else [])))
    # ---- input map
    ishape = rng.choice(["none", "empty", "partial", "partial", "partial", "identity", "swap", "fan", "random", "random"]) if inames else rng.choice(["none", "empty"])
    imap = {}
    if ishape == "partial":
        for iname in rng.sample(inames, rng.randrange(1, len(inames) + 1) if len(inames) > 1 else 1):
            if rng.random() < 0.8:
                imap[rng.choice([c for c in cand if c not in imap])] = iname
        if len(imap) == len(inames) and len(inames) > 1:
            del imap[rng.choice(list(imap))]
    elif ishape == "identity":
        for iname in inames:
            if rng.random() < 0.6:
                imap[iname] = iname
    elif ishape == "swap":
        if len(inames) >= 2:
            a, b = rng.sample(inames, 2)
            imap[a], imap[b] = b, a
        else:
            imap[cand[-1]] = inames[0]
    elif ishape == "fan":
        a = rng.choice(inames)
        for c in rng.sample(cand, 2):
            imap[c] = a
    elif ishape == "random":
        for c in cand:
            if rng.random() < 0.45:
                imap[c] = rng.choice(inames)
    if ishape != "none" and imap and rng.random() < 0.3:
        items = list(imap.items())
        rng.shuffle(items)
        imap = dict(items)
    # ---- sources: every key of the map mostly has its source; the other candidates (node input names that are not keys,
    #      names of mapped inputs ...) are used for sources of the sub-graph's own
    nodes, used = [], []
    for c in cand:
        p = 0.85 if c in imap else 0.6 if c in inames else 0.35
        if rng.random() < p:
            used.append(c)
    if not used:
        used.append(rng.choice(cand))
    rng.shuffle(used)
    for c in used:
        nodes.append({"name": c, "outputs": rng.choice([None, None, None, ["0", "b"]]), "payload": rng.choice(PAYLOADS), "inputs": []})
    # ---- output map
    ocand = list(dict.fromkeys(outs + [fresh.pop(), fresh.pop()] + (inames[:1] if rng.random() < 0.3 else [])))
    oshape = rng.choice(["none", "none", "empty", "rename", "rename", "swap", "fan", "extra", "random"] if len(outs) < 2 else
                        ["none", "empty", "rename", "swap", "swap", "chain", "chain", "fan", "extra", "random"])
    omap = {}
    if oshape == "chain":                               # output a is sent to the leaf called like output b, b keeps its own
        a, b = rng.sample(outs, 2)
        omap[a] = b
    elif oshape == "rename":
        for o in outs:
            if rng.random() < 0.7:
                omap[o] = rng.choice([c for c in ocand if c not in outs] or ocand)
    elif oshape == "swap":
        if len(outs) >= 2:
            a, b = rng.sample(outs, 2)
            omap[a], omap[b] = b, a
        elif outs:
            omap[outs[0]] = ocand[-1]
    elif oshape == "fan":
        if outs:
            leaf = rng.choice(ocand)
            for o in outs:
                omap[o] = leaf
    elif oshape == "extra":
        omap[ocand[-1]] = rng.choice(ocand)            # a key that is no output of the node
        for o in outs:
            if rng.random() < 0.4:
                omap[o] = rng.choice(ocand)
    elif oshape == "random":
        for o in ocand:
            if rng.random() < 0.5:
                omap[o] = rng.choice(ocand)
    sp_out = {o: (o if oshape == "none" else omap.get(o, o)) for o in outs}
    # ---- processors, some named like a candidate of the input side (a processor called like a node input or a map key)
    taken = set(used)
    for _ in range(rng.choice([0, 1, 1, 2])):
        k = rng.choice([1, 1, 2])
        ins = []
        for iname in rng.sample(["x", "y", "input", "s", "p"], k):
            j = pick_parent(rng, nodes)
            po = nodes[j]["outputs"]
            ins.append([iname, j, "0" if po is None else rng.choice(po)])
        bound = [c for c in (inames if ishape == "none" else list(imap)) if c not in taken]      # names the splicer binds -- for SOURCES only
        free = [c for c in cand if c not in taken]
        nm = rng.choice(bound) if bound and rng.random() < 0.4 else rng.choice(free) if free and rng.random() < 0.15 else fresh.pop()
        taken.add(nm)
        nodes.append({"name": nm, "outputs": None, "payload": rng.choice(PAYLOADS), "inputs": ins})
    # ---- leaves: one per leaf name the outputs are sent to (mostly); inner sinks named like the other candidates
    sinks = []
    for lname in dict.fromkeys(sp_out.values()):
        if rng.random() < 0.92:
            j = pick_parent(rng, nodes)
            po = nodes[j]["outputs"]
            sinks.append(len(nodes))
            nodes.append({"name": lname, "outputs": [] if rng.random() < 0.85 else None, "payload": rng.choice(PAYLOADS),
                          "inputs": [[rng.choice(["x", "input", "s"]), j, "0" if po is None else rng.choice(po)]]})
    hot = {v for k, v in omap.items() if k not in outs} | {o for o in outs if o not in sp_out.values()}      # names a wrong reading of the map would take for leaves
    for c in list(dict.fromkeys(ocand + inames[:1])):
        if c not in sp_out.values() and rng.random() < (0.75 if c in hot else 0.25):
            j = pick_parent(rng, nodes)
            po = nodes[j]["outputs"]
            sinks.append(len(nodes))
            nodes.append({"name": c, "outputs": [], "payload": rng.choice(PAYLOADS), "inputs": [["input", j, "0" if po is None else rng.choice(po)]]})
    consumed = {j for n2 in nodes for (_, j, _) in n2["inputs"]}
    for i in range(len(nodes)):
        if i not in consumed and i not in sinks:
            sinks.append(i)
    if rng.random() < 0.3:
        rng.shuffle(sinks)
    return {"spec": {"nodes": nodes, "sinks": sinks}, "imap": None if ishape == "none" else imap, "omap": None if oshape == "none" else omap}


def template_features(nd, t):
    """which of the name-collision shapes a template shows (for the input-distribution histogram)"""
    inames = [i for i, _, _ in nd["inputs"]]
    outs = ["0"] if nd["outputs"] is None else list(nd["outputs"])
    tn = t["spec"]["nodes"]
    srcs = [x["name"] for x in tn if not x["inputs"]]
    f = set()
    if t["imap"] is not None:
        m = t["imap"]
        if inames and not m:
            f.add("explicit-empty-input-map-on-node-with-inputs")
        if any(s in inames and s not in m for s in srcs):
            f.add("own-source-named-like-node-input-not-in-explicit-map")
        if any(s in m.values() and s not in m for s in srcs):
            f.add("own-source-named-like-a-mapped-input")
        if len(set(m.values())) < len(m) and sum(1 for s in srcs if s in m) >= 2:
            f.add("two-sources-on-one-input")
        if any(k in inames and v != k for k, v in m.items()):
            f.add("input-map-renames-across-input-names")
        if any(k not in srcs for k in m):
            f.add("input-map-key-names-no-source")
    if any(x["inputs"] and x["name"] in inames for x in tn):
        f.add("inner-node-named-like-node-input")
    if t["omap"] is not None:
        m = {o: t["omap"].get(o, o) for o in outs}
        if len(set(m.values())) < len(m):
            f.add("two-outputs-on-one-leaf")
        if any(v in outs and v != o for o, v in m.items()):
            f.add("output-map-renames-across-output-names")
        if any(k not in outs for k in t["omap"]):
            f.add("output-map-key-is-no-output")
        if any(x["name"] in outs and x["name"] not in m.values() for x in tn):
            f.add("sub-node-named-like-output-mapped-elsewhere")
    return f


def gen_rules(rng, spec):
    reach = sorted(reachable(spec))
    names = [spec["nodes"][i]["name"] for i in reach]
    rules = {}
    for i in reach:
        nd = spec["nodes"][i]
        if names.count(nd["name"]) == 1 and rng.random() < 0.45:
            rules[nd["name"]] = gen_template_maps(rng, nd) if rng.random() < 0.55 else gen_template(rng, nd)
    return rules


def rules_to_json(rules):
    return {k: {"spec": spec_to_json(t["spec"]), "imap": t["imap"], "omap": t["omap"]} for k, t in rules.items()}


def rules_from_json(j):
    return {k: {"spec": spec_from_json(t["spec"]), "imap": t["imap"], "omap": t["omap"]} for k, t in j.items()}


def coq_smap(m):
    return "(@None smap)" if m is None else "(Some (" + clist([f"({cstr(a)}, {cstr(b)})" for a, b in m.items()]) + " : smap))"


def coq_rules(rules):
    return "(" + clist([f"({cstr(k)}, ({coq_spec(t['spec'])}, {coq_smap(t['imap'])}, {coq_smap(t['omap'])}))" for k, t in rules.items()]) + " : erules)"


def expected_expansion(spec, rules, it):
    """the oracle's own reading of the property on the specs: what every sink of the expanded graph must denote.
    returns a list of expression ids, or None when the case leaves the property's domain (an output without leaf ...)"""
    nodes = spec["nodes"]
    memo = {}

    class Outside(Exception):
        pass

    def plain(pay, outs, args):
        return it.key((pay_key(pay), tuple(outs), tuple(sorted(args))))

    def node_out(i):
        """-> ("node", expr id, outputs) or ("sub", {lname: (expr id, outputs)}, outmap, inner sinks [expr ids])"""
        if i in memo:
            return memo[i]
        nd = nodes[i]
        outs = ["0"] if nd["outputs"] is None else list(nd["outputs"])
        args = [(iname, out_of(j, o)) for iname, j, o in nd["inputs"]]
        if nd["name"] not in rules:
            r = ("node", plain(nd["payload"], outs, [(a, e, o) for a, (e, o) in args]), outs)
        else:
            t = rules[nd["name"]]
            ins = dict(args)
            if t["imap"] is not None:
                for src, iname in t["imap"].items():
                    if iname not in ins:
                        raise Outside()
                sp_in = {src: ins[iname] for src, iname in t["imap"].items()}
            else:
                sp_in = ins
            sp_out = {o: (o if t["omap"] is None else t["omap"].get(o, o)) for o in outs}
            tn = t["spec"]["nodes"]
            tmemo = {}

            def tnode(k):
                if k in tmemo:
                    return tmemo[k]
                x = tn[k]
                xo = ["0"] if x["outputs"] is None else list(x["outputs"])
                if not x["inputs"]:
                    if x["name"] in sp_in:
                        e, o = sp_in[x["name"]]
                        v = (plain(x["payload"], xo, [("input", e, o)]), xo)
                    else:
                        v = (plain(x["payload"], xo, []), xo)
                else:
                    xa = []
                    for iname, j, o in x["inputs"]:
                        pe, po = tnode(j)
                        if o not in po:
                            raise Outside()
                        xa.append((iname, pe, o))
                    if not xo and x["name"] in sp_out.values():
                        xo = ["0"]
                    v = (plain(x["payload"], xo, xa), xo)
                tmemo[k] = v
                return v
            leaves, inner = {}, []
            for k in t["spec"]["sinks"]:
                if tn[k]["name"] in sp_out.values():
                    leaves[tn[k]["name"]] = tnode(k)
                else:
                    inner.append(tnode(k)[0])
            r = ("sub", leaves, sp_out, inner)
        memo[i] = r
        return r

    def out_of(j, o):
        r = node_out(j)
        if r[0] == "node":
            if o not in r[2]:
                raise Outside()
            return (r[1], o)
        _, leaves, sp_out, _ = r
        if o not in sp_out or sp_out[o] not in leaves:
            raise Outside()
        e, louts = leaves[sp_out[o]]
        if "0" not in louts:
            raise Outside()
        return (e, "0")

    try:
        res = []
        for s in spec["sinks"]:
            r = node_out(s)
            if r[0] == "node":
                res.append(r[1])
            else:
                res.extend(r[3])
                for lname, (e, _) in r[1].items():      # an expanded sink ends in its leaves
                    res.append(e)
        return res
    except Outside:
        return None


def drive_expand(spec, rng, out):
    rules = gen_rules(rng, spec)
    out["params"] = {"rules": rules_to_json(rules)}
    return run_expand(spec, rules, out)


def run_expand(spec, rules, out):
    from earthkit.workflows.graph import Graph, expand_graph
    g, _ = build_spec(spec)
    it = Interner()

    def expander(n):
        t = rules.get(n.name)
        if t is None:
            return None
        sg, _ = build_spec(t["spec"])
        if t["imap"] is None and t["omap"] is None:
            return sg
        return sg, (None if t["imap"] is None else dict(t["imap"])), (None if t["omap"] is None else dict(t["omap"]))
    want = expected_expansion(spec, rules, it)
    g2, obs, exc = observed(lambda: expand_graph(expander, g))
    if exc and exc.startswith("not-a-graph"):
        obs = f"o_err {cstr('model:tuple-input')}"
    out["coq"].append(("expand", f"({coq_rules(rules)}, {coq_spec(spec)}, {obs})"))
    if want is None:
        out["outside"] = True
        return None
    if exc:
        return ("expand-raises-" + exc, f"expand_graph raised {exc}")
    if not isinstance(g2, Graph):
        return ("expand-result-not-a-graph", f"result is {type(g2).__name__}")
    try:
        got = snapshot(g2, it)
    except Exception as e:
        return ("expand-result-not-a-graph", f"expand_graph: result graph cannot be evaluated ({type(e).__name__}: {e})"[:300])
    if sorted(set(got)) != sorted(set(want)) and set(want) - set(got):
        missing = len(set(want) - set(got))
        return ("expand-loses-sink", f"expand_graph: {missing} expression(s) that sinks of the input denote (expanded nodes replaced by their sub-graphs) are denoted by no sink of the result")
    if list(dict.fromkeys(got)) != list(dict.fromkeys(want)):      # (a leaf that already is a sink is not listed twice)
        return ("expand-changes-denotation", "expand_graph: the sinks of the result do not denote what the sinks of the input denote with expanded nodes replaced by their sub-graphs")
    return None


# ----------------------------------------------------------------------------- fuse
FFUNS = ["FAlways", "FAlways", "FPayload", "FNever", "FAlways", "FPayload", "FKeep"]
# which OBJECT carries the fused node: a new Node (the test-suite's way), the child object itself written in place and returned,
# or one or the other from call to call.  fuse_nodes promises the same for all of them ("if func returns a node, use it")
FMODES = ["MNew", "MSame", "MMix", "MSame", "MNew", "MMix"]


def enc_pay(p):
    return ("N",) if p is None else p


def make_callback(ff, log, mode="MNew"):
    from earthkit.workflows.graph import Node

    def inline(parent, pout, cur, cin):
        pre = cin + "/"
        others = {k: v for k, v in cur.inputs.items() if k != cin}
        if any(k.startswith(pre) for k in others):
            return None
        ins = dict(others)
        for k, v in parent.inputs.items():
            ins[pre + k] = v
        name = parent.name + "+" + cur.name
        pay = ("F", enc_pay(parent.payload), [o for o in parent.outputs], pout, enc_pay(cur.payload), cin)
        if mode == "MSame" or (mode == "MMix" and len(cur.name) % 2 == 0):
            # absorb the parent into the child IN PLACE: the object handed in as `current` is the fused node
            cur.name, cur.payload, cur.inputs = name, pay, ins
            return cur
        return Node(name, list(cur.outputs), pay, **ins)

    def cb(parent, pout, cur, cin):
        log.append((parent.name, pout, cur.name, cin))
        if ff == "FNever":
            return None
        if ff == "FKeep":
            return cur          # "fused": the child as it is
        if ff == "FPayload" and parent.payload is None:
            return None
        return inline(parent, pout, cur, cin)
    return cb


def fexpr(node, it, memo):
    """expression of a node, fused nodes read as the child with the parent inlined"""
    if id(node) in memo:
        return memo[id(node)]
    args = {iname: (fexpr(src.parent, it, memo), src.name) for iname, src in node.inputs.items()}
    k = fev(node.payload, list(node.outputs), args, it)
    memo[id(node)] = k
    return k


def fev(pay, outs, args, it):
    if isinstance(pay, tuple) and len(pay) == 6 and pay[0] == "F":
        _, pp, pouts, pout, cp, cin = pay
        pre = cin + "/"
        pargs = {k[len(pre):]: v for k, v in args.items() if k.startswith(pre)}
        cargs = {k: v for k, v in args.items() if not k.startswith(pre)}
        cargs[cin] = (fev(None if pp == ("N",) else pp, list(pouts), pargs, it), pout)
        return fev(None if cp == ("N",) else cp, outs, cargs, it)
    return it.key((pay_key(pay), tuple(outs), tuple(sorted((k, e, o) for k, (e, o) in args.items()))))


def drive_fuse(spec, rng, out):
    ff = rng.choice(FFUNS)
    mode = rng.choice(FMODES)
    out["params"] = {"ffun": ff, "mode": mode}
    return run_fuse(spec, ff, out, mode)


def run_fuse(spec, ff, out, mode="MNew"):
    from earthkit.workflows.graph import Graph, fuse_nodes
    g, _ = build_spec(spec)
    it = Interner()
    memo = {}
    before = [fexpr(s, it, memo) for s in g.sinks]
    log = []
    g2, obs, exc = observed(lambda: fuse_nodes(make_callback(ff, log, mode), g))
    calls = "(" + clist([f"({cstr(a)}, {cstr(b)}, {cstr(c)}, {cstr(d)})" for a, b, c, d in log]) + " : list (string * string * string * string))"
    out["coq"].append(("fuse", f"({ff}, {mode}, {coq_spec(spec)}, {obs}, {calls})"))
    if exc:
        return ("fuse-raises-" + exc, f"fuse_nodes raised {exc}")
    if not isinstance(g2, Graph) or len(g2.sinks) != len(before):
        return ("fuse-changes-sinks", "fuse_nodes: result is not a graph with one sink per input sink")
    memo = {}
    for i, s in enumerate(g2.sinks):
        if fexpr(s, it, memo) != before[i]:
            return ("fuse-changes-denotation", f"fuse_nodes: sink {i} ({s.name!r}) of the result, fused nodes read as child-with-parent-inlined, denotes something else than sink {i} of the input")
    # candidates are offered only for parents with a single consumer edge
    users = {}
    for i in reachable(spec):
        for _, j, _ in spec["nodes"][i]["inputs"]:
            users[j] = users.get(j, 0) + 1
    shared = {spec["nodes"][j]["name"] for j, c in users.items() if c > 1}
    names = [spec["nodes"][i]["name"] for i in reachable(spec)]
    if len(set(names)) == len(names):
        for pname, _, cname, _ in log:
            if pname in shared:
                return ("fuse-offers-shared-parent", f"fuse_nodes: the callback was offered parent {pname!r}, which has more than one consumer")
    return None


# ----------------------------------------------------------------------------- sessions: programs over Graph objects
# Several operations in ONE process on graphs that live on: Graph.empty(), +, +=, join_namespaced, and the transformers applied to
# graphs made by earlier operations (results of joins, renamed / fused / de-duplicated nodes, graphs sharing node objects).  After
# EVERY operation every graph object created so far is read again: the graph the operation returned must denote what the property
# says (join: the sinks of its arguments, in keyword order; + : a's then b's; += : a's then b's, in a; empty: none; copy / rename /
# fuse: sink by sink; dedup: the same set), and every OTHER graph -- arguments included: the transformers write nodes in place, but
# never change what they denote -- must denote what it denoted.
NAMESPACES = ["a", "b", "main", "a.b", "", "ns", "m", "0", "x.", " "]
SESSION_FLAVOURS = ["plain", "chain", "dups", "wide", "plain", "chain"]


def gen_session(rng, flavour="plain", maxn=8, maxops=9):
    pool = gen_spec(rng, flavour, maxn=maxn)
    n = len(pool["nodes"])
    ops, nv = [], 0

    def pick_sinks():
        k = rng.choice([1, 1, 2, 2, 3])
        if rng.random() < 0.5:
            consumed = {j for nd in pool["nodes"] for (_, j, _) in nd["inputs"]}
            term = [i for i in range(n) if i not in consumed]
            return rng.sample(term, min(k, len(term)))
        return [rng.randrange(n) for _ in range(k)]
    for _ in range(rng.choice([1, 2, 2, 3])):
        ops.append(["new", pick_sinks()])
        nv += 1
    last_empty = None
    for _ in range(rng.randrange(3, maxops + 1)):
        r = rng.random()
        if last_empty is not None and r < 0.7:
            ops.append(["iadd", last_empty, rng.randrange(nv)])       # e = Graph.empty(); e += g
            last_empty = None
            continue
        if r < 0.30:
            k = rng.choice([1, 1, 2, 2, 3])
            nss = rng.sample(NAMESPACES, k)
            ops.append(["join", [[ns, rng.randrange(nv)] for ns in nss]])
            nv += 1
        elif r < 0.40:
            ops.append(["add", rng.randrange(nv), rng.randrange(nv)])
            nv += 1
        elif r < 0.50:
            ops.append(["iadd", rng.randrange(nv), rng.randrange(nv)])
        elif r < 0.62:
            ops.append(["empty"])
            last_empty = nv
            nv += 1
        elif r < 0.68:
            ops.append(["copy", rng.randrange(nv)])
            nv += 1
        elif r < 0.74:
            ops.append(["rename", rng.randrange(nv), list(rng.choice(RFUNS))])
            nv += 1
        elif r < 0.81:
            ops.append(["dedup", rng.randrange(nv)])
            nv += 1
        elif r < 0.90:
            ops.append(["fuse", rng.randrange(nv), rng.choice(FFUNS), rng.choice(FMODES)])
            nv += 1
        elif r < 0.95:
            ops.append(["new", pick_sinks()])
            nv += 1
        else:
            ops.append(["newspec", spec_to_json(gen_spec(rng, "chain", maxn=4))])
            nv += 1
    return {"pool": spec_to_json(pool), "ops": ops}


def reach_ids(g):
    return {id(o) for o in topo_objects(g.sinks)}


def run_session(prog, out):
    from earthkit.workflows.graph import Graph, copy_graph, deduplicate_nodes, fuse_nodes, join_namespaced, rename_nodes
    pool = spec_from_json(prog["pool"])
    _, objs = build_spec({"nodes": pool["nodes"], "sinks": []})
    it = Interner()
    ids, keep = {}, []

    def nid(o):
        if id(o) not in ids:
            ids[id(o)] = len(ids)
            keep.append(o)          # (alive to the end: identities are not re-used)
        return ids[id(o)]
    for o in objs:
        nid(o)
    graphs, exp, steps = [], [], []

    def denots(g):
        memo = {}
        return [fexpr(s, it, memo) for s in g.sinks]

    def recheck(kind, new, target=None):
        for v, g in enumerate(graphs):
            try:
                got = denots(g)
            except Exception as e:
                return (f"session-{kind}-graph-unreadable", f"after {kind}: graph #{v} cannot be evaluated ({type(e).__name__}: {e})"[:300])
            if got != exp[v]:
                if v == new:
                    return (f"session-{kind}-result-differs", f"{kind}: the sinks of the returned graph (#{v}: {len(got)} sinks) do not denote what the property says ({len(exp[v])} sinks expected)")
                if v == target:
                    return (f"session-{kind}-target-differs", f"{kind}: graph #{v} has {len(got)} sinks afterwards, expected its own followed by the other's ({len(exp[v])})")
                return (f"session-{kind}-changes-other-graph",
                        f"{kind} changed what graph #{v}, made by an earlier operation and not written by this one, denotes ({len(exp[v])} sinks before, {len(got)} now)")
        return None

    def term_ids(l):
        return clist([cnat(i) for i in l])
    def real(fn):
        """only the calls into the implementation are guarded"""
        try:
            return fn(), None
        except Exception as e:
            return None, e

    for op in prog["ops"]:
        kind = op[0]
        new = target = None
        err = None
        if kind in ("new", "newspec"):
            if kind == "new":
                g, err = real(lambda: Graph([objs[i] for i in op[1]]))
            else:
                g, err = real(lambda: build_spec(spec_from_json(op[1]))[0])
            if not err:
                graphs.append(g)
                exp.append(denots(g))
                new = len(graphs) - 1
                term = f"(GNew {term_ids([nid(s) for s in g.sinks])})"
        elif kind == "empty":
            g, err = real(Graph.empty)
            if not err:
                graphs.append(g)
                exp.append([])
                new = len(graphs) - 1
                term = "GEmpty"
        elif kind == "add":
            a, b = op[1], op[2]
            want = exp[a] + exp[b]
            g, err = real(lambda: graphs[a] + graphs[b])
            if not err:
                graphs.append(g)
                exp.append(want)
                new = len(graphs) - 1
                term = f"(GAdd {cnat(a)} {cnat(b)})"
        elif kind == "iadd":
            a, b = op[1], op[2]
            want = exp[a] + exp[b]

            def iadd():
                g = graphs[a]
                g += graphs[b]
                return g
            g, err = real(iadd)
            if not err:
                if g is not graphs[a]:
                    return ("session-iadd-rebinds", "g += h returned another object"), steps
                exp[a] = want
                target = a
                term = f"(GIAdd {cnat(a)} {cnat(b)})"
        elif kind == "join":
            pairs = op[1]
            args = {ns: graphs[a] for ns, a in pairs}
            lens = [len(graphs[a].sinks) for _, a in pairs]
            reach = [reach_ids(graphs[a]) for _, a in pairs]
            disjoint = sum(len(r) for r in reach) == len(set().union(*reach))
            pre = [coq_graph(graphs[a]) for _, a in pairs] if disjoint else None
            want = [e for _, a in pairs for e in exp[a]]
            g, err = real(lambda: join_namespaced(**args))
            if not err and not isinstance(g, Graph):
                return ("session-join-result-not-a-graph", f"result is {type(g).__name__}"), steps
            if not err:
                graphs.append(g)
                exp.append(want)
                new = len(graphs) - 1
                got_ids = [nid(s) for s in g.sinks]
                parts, k = [], 0
                for (_, a), n_ in zip(pairs, lens):
                    parts.append(f"({cnat(a)}, {term_ids(got_ids[k:k + n_])})")
                    k += n_
                if k != len(got_ids):
                    parts[-1] = f"({cnat(pairs[-1][1])}, {term_ids(got_ids[k - lens[-1]:])})"
                term = f"(GJoin {clist(parts)})"
                if pre is not None and k == len(got_ids):
                    # node level: each argument renamed with its namespace (Graph/Rename.v), argument by argument
                    k = 0
                    for (ns, a), n_, gt in zip(pairs, lens, pre):
                        part = Graph(g.sinks[k:k + n_])
                        k += n_
                        try:
                            out["coq"].append(("rename", f"(RPrefix {cstr(ns + '.')}, {gt}, o_ok {coq_graph(part)})"))
                        except Exception:
                            pass            # (the oracle below reports a result that is not a graph)
        elif kind in ("copy", "rename", "dedup", "fuse"):
            a = op[1]
            gt = coq_graph(graphs[a])
            if kind == "copy":
                g, obs, exc = observed(lambda: copy_graph(graphs[a]))
                out["coq"].append(("copy", f"({gt}, {obs})"))
            elif kind == "rename":
                rf = tuple(op[2])
                g, obs, exc = observed(lambda: rename_nodes(rfun_py(rf), graphs[a]))
                out["coq"].append(("rename", f"({rfun_coq(rf)}, {gt}, {obs})"))
            elif kind == "dedup":
                g, obs, exc = observed(lambda: deduplicate_nodes(graphs[a]))
                out["coq"].append(("dedup", f"({gt}, {obs})"))
            else:
                log = []
                g, obs, exc = observed(lambda: fuse_nodes(make_callback(op[2], log, op[3]), graphs[a]))
                calls = "(" + clist([f"({cstr(x)}, {cstr(y)}, {cstr(z)}, {cstr(w)})" for x, y, z, w in log]) + " : list (string * string * string * string))"
                out["coq"].append(("fuse", f"({op[2]}, {op[3]}, {gt}, {obs}, {calls})"))
            if exc:
                return (f"session-{kind}-raises-{exc}", f"{kind} of a graph made by earlier operations raised {exc}"), steps
            if not isinstance(g, Graph):
                return (f"session-{kind}-result-not-a-graph", f"result is {type(g).__name__}"), steps
            if kind == "dedup":
                got = denots(g)
                if set(got) != set(exp[a]):
                    return ("session-dedup-result-differs", "deduplicate_nodes of a graph made by earlier operations: the sinks of the result do not denote the same set of expressions"), steps
                exp.append(got)
            else:
                exp.append(list(exp[a]))
            graphs.append(g)
            new = len(graphs) - 1
            term = f"(GTrans {cnat(a)} {cbool(kind != 'dedup')} {term_ids([nid(s) for s in g.sinks])})"
        else:
            raise ValueError(kind)
        if err:
            return (f"session-{kind}-raises-{type(err).__name__}", f"{kind} raised {type(err).__name__}: {err}"[:300]), steps
        steps.append(f"({term}, {clist([term_ids([nid(s) for s in g2.sinks]) for g2 in graphs])})")
        bad = recheck(kind, new, target)
        if bad:
            return bad, steps
    return None, steps


def session_features(prog, res):
    kinds = [op[0] for op in prog["ops"]]
    res.count(f"session:ops:{min(len(kinds), 12)}")
    if kinds.count("join") >= 2:
        res.count("session:two-or-more-joins")
    if kinds.count("empty") >= 2:
        res.count("session:two-or-more-empty")
    if "iadd" in kinds:
        res.count("session:in-place-add")
    if any(k in kinds for k in ("dedup", "fuse", "rename", "copy")):
        res.count("session:transformer-on-earlier-result")
    for k in set(kinds):
        res.count("session:has-" + k)


DRIVERS = {"copy": drive_copy, "rename": drive_rename, "dedup": drive_dedup, "split": drive_split, "expand": drive_expand, "fuse": drive_fuse}
REPLAYERS = {"copy": lambda spec, params, out: drive_copy(spec, None, out),
             "rename": lambda spec, params, out: run_rename(spec, tuple(params["rfun"]), out),
             "dedup": lambda spec, params, out: drive_dedup(spec, None, out),
             "split": lambda spec, params, out: run_split(spec, tuple(params["kfun"]), out),
             "expand": lambda spec, params, out: run_expand(spec, rules_from_json(params["rules"]), out),
             "fuse": lambda spec, params, out: run_fuse(spec, params["ffun"], out, params.get("mode", "MNew"))}
CHECKERS = {"copy": "check_copy", "rename": "check_rename", "dedup": "check_dedup", "split": "check_split", "expand": "check_expand", "fuse": "check_fuse",
            "session": "check_session"}
CASE_TYPES = {"session": "list (gop * list (list nat))"}
FLAVOURS = {"copy": ["plain", "plain", "wide", "chain", "dup-names"],
            "rename": ["plain", "plain", "wide", "chain", "dup-names"],
            "dedup": ["dups", "dups", "plain", "dups", "chain", "dup-names", "tiny"],
            "split": ["plain", "tiny", "chain", "wide", "tiny", "chain", "plain", "dup-names"],
            "expand": ["plain", "plain", "wide", "chain"],
            "fuse": ["plain", "chain", "wide", "chain", "plain"]}


def _n(name, outputs=None, payload=None, inputs=()):
    return {"name": name, "outputs": outputs, "payload": payload, "inputs": [list(i) for i in inputs]}


WITNESSES = [
    # 5f2bc4c: an output called "payload" / "name" resolved to the attribute instead of the Output
    ("copy", {"nodes": [_n("a", ["payload", "name"], {"i": 7}), _n("b", [], None, [("inp", 0, "payload"), ("x", 0, "name")])], "sinks": [1]}, {}),
    ("rename", {"nodes": [_n("a", ["inputs", "copy"], {"i": 7}), _n("b", [], None, [("inp", 0, "inputs"), ("x", 0, "copy")])], "sinks": [1]}, {"rfun": ["RPrefix", "ns."]}),
    # c784dd1: an input called like the callback's own parameter raised TypeError
    ("copy", {"nodes": [_n("a"), _n("b", [], None, [("node", 0, "0")])], "sinks": [1]}, {}),
    ("rename", {"nodes": [_n("a"), _n("b", [], None, [("n", 0, "0")])], "sinks": [1]}, {"rfun": ["RSuffix", ".0"]}),
    ("split", {"nodes": [_n("a"), _n("b", [], None, [("node", 0, "0")])], "sinks": [1]}, {"kfun": ["KName", None]}),
    # 96f2ca8: leaf "min" under parent "main": lstrip("main.") stripped the whole name
    ("expand", {"nodes": [_n("main", None, {"s": "M"}), _n("cons", [], None, [("i", 0, "0")])], "sinks": [1]},
     {"rules": {"main": {"imap": None, "omap": {"0": "min"},
                         "spec": {"nodes": [_n("src"), _n("min", [], {"s": "leaf"}, [("x", 0, "0")])], "sinks": [1]}}}}),
    # b145629: an expanded terminal node with an output vanished from the result
    ("expand", {"nodes": [_n("r"), _n("last", None, {"i": 1}, [("x", 0, "0")])], "sinks": [1]},
     {"rules": {"last": {"imap": None, "omap": None,
                         "spec": {"nodes": [_n("x", None, {"i": 2}), _n("0", [], {"i": 3}, [("input", 0, "0")])], "sinks": [1]}}}}),
]

# hand-written instances of map shapes the property quantifies over ("every ... input-map/output-map"), kept as fixed cases
SHAPES = [
    # explicit PARTIAL input map; the sub-graph's own constant source is called like the node input the map does not mention
    ("expand", {"nodes": [_n("cam", None, {"s": "cam"}), _n("sky", None, {"s": "sky"}), _n("blend", None, {"s": "B"}, [("fg", 0, "0"), ("bg", 1, "0")]),
                          _n("out", [], {"s": "w"}, [("input", 2, "0")])], "sinks": [3]},
     {"rules": {"blend": {"imap": {"pix": "fg"}, "omap": {"0": "res"},
                          "spec": {"nodes": [_n("pix", None, {"s": "unpack"}), _n("bg", None, {"s": "const"}), _n("mix", None, {"s": "mix"}, [("x", 0, "0"), ("y", 1, "0")]),
                                             _n("res", [], {"s": "pack"}, [("input", 2, "0")])], "sinks": [3]}}}}),
    # explicit EMPTY input map on a node with an input: nothing is bound, although a source is called like the input
    ("expand", {"nodes": [_n("cam", None, {"s": "cam"}), _n("tone", None, {"s": "T"}, [("fg", 0, "0")]), _n("out", [], {"s": "w"}, [("input", 1, "0")])], "sinks": [2]},
     {"rules": {"tone": {"imap": {}, "omap": None,
                         "spec": {"nodes": [_n("fg", None, {"s": "curve"}), _n("0", [], {"s": "apply"}, [("x", 0, "0")])], "sinks": [1]}}}}),
    # the map swaps the two input names; two sources on one input; a source called like the input the other one is mapped to
    ("expand", {"nodes": [_n("p", None, {"i": 1}), _n("q", None, {"i": 2}), _n("sub", None, {"s": "S"}, [("a", 0, "0"), ("b", 1, "0")]), _n("w", [], None, [("input", 2, "0")])], "sinks": [3]},
     {"rules": {"sub": {"imap": {"a": "b", "b": "a"}, "omap": None,
                        "spec": {"nodes": [_n("a", None, {"s": "sa"}), _n("b", None, {"s": "sb"}), _n("0", [], {"s": "minus"}, [("x", 0, "0"), ("y", 1, "0")])], "sinks": [2]}}}}),
    ("expand", {"nodes": [_n("p", None, {"i": 1}), _n("q", None, {"i": 2}), _n("sub", None, {"s": "S"}, [("a", 0, "0"), ("b", 1, "0")]), _n("w", [], None, [("input", 2, "0")])], "sinks": [3]},
     {"rules": {"sub": {"imap": {"u": "a", "v": "a"}, "omap": None,
                        "spec": {"nodes": [_n("u", None, {"s": "su"}), _n("v", None, {"s": "sv"}), _n("a", None, {"s": "own"}),
                                           _n("0", [], {"s": "f"}, [("x", 0, "0"), ("y", 1, "0"), ("s", 2, "0")])], "sinks": [3]}}}}),
    # output side: a swapping output map; a key that is no output whose value names an inner sink; an inner sink called like an output sent elsewhere
    ("expand", {"nodes": [_n("r", None, {"i": 1}), _n("two", ["a", "b"], {"s": "T"}, [("x", 0, "0")]), _n("w", [], None, [("l", 1, "a"), ("r", 1, "b")])], "sinks": [2]},
     {"rules": {"two": {"imap": None, "omap": {"a": "b", "b": "a"},
                        "spec": {"nodes": [_n("x", None, {"s": "in"}), _n("a", [], {"s": "la"}, [("input", 0, "0")]), _n("b", [], {"s": "lb"}, [("input", 0, "0")])], "sinks": [1, 2]}}}}),
    ("expand", {"nodes": [_n("r", None, {"i": 1}), _n("two", ["a", "b"], {"s": "T"}, [("x", 0, "0")]), _n("w", [], None, [("l", 1, "a"), ("r", 1, "b")])], "sinks": [2, 1]},
     {"rules": {"two": {"imap": None, "omap": {"a": "L", "zz": "dump", "b": "L"},
                        "spec": {"nodes": [_n("x", None, {"s": "in"}), _n("L", [], {"s": "leaf"}, [("input", 0, "0")]), _n("dump", [], {"s": "d"}, [("input", 0, "0")]),
                                           _n("a", [], {"s": "inner"}, [("input", 0, "0")])], "sinks": [1, 2, 3]}}}}),
]


_CH = {"nodes": [_n("reader", None, {"s": "r"}), _n("step", None, {"s": "s"}, [("input", 0, "0")]), _n("writer", [], {"s": "w"}, [("input", 1, "0")]),
                 _n("r2", None, {"i": 1}), _n("w2", [], {"i": 2}, [("x", 3, "0")]), _n("w3", [], None, [("y", 3, "0"), ("x", 1, "0")])], "sinks": []}
# hand-written programs (kept as fixed cases): the same call made twice in one process, empty graphs extended in place, a graph
# fused in place and then copied / de-duplicated / joined
SESSIONS = [
    {"pool": _CH, "ops": [["new", [2]], ["new", [4]], ["join", [["a", 0], ["b", 1]]], ["new", [5]], ["join", [["c", 3]]], ["join", [["a", 0]]]]},
    {"pool": _CH, "ops": [["new", [2]], ["new", [4, 5]], ["empty"], ["iadd", 2, 0], ["empty"], ["iadd", 3, 1], ["empty"], ["add", 2, 3], ["iadd", 0, 0], ["iadd", 4, 5]]},
    {"pool": _CH, "ops": [["new", [2, 5]], ["fuse", 0, "FAlways", "MSame"], ["copy", 1], ["dedup", 2], ["join", [["", 3], ["a.b", 0]]], ["fuse", 4, "FPayload", "MMix"],
                          ["rename", 5, ["RConst", "same"]]]},
]


def nontrivial(spec):
    reach = reachable(spec)
    return len(reach) >= 3 and any(spec["nodes"][i]["inputs"] for i in reach)


def reachable(spec):
    seen, todo = set(), list(spec["sinks"])
    while todo:
        i = todo.pop()
        if i in seen:
            continue
        seen.add(i)
        todo.extend(j for _, j, _ in spec["nodes"][i]["inputs"])
    return seen


def features(spec, res, tr):
    reach = reachable(spec)
    nodes = [spec["nodes"][i] for i in reach]
    res.count(f"{tr}:nodes:{min(len(reach), 9)}{'+' if len(reach) >= 9 else ''}")
    if any(len(nd["outputs"] or ["0"]) > 1 for nd in nodes):
        res.count(f"{tr}:has-multi-output-node")
    if len(spec["sinks"]) > 1:
        res.count(f"{tr}:several-sinks")
    users = {}
    for i in reach:
        for _, j, _ in spec["nodes"][i]["inputs"]:
            users[j] = users.get(j, 0) + 1
    if any(v > 1 for v in users.values()):
        res.count(f"{tr}:shared-sub-expression")
    if any(o in ONAMES_ATTR for nd in nodes for o in (nd["outputs"] or [])):
        res.count(f"{tr}:output-named-like-attribute")
    if any(i in ("node", "n", "s", "p") for nd in nodes for i, _, _ in nd["inputs"]):
        res.count(f"{tr}:input-named-like-callback-parameter")
    names = [nd["name"] for nd in nodes]
    if any(a != b and b.startswith(a) for a in names for b in names):
        res.count(f"{tr}:name-is-prefix-of-another")


def run(ctx, res):
    import warnings
    warnings.simplefilter("ignore")
    res.rule = ("generated Node graphs (1..12 nodes; shared sub-expressions, multi-output nodes, several/duplicated sinks; node names sharing characters and prefixes "
                "('main','min','main.min','m',...), output names partly real Node attributes, input names partly callback parameter names) run through each real "
                "transformation; expanders return sub-graphs with no / explicit input and output maps (empty, partial, identity, swapping, several sources on one "
                "input, several outputs on one leaf, keys naming no source / no output) whose node names collide with the node's input and output names and with the "
                "map keys and values (histogram expand:*); fusion callbacks answering with a new node / the child object written in place / a mix / the child as it is; "
                "sessions = programs of 4-12 operations (empty, +, +=, join_namespaced, copy, rename, dedup, fuse) on graphs that live on and share nodes (histogram session:*). "
                "non-trivial = at least 3 reachable nodes and 1 edge (sessions: at least 4 operations); distinct = distinct (transformation, spec, parameters) / distinct program")
    cases = {tr: [] for tr in DRIVERS}
    metas = {tr: [] for tr in DRIVERS}
    per = ctx.n(100, 1500)
    for tr, drive in DRIVERS.items():
        rng = ctx.sub_rng("gen-" + tr)
        for i in range(per + (ctx.n(30, 450) if tr == "expand" else 0)):      # expand has the largest parameter space (sub-graph x two maps)
            flavour = FLAVOURS[tr][i % len(FLAVOURS[tr])]
            spec = gen_spec(rng, flavour)
            out = {"coq": [], "params": {}, "flavour": flavour}
            case = {"kind": "spec", "transformation": tr, "flavour": flavour}
            bad = drive(spec, rng, out)       # (a driver may replace the spec by a more adversarial one of the same flavour)
            case["spec"] = spec_to_json(spec)
            case["params"] = out["params"]
            res.evaluations += 1
            features(spec, res, tr)
            if tr == "expand":
                byname = {nd["name"]: nd for nd in spec["nodes"]}
                rules = rules_from_json(out["params"]["rules"])
                for f in sorted(set().union(*[template_features(byname[k], t) for k, t in rules.items()])) if rules else []:
                    res.count("expand:" + f)
                res.count("expand:outside-domain" if out.get("outside") else "expand:inside-domain")
            if tr == "split":
                res.count("split:key:" + out["params"]["kfun"][0])
                for f in sorted(out.get("stats", ())):
                    res.count("split:" + f)
            if tr == "fuse":
                res.count("fuse:callback:" + out["params"]["ffun"] + "/" + out["params"]["mode"])
            res.count("flavour:" + flavour)
            if nontrivial(spec):
                res.nontrivial_keys.add(json.dumps(case, sort_keys=True))
            for kind, term in out["coq"]:
                cases[kind].append(term)
                metas[kind].append(case)
            if bad:
                res.fail(bad[0], bad[1], case)
            if len(res.samples) < 4 and i == 3:
                res.samples.append({"transformation": tr, "spec": spec_to_json(spec), "params": out["params"], "oracle": bad[1] if bad else "ok"})
    # programs over Graph objects: several operations in one process on graphs that live on
    cases["session"], metas["session"] = [], []
    srng = ctx.sub_rng("gen-session")
    progs = [("hand-written", p) for p in SESSIONS]
    for i in range(ctx.n(100, 1500)):
        flavour = SESSION_FLAVOURS[i % len(SESSION_FLAVOURS)]
        progs.append((flavour, gen_session(srng, flavour)))
    for k, (flavour, prog) in enumerate(progs):
        out = {"coq": []}
        case = {"kind": "session", "flavour": flavour, "prog": prog}
        bad, steps = run_session(prog, out)
        res.evaluations += 1
        res.count("flavour:session-" + flavour)
        session_features(prog, res)
        if len(prog["ops"]) >= 4:
            res.nontrivial_keys.add(json.dumps(case, sort_keys=True))
        cases["session"].append(clist(steps))
        metas["session"].append(case)
        if k % 2 == 0 or bad:       # node-level correspondence of the transformer calls inside sessions: every other session (cost)
            for kind, term in out["coq"]:
                cases[kind].append(term)
                metas[kind].append(case)
        if bad:
            res.fail(bad[0], bad[1], case)
        if flavour == "plain" and sum(1 for x in res.samples if x.get("transformation") == "session") < 1:
            res.samples.append({"transformation": "session", "prog": prog, "oracle": bad[1] if bad else "ok"})
    # the witnesses of the defects repaired by the fix: commits, kept as fixed regression cases
    for tr, spec_j, params in WITNESSES:
        out = {"coq": [], "params": params}
        case = {"kind": "spec", "transformation": tr, "flavour": "witness", "spec": spec_j, "params": params}
        bad = REPLAYERS[tr](spec_from_json(spec_j), params, out)
        res.evaluations += 1
        res.count("flavour:witness-of-fixed-defect")
        for kind, term in out["coq"]:
            cases[kind].append(term)
            metas[kind].append(case)
        if bad:
            res.fail(bad[0], bad[1], case)
    for tr, spec_j, params in SHAPES:
        out = {"coq": [], "params": params}
        case = {"kind": "spec", "transformation": tr, "flavour": "shape", "spec": spec_j, "params": params}
        bad = REPLAYERS[tr](spec_from_json(spec_j), params, out)
        res.evaluations += 1
        res.count("flavour:hand-written-map-shape")
        res.nontrivial_keys.add(json.dumps(case, sort_keys=True))
        if out.get("outside"):
            res.disagree("a hand-written map shape is read as outside the property's domain by the oracle", case)
        for kind, term in out["coq"]:
            cases[kind].append(term)
            metas[kind].append(case)
        if bad:
            res.fail(bad[0], bad[1], case)
    from concurrent.futures import ThreadPoolExecutor
    kinds = [k for k, terms in cases.items() if terms]
    with ThreadPoolExecutor(max_workers=ctx.n(6, 2)) as ex:
        outs = list(ex.map(lambda k: coq_results("C11", HEADER, cases[k], CHECKERS[k], shard=ctx.n(30, 60), tag=k, case_type=CASE_TYPES.get(k)), kinds))
    for kind, (r, logs) in zip(kinds, outs):
        res.corr_checked += len(r)
        res.count("coq-cases:" + kind, len(r))
        for ok, meta in zip(r, metas[kind]):
            if ok is not True:
                res.disagree(f"Coq model of {kind} disagrees with the implementation" + ("" if ok is False else " (cases file did not compile: " + (logs[0][-300:] if logs else "") + ")"), meta)
                break


# ----------------------------------------------------------------------------- search / replay
def search(ctx, res):
    import warnings
    warnings.simplefilter("ignore")
    for tr, drive in DRIVERS.items():
        rng = ctx.sub_rng("search-" + tr)
        for i in range(4000):
            flavour = FLAVOURS[tr][i % len(FLAVOURS[tr])]
            spec = gen_spec(rng, flavour, maxn=6)
            out = {"coq": [], "params": {}, "flavour": flavour}
            try:
                bad = drive(spec, rng, out)
            except Exception:
                continue
            if bad:
                return {"signature": bad[0], "what": bad[1],
                        "case": {"kind": "spec", "transformation": tr, "flavour": flavour, "spec": spec_to_json(spec), "params": out["params"]}}
    rng = ctx.sub_rng("search-session")
    for i in range(4000):
        flavour = SESSION_FLAVOURS[i % len(SESSION_FLAVOURS)]
        prog = gen_session(rng, flavour, maxn=5, maxops=6)
        try:
            bad, _ = run_session(prog, {"coq": []})
        except Exception:
            continue
        if bad:
            return {"signature": bad[0], "what": bad[1], "case": {"kind": "session", "flavour": flavour, "prog": prog}}
    return None


def replay(ctx, case):
    import warnings
    warnings.simplefilter("ignore")
    c = case.get("case", case)
    if c.get("kind") == "session":
        bad, _ = run_session(c["prog"], {"coq": []})
        return {"fails": bool(bad), "failure": {"signature": bad[0], "what": bad[1]} if bad else None}
    if c.get("kind") != "spec":
        return {"fails": None, "note": "this replay names a broken proof / correspondence: re-run ./check C11"}
    out = {"coq": [], "params": {}}
    bad = REPLAYERS[c["transformation"]](spec_from_json(c["spec"]), c.get("params", {}), out)
    return {"fails": bool(bad), "failure": {"signature": bad[0], "what": bad[1]} if bad else None}
