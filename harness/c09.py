"""C09 -- shared-memory datasets keep their bytes, are protected in use, stay reachable.

Same driver as C08 (harness/shm_common.py): the REAL LocalServer.start / dataset.Manager / algorithms.lottery /
disk.Disk bodies over an in-memory /dev/shm + page-out directory, each disk job run as two steps when the op list says.

Oracle (direct reading of the property on what clients and the disk seam can see; independent of the Coq model):
  * bytes: whenever a get is granted, the segment under the returned shmid exists, has the returned length and holds exactly
    the bytes the writer left when it closed, however often the dataset went to disk and back;
  * no read before the writer's close was accepted;
  * while a reader younger than the staleness window holds a dataset, its segment is not unlinked and no page-out job is
    issued for it; a purge during a read removes nothing, and takes effect when the last reader closes;
  * eviction order at the disk seam: once-read (created asc), many-read (last read asc), never-read (created desc), and not
    more victims than needed;
  * reachability: at the end of every history a patient client (retry allocate; let the disk jobs finish) is granted
    any allocation that fits next to what cannot be evicted -- `wait` forever is a failure; and no request handler, no half of a
    disk job and no callback may block: the whole history runs in a watched thread (shm_common.Driver.run), a call that does not
    return is the failure `hang-<op>` with the history up to that op as the case.
Readers are known to the oracle by the position of their granted get, never by the id the store gave them, and the harness does not
choose or interpret these ids (they are numbered by first appearance): whatever the id scheme, a reader that is open must be
protected.  Streams: besides the shared ones, `overlap` (many overlapping readers of one key closed in every order, then pressure or
purge) and `faults` (disk faults at every job step with requests in between).
Stream `conc` (shm_common.conc_history): job bodies and completion callbacks run from yield point to yield point, so that several page-in
jobs read their page files at the same time and requests arrive while a completion is in flight; every granted read is compared with
what the writer left, as everywhere.  The scripted clock gives wall time, monotonic time and perf_counter unrelated epochs (as on a real
machine): the oracle speaks of the scripted instants only, so a stamp and a reading taken from different clocks show as a reader that is
not protected (or never evicted).
Stream `clients` (harness/c09_client.py): the other streams speak the protocol themselves, one request at a time; here the REAL
cascade.shm.client functions are run by several threads of one process (the pool of the data server) against the same real server, over a
datagram network of ours in which an answer goes to the socket its request came from and a recv takes whatever waits at its socket; a
schedule says which thread / the server / a disk job takes the next leg.  Oracle: bytes, size and deser_fun seen under a key, a call fails
iff the store refused it, readers are closed under the key and id they were granted, nothing is left open, every call returns.
Correspondence: every op list (incl. the epilogue) is evaluated by the Coq model and compared output by output; the model validates
the reader id that was handed out (it must not be the id of an ongoing read) instead of predicting it."""
import itertools
import time as _time

import c09_client as CL
import shm_common as S
from common import coq_results, load_findings

TRUSTED = [
    "harness/shm_common.py + harness/fakes/shm_fakes.py (see C08): in-memory SharedMemory/open registry, manual executor, scripted clock/UDP socket; "
    "uuid.uuid4 is scripted only where the implementation still draws reader ids from it (to force collisions with ids of ongoing reads); reader ids are "
    "taken from the responses and numbered by first appearance",
    "cooperative scheduler for job bodies and callbacks, scripted /dev/shm size (see C08); scripted clock: time_ns/time, monotonic(_ns) and perf_counter(_ns) "
    "are views of one scripted `now` with unrelated epochs (wall 1.79e18 ns, monotonic three days, perf_counter 77 s); the Coq model is given the wall-clock epoch",
    "hang detection: plain-Lock attributes of the Manager are wrapped from outside (a blocking acquire by the thread that holds the lock is reported at once "
    "instead of blocking); any other blocking call is decided by a watchdog (no progress while every thread of the history sleeps in the kernel at the same "
    "instruction, read from /proc/self/task/*/stat and sys._current_frames)",
    "the oracle's own bookkeeping of generations, writers' closes and granted readers is derived from the requests and responses only",
    "stream clients (harness/c09_client.py): inside cascade.shm.client the names socket, time, SharedMemory and multiprocessing are replaced: every socket the "
    "client code makes has a receive buffer of its own, the server answers to the socket a request came from (lost when closed meanwhile), datagrams of one "
    "socket keep their order, nothing else is lost, no recv times out; client threads are real threads run one at a time from yield point to yield point "
    "(after send, before recv, in sleep, before a segment is created / attached) by a schedule that is part of the case; a thread blocked in a primitive of "
    "the implementation is left alone until it comes back (schedules are then no longer exactly repeatable)",
]
ASSUMPTIONS = [
    "atomicity of request handlers and of each half of a disk job (as for C08); every order of these steps is covered; finer than that (stream conc): "
    "bodies and callbacks parked at their yield points -- log calls, lock acquisitions, segment and file operations -- with requests and steps of other "
    "jobs in between; code between two yield points is atomic; Shm/PageInChunks.v: chunk-wise page-in bodies with private buffers commute",
    "all readings of the clock by the store are readings of ONE clock (the model has one `now` per request); the harness gives the clocks of the time "
    "module unrelated epochs, a store mixing them disagrees with the model and with the oracle",
    "the md5-derived shmid is injective on the keys in use (model: shmid = key)",
    "segments are created by clients (SharedMemory(create=True), fails if the name exists) and by page-in only; nobody scribbles into an existing segment "
    "(client.py hands out read-only views); the writer's bytes are what its segment holds when its close_callback is accepted (ghost field d_written)",
    "C09_bytes_preserved_partial assumes `clean`: (a) no page-out job issued for a Dataset object that was purged meanwhile finds a segment under its name or "
    "completes successfully (open finding readd-during-pageout, shared with C08; witness C09_bytes_preserved_refuted), (b) a writer closes a segment of the granted size",
    "C09_no_read_before_close_partial assumes `unhurried`: during every allocate/get no dataset has been in status created for longer than STALE_CREATE "
    "(15 min); otherwise the store pages the unfinished dataset out and later hands it to readers (finding stale-writer-readable; witness C09_no_read_before_close_refuted)",
    "reachability is proved as: the pageout lock is held exactly while a page-out job is pending (every history, no side condition), a waiting request with an "
    "evictable candidate and a free lock issues a page-out, a successful page-out credits its size (C08); that the thread pool eventually runs every "
    "job (fairness) is assumed, and 'eventually granted' itself is checked on the implementation by the patient-client epilogue, not proved",
    "C09_handlers_never_block: pageout_one is the only blocking primitive of the store and every section under it is straight-line code, so the only way "
    "to block for ever is a thread taking it twice; the events of Shm/ManagerLocks.v are compared with those seen on Manager.pageout_one where that attribute "
    "is a plain lock (informative: histogram lock-events:*), the absence of hangs itself is decided on the implementation by the watchdog",
    "the last clause (eventually granted, incl. failed disk jobs) is refuted by C09_failed_pageout_under_stale_reader_refuted (open finding "
    "failed-pageout-under-stale-reader-stuck): the oracle gives that signature only to a dataset left in paging_out after the callback of ITS failed "
    "page-out ran while a reader held it; any other dataset left in paging_out without a pending job is `stuck-in-paging-out`, any other wait-for-ever "
    "`eviction-stuck` / `hang-*`",
    "C09_client_call_gets_its_own_answer / C09_disciplined_clients_never_mispaired (Shm/ClientRpc.v): loopback datagrams of one socket are neither lost, "
    "duplicated nor reordered, the server answers every request exactly once to the address it came from, and the client keeps to the discipline (a request "
    "is sent on a socket with no unanswered request by a thread with none, the answer is awaited by that thread however late it comes): the discipline is "
    "checked on the datagram events of every history of stream clients; answers later than the client's response timeout (a resent request) are C07's "
    "subject and are not generated here",
    "C09_reader_table_exact speaks of ids as the store sees them; clients are assumed to close with the id they were given (malformed closes are generated "
    "too, the oracle then stops tracking that dataset)",
]

SIG_READD = "readd-during-pageout"
SIG_STALE_WRITER = "stale-writer-readable"
SIG_STUCK = "failed-pageout-under-stale-reader-stuck"


class Watch:
    def __init__(self, capacity):
        self.capacity = capacity
        self.bad = []
        self.gen = {}        # key -> dict(size, created, closed(bytes|None), was_closed, reads[list of times], readers{handle: t}, delayed, wild, evicted_unclosed)
        #                      a reader is known by the position of its granted get (its handle), NOT by the id the server gave it:
        #                      the oracle must still know who holds what when the store mixes its readers up
        self.tmax = 0
        self.stats = {"granted_gets": 0, "gets_after_disk_roundtrip": 0, "purge_delayed": 0, "delayed_purge_done": 0, "evictions": 0,
                      "fresh_reader_protected": 0, "roundtrips": 0, "three_overlapping_readers": 0, "reader_id_shared": 0,
                      "closed_out_of_order": 0, "pageout_failed_segment_present": 0, "pagein_failed": 0}
        self.roundtrip = set()
        self.failed_under_reader = {}   # key -> (Dataset object, op index, consequences): its page-out FAILED while a reader held it

    def flag(self, d, sig, what, i, op):
        if S.readd_evidence(d):
            sig = SIG_READD
        self.bad.append((sig, f"op {i} {op}: {what}", i))

    def readd_suspect(self, d):
        return getattr(d, "readd_io", False)

    def __call__(self, d, i, op, ob):
        m = d.m
        k = op[0]
        if k in ("add", "get"):
            self.tmax = max(self.tmax, op[3] if k == "add" else op[2])
        now = self.tmax
        # io of a page-out job whose dataset object is gone, finding a segment: the C09 face of the readd finding
        if k in ("io", "unlink") and ob[1]:
            j = d.board.jobs[op[1]]
            if j.kind == "out" and (j.ok or j.phase == "unlink") and (m.datasets.get(d.key_for(j.shmid)) is not d.job_obj.get(op[1]) or d.job_obj.get(op[1]) is None):
                d.readd_io = True
        if k == "io" and ob[1]:
            j = d.board.jobs[op[1]]
            if j.ok is False and j.phase == "cb":
                if j.kind == "out" and j.shmid in d.reg.segs:
                    self.stats["pageout_failed_segment_present"] = 1    # the page file could not be written: the callback has to purge
                elif j.kind == "in":
                    self.stats["pagein_failed"] = 1
        if k == "cb" and ob[1]:
            j = d.board.jobs[op[1]]
            key = d.key_for(j.shmid)
            g = self.gen.get(key)
            obj = d.job_obj.get(op[1])
            if j.kind == "out" and j.ok is False and obj is not None and m.datasets.get(key) is obj and g is not None and g["readers"]:
                # the mechanism of the finding failed-pageout-under-stale-reader-stuck, and only this: the callback of a FAILED page-out
                # ran for a dataset that is still registered and that a reader (necessarily stale) still holds
                self.failed_under_reader[key] = (obj, i, {"get-answered-wait": 0, "reader-close-refused": 0, "purge-without-effect": 0})
        fu = self.failed_under_reader.get(op[1]) if len(op) > 1 and isinstance(op[1], str) else None
        if fu is not None and m.datasets.get(op[1]) is fu[0]:
            if k == "get" and ob[4] == "wait":
                fu[2]["get-answered-wait"] += 1
            elif k == "close" and op[2] is not None and ob[1] != "":
                fu[2]["reader-close-refused"] += 1
            elif k == "purge":
                fu[2]["purge-without-effect"] += 1
        # ---- bookkeeping + checks per request
        if k == "add" and ob[2] == "" and ob[1] is not None:
            self.gen[op[1]] = {"size": op[2], "created": op[3], "closed": None, "was_closed": False, "reads": [], "readers": {}, "ids": {}, "delayed": False,
                               "wild": False, "evicted_unclosed": False}
        elif k == "write":
            g = self.gen.get(op[1])
            ds = m.datasets.get(op[1])
            if (not ob[1]) or g is None or ds is None or ds.status.name != "created" or len(op[2]) // 2 != g["size"]:
                d.wild_write = True
                if g is not None:
                    g["wild"] = True
                else:
                    self.gen[op[1]] = {"size": len(op[2]) // 2, "created": 0, "closed": None, "was_closed": False, "reads": [], "readers": {}, "ids": {},
                                       "delayed": False, "wild": True, "evicted_unclosed": False}
        elif k == "close" and ob[1] == "":
            g = self.gen.get(op[1])
            if g is not None:
                if op[2] is None:
                    seg = d.reg.segs.get(d.shmid(op[1]))
                    g["was_closed"] = True
                    g["closed"] = None if seg is None else bytes(seg)
                    if seg is None:
                        g["wild"] = True      # a writer that finished without ever creating its segment: nothing was written
                else:
                    c = d.closing or {}
                    h = c.get("handle")
                    if h is not None and h["idx"] in g["readers"]:
                        if any(x > h["idx"] for x in g["readers"]):
                            self.stats["closed_out_of_order"] = 1
                        g["readers"].pop(h["idx"])
                        g["ids"].pop(h["idx"], None)
                    elif c.get("rdid") in g["ids"].values():
                        # a client closing a reader that is not its own (malformed histories): who holds the dataset is no longer known
                        g["wild"] = True
                    if g["delayed"] and not g["readers"]:
                        # the purge requested during the read takes effect now
                        if op[1] in m.datasets and not g["wild"] and not d.wild_write:
                            self.flag(d, "delayed-purge-not-executed", f"last reader closed, purge was requested during the read, dataset still registered: {S.snapshot(m).get(op[1])}", i, op)
                        else:
                            self.stats["delayed_purge_done"] += 1
                if op[1] not in m.datasets:
                    self.gen.pop(op[1], None)
        elif k == "purge":
            g = self.gen.get(op[1])
            if g is not None and g["readers"]:
                g["delayed"] = True
                self.stats["purge_delayed"] += 1
                fresh = [t for t in g["readers"].values() if now - t <= S.STALE]
                if fresh and not g["wild"] and not d.wild_write and (op[1] not in m.datasets or d.shmid(op[1]) not in d.reg.segs):
                    self.flag(d, "purged-under-reader", f"purge while readers {g['readers']} hold the dataset removed it", i, op)
            elif op[1] not in m.datasets:
                self.gen.pop(op[1], None)
        elif k == "get" and ob[4] == "" and ob[1] is not None:
            self.stats["granted_gets"] += 1
            key = op[1]
            g = self.gen.get(key)
            if ob[1] != key:
                self.flag(d, "get-wrong-shmid", f"get({key}) returned the segment of {ob[1]}", i, op)
            elif g is None:
                self.flag(d, "get-of-unallocated", f"get({key}) granted but no allocation of the key was ever granted", i, op)
            else:
                if not g["was_closed"]:
                    sig = SIG_STALE_WRITER if g["evicted_unclosed"] else "read-before-writer-close"
                    self.bad.append((sig, f"op {i} {op}: get granted although the writer of {key} never finished (close_callback not accepted)", i))
                seg = d.reg.segs.get(d.shmid(key))
                if key in self.roundtrip:
                    self.stats["gets_after_disk_roundtrip"] += 1
                if g["was_closed"] and not g["wild"] and not d.wild_write:
                    if seg is None:
                        self.flag(d, "bytes-lost", f"get({key}) granted but no segment exists under its shmid", i, op)
                    elif g["closed"] is not None and (bytes(seg) != g["closed"] or ob[2] != len(g["closed"])):
                        self.flag(d, "bytes-differ", f"get({key}) exposes {bytes(seg).hex()} (l={ob[2]}), the writer left {g['closed'].hex()}", i, op)
                g["reads"].append(op[2])
                g["readers"][i] = op[2]
                g["ids"][i] = next((h["rdid"] for h in d.handles.values() if h["idx"] == i), None)
                if len(g["readers"]) >= 3:
                    self.stats["three_overlapping_readers"] = 1
                if len(set(g["ids"].values())) < len(g["ids"]):
                    self.stats["reader_id_shared"] = 1
        # ---- jobs issued by this op: eviction order and protection of fresh readers
        outs = [j for j in ob[-1] if j[0] == "out"]
        if outs:
            self.stats["evictions"] += len(outs)
            classes = []
            for _, key, _ in outs:
                g = self.gen.get(key)
                if g is None:
                    classes.append(None)
                    continue
                if not g["was_closed"]:
                    g["evicted_unclosed"] = True
                fresh = [t for t in g["readers"].values() if now - t <= S.STALE]
                if fresh and not g["wild"]:
                    self.flag(d, "evicted-under-fresh-reader", f"page-out issued for {key} while a reader that started at {fresh} (now {now}) holds it", i, op)
                reads = g["reads"]
                # the read that is part of THIS op cannot concern a victim (a get never evicts the dataset it reads)
                cls = 2 if not reads else (0 if len(set(reads)) == 1 and len(reads) >= 1 and reads[0] == reads[-1] else 1)
                classes.append((cls, g["created"] if cls == 0 else reads[-1] if cls == 1 else -g["created"], g["size"]))
            known = [c for c in classes if c is not None]
            if len(known) == len(classes) and not d.wild_write:
                if any(a[:2] > b[:2] for a, b in zip(known, known[1:])):
                    self.flag(d, "eviction-order", f"victims {[(j[1]) for j in outs]} have (class, sort key, size) {known}: not once-read/many-read/never-read order", i, op)
                need = (op[2] if k == "add" else None)
                if k == "add" and self.prev_free is not None:
                    amount = op[2] - self.prev_free
                    if sum(c[2] for c in known[:-1]) >= amount > 0:
                        self.flag(d, "eviction-not-minimal", f"victims {[(j[1]) for j in outs]} with sizes {[c[2] for c in known]} to free {amount}: the last one was not needed", i, op)
        for j in ob[-1]:
            if j[0] == "in":
                self.roundtrip.add(j[1])
                self.stats["roundtrips"] += 1
        self.prev_free = ob[-2]
        # ---- after every op: a fresh reader's dataset is in memory and its segment is there
        for key, g in self.gen.items():
            if g["wild"] or d.wild_write:
                continue
            fresh = [t for t in g["readers"].values() if now - t <= S.STALE]
            if fresh:
                self.stats["fresh_reader_protected"] += 1
                ds = m.datasets.get(key)
                if ds is None or ds.status.name != "in_memory" or d.shmid(key) not in d.reg.segs:
                    self.flag(d, "unlinked-under-fresh-reader", f"{key} is held by a reader since {fresh} (now {now}) but is {None if ds is None else ds.status.name}, "
                              f"segment present: {d.shmid(key) in d.reg.segs}", i, op)

    prev_free = None


# ----------------------------------------------------------------------------- reachability epilogue
class Epilogue:
    """a patient client at the end of the history: let every disk job finish, then retry an allocation that fits next to
    what cannot be evicted; the oracle demands it is granted within a bounded number of rounds"""

    def __init__(self, watch, rng):
        self.watch, self.rng = watch, rng
        self.stage = -3
        self.rd = 900000
        self.rounds = 0
        self.probe = None
        self.verdict = None      # None | "granted" | "not-applicable" | "stuck"
        self.expect = None

    def drain(self, d):
        return d.pending_job_steps()

    def __call__(self, d):
        m = d.m
        pend = self.drain(d)
        if pend:
            return pend
        now = self.watch.tmax
        if self.stage < 0:
            # read everything back, three times (evict to make room / page in / read), letting the disk jobs finish in between
            self.stage += 1
            ops = []
            for key in list(self.watch.gen):
                self.rd += 1
                ops.append(["get", key, now + 1, [self.rd]])
                if self.stage == 0 or self.rng.random() < 0.5:
                    ops.append(["close", key, self.rd])
            if ops:
                return ops
            self.stage = 0
        if self.stage == 0:
            self.stage = 1
            # what a new allocation can count on: free space + in-memory datasets without a fresh reader whose segment exists
            evictable = 0
            for key, ds in m.datasets.items():
                # who holds the dataset, by the oracle's own books (scripted instants; the stamps the store keeps are in ITS clock's
                # epoch): every open reader is on the books, so nothing held by a fresh reader is counted on; where the books were
                # given up (malformed histories) nothing that has a reader is counted on
                g = self.watch.gen.get(key)
                if g is None or g["wild"] or d.wild_write:
                    fresh = bool(ds.ongoing_reads)
                else:
                    fresh = any(now + 1 - t <= S.STALE for t in g["readers"].values())
                if ds.status.name == "in_memory" and not fresh and d.shmid(key) in d.reg.segs:
                    evictable += ds.size
            room = m.free_space + evictable
            if room < 1 or d.crash:
                self.verdict = "not-applicable"
                return None
            size = self.rng.choice([1, room, room, max(1, room // 2)])
            size = min(size, self.capacity_of(d))
            self.probe = ["add", "probe", size, now + 1]
            self.expect = (size, m.free_space, evictable)
            self.nds = len(m.datasets)
            return [list(self.probe)]
        # stage 1: look at the answer to the last probe
        last = next((o for o in reversed(d.obs) if o[0] == "add"), None)
        if last is not None and last[2] == "":
            self.verdict = "granted"
            return None
        if last is not None and last[2] not in ("wait",):
            self.verdict = "not-applicable"   # conflict (a key called probe exists): nothing to conclude
            return None
        self.rounds += 1
        if self.rounds > self.nds + 3:
            self.verdict = "stuck"
            return None
        p = list(self.probe)
        p[3] = now + 1 + self.rounds
        return [p]

    def capacity_of(self, d):
        return d.effective


def evaluate(env, cap, ops, rng=None, with_epilogue=True):
    import random
    w = Watch(S.cfg_of(cap)[2])
    ops = [list(o) for o in ops]      # the run writes the ids it saw into its own copy
    d = S.Driver(env, cap, ops, w)
    ep = Epilogue(w, rng or random.Random(S.hist_key(cap, ops)))
    if with_epilogue:
        d.epilogue = ep
    obs, crash = d.run()
    bad = list(w.bad)
    if with_epilogue and ep.verdict == "stuck":
        sig = "eviction-stuck"
        if S.readd_evidence(d):
            sig = SIG_READD
        bad.append((sig, f"a patient client asking for {ep.expect[0]} bytes (free {ep.expect[1]}, evictable {ep.expect[2]}) was answered `wait` "
                         f"{ep.rounds} times with all disk jobs completed in between; lock held: {d.m.pageout_all.locked()}, pageout_count {d.m.pageout_count}, "
                         f"datasets {S.snapshot(d.m)}", len(obs) - 1))
    if not crash:
        # at the end of the history no dataset may be left in paging_out without a page-out job that could ever move it on
        for key, ds in d.m.datasets.items():
            g = w.gen.get(key)
            if ds.status.name != "paging_out" or g is None or g["wild"] or d.wild_write:
                continue
            if any(j.kind == "out" and j.shmid == ds.shmid and j.phase in ("io", "unlink", "cb") for j in d.board.jobs):
                continue
            fu = w.failed_under_reader.get(key)
            if fu is not None and fu[0] is ds and getattr(ds, "delayed_purge", True):      # ... and its purge was indeed delayed
                bad.append((SIG_STUCK, f"op {fu[1]} {ops[fu[1]]}: the page-out of {key} failed while a stale reader held it: its purge was delayed and the dataset is left "
                            f"in paging_out for ever (no job pending, lock held: {d.m.pageout_all.locked()}): {S.snapshot(d.m).get(key)}, free_space {d.m.free_space} of "
                            f"{d.effective}; afterwards in this history: {fu[2]}", fu[1]))
            elif not g["was_closed"]:
                # an allocation abandoned by its writer (never closed; evicted as stale-created, cf. stale-writer-readable) whose segment was never
                # created: page-out and purge both fail on the missing segment.  Not a dataset in the sense of the property (nothing was ever
                # written); counted (event:abandoned-allocation-stuck), not judged
                d.events.append(("abandoned-allocation-stuck", len(obs) - 1, key))
            else:
                sig = SIG_READD if S.readd_evidence(d) else "stuck-in-paging-out"
                bad.append((sig, f"{key} is left in status paging_out with no page-out job pending (nothing will ever move it on, its space is never "
                            f"returned): {S.snapshot(d.m).get(key)}, free_space {d.m.free_space} of {d.effective}", len(obs) - 1))
    if crash and crash[0] == "Hang":
        # a blocked call is a failure of its own: nothing is granted any more, whatever else is going on in the history
        kind = ops[crash[2]][0] if crash[2] < len(ops) else "?"
        bad.insert(0, ("hang-" + kind, f"op {crash[2]}: the store blocked for ever: {crash[1]}; lock events of this op: "
                       f"{d.lock_log[(d.lock_marks[-1] if d.lock_marks else 0):][-6:]}", crash[2]))
    elif crash:
        bad.append(("server-crash" if not S.readd_evidence(d) else SIG_READD,
                    f"op {crash[2]}: {crash[0]} left LocalServer.start ({crash[1]})", crash[2]))
    for e in d.events:
        if e[0] == "callback-raised" and not S.readd_evidence(d):
            bad.append(("callback-raised", f"a disk-job callback raised {e[2]} (lock/counter out of step)", e[1]))
    return d, ops, obs, crash, bad, w, ep


# ----------------------------------------------------------------------------- streams
def reader_history(rng):
    """readers held open (some beyond the staleness window) while memory pressure, purges and job completions arrive"""
    cap = rng.choice([4, 6, 8, 12])
    nk = rng.choice([2, 3, 4])
    keys = [f"k{i}" for i in range(nk)]
    now = [rng.choice([1, 50])]
    ops, rd, held = [], [1], []
    sizes = {}

    def tick(big=False):
        now[0] += (S.STALE + rng.choice([0, 1, 7])) if big else rng.choice([1, 2, 3])
        return now[0]

    for k in keys:
        s = rng.randrange(1, max(2, cap // nk + 2))
        sizes[k] = s
        ops += [["add", k, s, tick()], ["write", k, S.payload(rng, s)], ["close", k, None]]
        for _ in range(rng.choice([0, 1, 1, 2, 3])):
            ops.append(["get", k, tick(), [rd[0]]])
            held.append((k, rd[0]))
            rd[0] += 1
            if rng.random() < 0.4:
                kk, r = held.pop(rng.randrange(len(held)))
                ops.append(["close", kk, r])
    jobs = 0
    pend_io, pend_ul, pend_cb = [], [], []
    for _ in range(rng.choice([3, 5, 8])):
        c = rng.random()
        if c < 0.3:
            s = rng.randrange(max(1, cap // 2), cap + 1)
            ops.append(["add", "big", s, tick(big=rng.random() < 0.25)])
            sizes["big"] = s
            for _ in range(rng.choice([1, 2])):
                pend_io.append(jobs)
                jobs += 1
        elif c < 0.45:
            ops.append(["purge", rng.choice(keys)])
        elif c < 0.6 and held:
            kk, r = held.pop(rng.randrange(len(held)))
            ops.append(["close", kk, r])
        elif c < 0.70 and pend_io:
            j = pend_io.pop(rng.randrange(len(pend_io)))
            ops.append(["io", j, rng.random() < 0.05])
            pend_ul.append(j)
        elif c < 0.80 and pend_ul:
            j = pend_ul.pop(rng.randrange(len(pend_ul)))
            ops.append(["unlink", j])
            pend_cb.append(j)
        elif c < 0.88 and pend_cb:
            ops.append(["cb", pend_cb.pop(rng.randrange(len(pend_cb)))])
        else:
            k = rng.choice(keys)
            ops.append(["get", k, tick(), [rd[0]]])
            held.append((k, rd[0]))
            rd[0] += 1
            pend_io.append(jobs)
            jobs += 1
    if rng.random() < 0.5:
        ops += [["write", "big", S.payload(rng, sizes.get("big", 1))], ["close", "big", None]]
    for k in keys:
        ops.append(["get", k, tick(), [rd[0]]])
        rd[0] += 1
    return cap, ops


def overlap_history(rng):
    """many overlapping readers of ONE key, granted and closed in every order (first-in-first-out, last-in-first-out, random, the
    middle one first; double closes), new readers arriving while older ones are open -- then, with some reader still holding the key,
    memory pressure and/or a purge arrive, the disk jobs complete, and the remaining readers close.  (Readers are told apart by the
    store through the ids it hands out: however it produces them, a reader that is open must keep its own entry.)"""
    cap = rng.choice([4, 6, 8, 12])
    hot = rng.choice(["h", "k0"])
    size = rng.randrange(1, max(2, cap // 2 + 1))
    t = [rng.choice([1, 77, 10 ** 6])]

    def tick(big=False):
        t[0] += (S.STALE + rng.choice([1, 9])) if big else rng.choice([1, 1, 2, 5])
        return t[0]
    ops = [["add", hot, size, tick()], ["write", hot, S.payload(rng, size)], ["close", hot, None]]
    others = []
    room = cap - size
    for k in ["o1", "o2"][:rng.choice([0, 1, 1, 2])]:
        if room < 1:
            break
        s_ = rng.randrange(1, room + 1)
        room -= s_
        others.append(k)
        ops += [["add", k, s_, tick()], ["write", k, S.payload(rng, s_)], ["close", k, None]]
        if rng.random() < 0.4:
            ops += [["get", k, tick(), [900 + len(others)]], ["close", k, 900 + len(others)]]
    policy = rng.choice(["fifo", "lifo", "random", "random", "middle", "second"])
    lab, open_ = [0], []

    def get():
        lab[0] += 1
        cands = [lab[0]]
        if open_ and rng.random() < 0.2:          # where uuid4 is the source: first a collision with an open reader
            cands = [rng.choice(open_)] * rng.choice([1, 2]) + cands
        ops.append(["get", hot, tick(), cands])
        open_.append(lab[0])

    def close():
        if not open_:
            return
        j = {"fifo": 0, "lifo": len(open_) - 1, "random": rng.randrange(len(open_)), "middle": len(open_) // 2,
             "second": min(1, len(open_) - 1)}[policy]
        r = open_.pop(j)
        ops.append(["close", hot, r])
        if rng.random() < 0.05:
            ops.append(["close", hot, r])          # a client closing twice
    jobs = [0]
    pend = []

    def challenge():
        c = rng.random()
        if c < 0.45 or not open_:
            need = rng.randrange(max(1, cap - size + 1), cap + 1) if cap - size + 1 <= cap else cap
            ops.append(["add", "big", need, tick()])
            for _ in range(1 + len(others)):
                pend.append(jobs[0])
                jobs[0] += 1
        elif c < 0.8:
            ops.append(["purge", hot])
        else:
            ops.append(["purge", rng.choice(others + [hot])])
        for _ in range(rng.choice([0, 1, 3])):
            if pend and rng.random() < 0.7:
                j = pend.pop(0)
                ops.extend([["io", j, rng.random() < 0.05], ["unlink", j], ["cb", j]])
    for _ in range(rng.choice([2, 3])):
        get()
    for _ in range(rng.choice([3, 5, 8, 12])):
        r = rng.random()
        if r < 0.45:
            get()
        elif r < 0.85:
            close()
        else:
            challenge()
    if rng.random() < 0.25:
        tick(big=True)                             # every reader so far is stale now: evicting the key is legitimate
        if rng.random() < 0.5:
            get()
    for _ in range(rng.choice([1, 2, 3])):
        challenge()
        if rng.random() < 0.6:
            close()
    ops.append(["drain"])
    ops.append(["add", "big", cap, tick()])
    ops.append(["drain"])
    while open_:
        close()
        if rng.random() < 0.3:
            challenge()
    ops.append(["drain"])
    lab[0] += 1
    ops += [["get", hot, tick(), [lab[0]]], ["rseg", hot]]
    return cap, ops


def fault_history(rng):
    """disk faults at every job step: page files that cannot be written while the segment is still there, page-ins failing after
    their segment was created, purges between the two halves of a page-out -- with requests of other clients in between.  After
    every failed job the store has to go on: victim dropped, space returned, lock released, the next patient client granted."""
    cap = rng.choice([4, 6, 8, 10])
    nk = rng.choice([2, 3, 4])
    keys = [f"k{i}" for i in range(nk)]
    t = [rng.choice([1, 500])]

    def tick(big=False):
        t[0] += (S.STALE + 3) if big else rng.choice([1, 2])
        return t[0]
    ops, sizes, lab = [], {}, [0]
    room = cap
    for k in keys:
        s_ = max(1, min(room, rng.randrange(1, max(2, cap // nk + 2))))
        sizes[k] = s_
        room = max(1, room - s_)
        ops += [["add", k, s_, tick()], ["write", k, S.payload(rng, s_)], ["close", k, None]]
        r = rng.random()
        if r < 0.3:
            lab[0] += 1
            ops += [["get", k, tick(), [lab[0]]], ["close", k, lab[0]]]
        elif r < 0.45:
            lab[0] += 1
            ops += [["get", k, tick(), [lab[0]]]]       # held; stale after the jump below
    if rng.random() < 0.3:
        tick(big=True)
    pf = rng.choice([0.3, 0.6, 1.0])
    jid = [0]
    for _ in range(rng.choice([1, 2, 3])):
        ops.append(["add", "new", rng.randrange(max(1, cap // 2), cap + 1), tick()])
        mine = list(range(jid[0], jid[0] + rng.choice([1, 2, nk])))
        jid[0] = mine[-1] + 1
        steps = []
        for j in mine:
            steps.append([["io", j, rng.random() < pf], ["unlink", j], ["cb", j]])
        while any(steps):
            st = rng.choice([x for x in steps if x])
            ops.append(st.pop(0))
            r = rng.random()
            if r < 0.12:
                ops.append(["purge", rng.choice(keys)])
            elif r < 0.2:
                lab[0] += 1
                ops.append(["get", rng.choice(keys), tick(), [lab[0]]])
            elif r < 0.26:
                ops.append(["add", "new", rng.randrange(1, cap + 1), tick()])
        if rng.random() < 0.5:
            ops.append(["drain"])
    ops.append(["alloc", "new2", S.payload(rng, rng.randrange(1, cap + 1)), 5, 0])
    # read everything back: page-outs to make room and page-ins, some of them failing (the jobs that really exist: drainf)
    for k in rng.sample(keys, len(keys)):
        for _ in range(rng.choice([1, 2, 2, 3])):
            lab[0] += 1
            ops.append(["get", k, tick(), [lab[0]]])
            ops.append(["drainf", rng.randrange(10 ** 6), int(100 * pf * rng.choice([0, 0.5, 1]))])
        ops.append(["read", k, 3, 0])
    ops.append(["drain"])
    return cap, ops


def stuck_history(rng):
    """a reader that never closes (or closes late) grows older than the staleness window, memory pressure selects its dataset, the page
    file cannot be written -- then patient clients, the reader's late close, purges and re-allocations try to get on"""
    cap = rng.choice([4, 6, 8])
    a = rng.randrange(max(1, cap // 2), cap)
    t = [rng.choice([1, 40])]

    def tick(big=False):
        t[0] += (S.STALE + rng.choice([1, 10])) if big else rng.choice([1, 2])
        return t[0]
    ops = [["add", "s", a, tick()], ["write", "s", S.payload(rng, a)], ["close", "s", None]]
    other = rng.random() < 0.5 and cap - a >= 1
    if other:
        ops += [["add", "o", cap - a, tick()], ["write", "o", S.payload(rng, cap - a)], ["close", "o", None]]
    ops.append(["get", "s", tick(), [1]])
    if rng.random() < 0.3:
        ops += [["get", "s", tick(), [2]], ["close", "s", 2]]
    early = rng.random() < 0.15
    if early:
        ops.append(["close", "s", 1])                    # closed in time: nothing special may happen
    tick(big=rng.random() < 0.9)
    ops.append(["add", "new", rng.randrange(cap - a + 1, cap + 1), tick()])
    fault = rng.random() < 0.85
    mid = [["close", "s", 1], ["purge", "s"], ["get", "s", tick(), [3]], ["add", "new", 1, tick()]]
    ops.append(["io", 0, fault])
    if rng.random() < 0.3:
        ops.append(rng.choice(mid))
    ops.append(["unlink", 0])
    if rng.random() < 0.3:
        ops.append(rng.choice(mid))
    ops.append(["cb", 0])
    ops.append(["drain"])
    lab = [10]
    for _ in range(rng.choice([2, 4, 6])):
        r = rng.random()
        lab[0] += 1
        if r < 0.2:
            ops.append(["alloc", "new", S.payload(rng, rng.randrange(1, cap + 1)), 3, 0])
        elif r < 0.4:
            ops.append(["read", "s", 3, 0])
        elif r < 0.55:
            ops.append(["close", "s", 1])
        elif r < 0.7:
            ops.append(["purge", "s"])
        elif r < 0.8:
            ops.append(["add", "s", a, tick(big=rng.random() < 0.2)])
        elif r < 0.9:
            ops.append(["get", "s", tick(), [lab[0]]])
        else:
            ops.append(["purge", "new"])
    ops.append(["drain"])
    return cap, ops


def corpus():
    leak = (4, [["add", "A", 4, 10], ["add", "B", 2, 20], ["add", "B", 1, 21], ["write", "A", "01020304"], ["close", "A", None]])
    roundtrip = (4, [["add", "k1", 2, 1], ["write", "k1", "0102"], ["close", "k1", None], ["add", "k2", 2, 2], ["write", "k2", "0304"], ["close", "k2", None],
                     ["add", "k3", 2, 3], ["io", 0, False], ["unlink", 0], ["cb", 0], ["add", "k3", 2, 4], ["write", "k3", "0506"], ["close", "k3", None],
                     ["get", "k2", 5, [1]], ["io", 1, False], ["unlink", 1], ["cb", 1], ["get", "k2", 6, [1]], ["io", 2, False], ["cb", 2], ["get", "k2", 7, [1]], ["rseg", "k2"]])
    purge_read = (4, [["add", "a", 2, 1], ["write", "a", "0a0b"], ["close", "a", None], ["get", "a", 2, [1]], ["get", "a", 3, [2]], ["purge", "a"],
                      ["rseg", "a"], ["close", "a", 1], ["rseg", "a"], ["close", "a", 2], ["rseg", "a"], ["get", "a", 4, [3]]])
    pressure_read = (4, [["add", "a", 2, 1], ["write", "a", "0a0b"], ["close", "a", None], ["add", "b", 2, 2], ["write", "b", "0c0d"], ["close", "b", None],
                         ["get", "a", 3, [1]], ["add", "c", 4, 4], ["io", 0, False], ["unlink", 0], ["cb", 0], ["add", "c", 4, 5], ["close", "a", 1], ["add", "c", 4, 6],
                         ["io", 1, False], ["unlink", 1], ["cb", 1], ["add", "c", 4, 7]])
    stale_reader = (4, [["add", "a", 4, 1], ["write", "a", "01020304"], ["close", "a", None], ["get", "a", 2, [1]],
                        ["add", "b", 2, 3], ["add", "b", 2, 3 + S.STALE], ["add", "b", 2, 4 + S.STALE], ["io", 0, False], ["unlink", 0], ["cb", 0], ["add", "b", 2, 5 + S.STALE]])
    stale_writer = (4, [["add", "a", 3, 1], ["write", "a", "010203"], ["add", "b", 3, 2], ["add", "b", 3, 3 + S.STALE], ["io", 0, False], ["unlink", 0], ["cb", 0],
                        ["add", "b", 3, 4 + S.STALE], ["write", "b", "0a0b0c"], ["purge", "b"], ["get", "a", 5 + S.STALE, [1]], ["io", 1, False], ["cb", 1], ["get", "a", 6 + S.STALE, [1]]])
    readd = (10, [["add", "K", 6, 10], ["write", "K", "010203040506"], ["close", "K", None], ["add", "L", 6, 20], ["purge", "K"],
                  ["add", "K", 6, 30], ["write", "K", "0a0b0c0d0e0f"], ["close", "K", None], ["io", 0, False], ["unlink", 0], ["cb", 0], ["get", "K", 40, [1]]])
    # the same key written, sent to disk and back, purged, written again with other bytes, sent to disk and back again
    rewrite = (3, [["alloc", "k1", "0102", 4, 0], ["alloc", "k2", "0304", 4, 0], ["read", "k1", 4, 0], ["purge", "k1"], ["alloc", "k1", "0a0b", 4, 0],
                   ["read", "k2", 4, 0], ["read", "k1", 4, 0]])
    # the reader's segment must survive a purge that lands between the halves of a page-out body of ANOTHER generation
    # the witness of C09_failed_pageout_under_stale_reader_refuted, followed by a patient client, the reader's late close and a purge
    stuck = (4, [["add", "a", 3, 1], ["write", "a", "010203"], ["close", "a", None], ["get", "a", 2, [7]], ["add", "b", 3, 10 + S.STALE], ["io", 0, True], ["cb", 0],
                 ["add", "b", 3, 11 + S.STALE], ["close", "a", 7], ["purge", "a"], ["get", "a", 12 + S.STALE, [8]], ["add", "a", 1, 13 + S.STALE]])
    # two consumers come back after a memory squeeze: gets of two on-disk keys back to back, the two page-in bodies take turns
    # (each has read its chunk before the other copies its own), then both are read
    two_pageins = (8, [["add", "k1", 3, 1], ["write", "k1", "0a0b0c"], ["close", "k1", None], ["add", "k2", 3, 2], ["write", "k2", "f1f2f3"], ["close", "k2", None],
                       ["add", "big", 8, 3], ["drain"], ["alloc", "big", "0101010101010101", 3, 0], ["purge", "big"],
                       ["get", "k1", 10, [1]], ["get", "k2", 11, [2]], ["bstep", 2, False, 3], ["bstep", 3, False, 3], ["bstep", 2, False, 1], ["bstep", 3, False, 1],
                       ["bstep", 2, False, 9], ["bstep", 3, False, 9], ["cb", 3], ["cb", 2], ["read", "k1", 3, 0], ["read", "k2", 3, 0]])
    # new entries go to the END: run() refers to the witnesses above by position
    return [leak, roundtrip, purge_read, pressure_read, stale_reader, stale_writer, readd, rewrite, stuck, two_pageins]


LOCK_HEADER = S.HEADER.replace("Shm.ManagerCheck.", "Shm.ManagerCheck Shm.ManagerLocks.")
ONE = "pageout_one"


def lock_case(d, cap, ops, obs):
    """(capacity, ops, per op the acquire/release events of Manager.pageout_one seen on the implementation) as a Coq term, when that
    attribute exists and is a plain lock (else None: nothing to compare)"""
    if ONE not in d.watched_locks or len(d.lock_marks) != len(ops):
        return None
    nm = S.Names()
    o = S.clist([S.c_op(nm, op) for op in ops])
    evs, a = [], 0
    for b in d.lock_marks:
        evs.append(S.clist(["AcqOne" if k in ("acq", "reacquire") else "RelOne" for n, k in d.lock_log[a:b] if n == ONE and k != "busy"]))
        a = b
    return f"(({S.cZ(S.cfg_of(cap)[2])}, {o},\n    {S.clist(evs)}) : Z * list op * list (list lev))"


def executed(ops):
    """the op list of a run without what the run wrote into it"""
    return [o[:4] if o[0] == "get" else o[:3] if o[0] == "close" else list(o) for o in ops]


def nontrivial(obs, w):
    """a granted read after a disk round trip, or a purge delayed by a reader, or a fresh reader that survived an eviction round"""
    return w.stats["gets_after_disk_roundtrip"] > 0 or w.stats["purge_delayed"] > 0 or (w.stats["evictions"] > 0 and w.stats["fresh_reader_protected"] > 0)


KNOWN = (SIG_READD, SIG_STALE_WRITER, SIG_STUCK)


def run(ctx, res):
    t_start = _time.time()
    listed = {f["signature"] for f in load_findings().get("open", []) if f.get("property") == "C09"}
    res.rule = ("an op list (writes, reads held open incl. beyond the 15-minute staleness window, closes, purges during reads, memory pressure, both halves "
                "of page-out/page-in jobs in any order incl. injected disk faults, malformed requests, followed by the patient-client epilogue) counts as "
                "non-trivial when a read was granted after the dataset went to disk and back, or a purge was delayed by a reader, or an eviction round ran "
                "while a fresh reader held a dataset; distinct = distinct (capacity, op list).  Streams overlap (3+ overlapping readers of one key closed "
                "out of order, then pressure/purge) and faults (failing page-outs with the segment present, failing page-ins) are counted in the histogram "
                "(histories-with-three_overlapping_readers, -closed_out_of_order, event:*).  Stream clients: a history (prelude, scripts of 2-5 client "
                "threads running the real cascade.shm.client, a schedule) is non-trivial when requests of two threads were queued at the server at the "
                "same time and a read was granted and compared")
    streams = [("corpus", c, o) for c, o in corpus()]
    rng = ctx.sub_rng("readers")
    for _ in range(ctx.n(500, 12000)):
        streams.append(("readers",) + reader_history(rng))
    rng = ctx.sub_rng("pressure")
    for _ in range(ctx.n(500, 12000)):
        streams.append(("pressure",) + S.pressure_history(rng))
    rng = ctx.sub_rng("random")
    for _ in range(ctx.n(250, 7000)):
        streams.append(("random",) + S.gen_history(rng))
    rng = ctx.sub_rng("malformed")
    for _ in range(ctx.n(100, 2500)):
        streams.append(("malformed",) + S.gen_history(rng, malformed=True))
    rng = ctx.sub_rng("rewrite")
    for _ in range(ctx.n(250, 6000)):
        streams.append(("rewrite",) + S.rewrite_history(rng))
    rng = ctx.sub_rng("midpurge")
    for _ in range(ctx.n(150, 4000)):
        streams.append(("midpurge",) + S.midpurge_history(rng))
    rng = ctx.sub_rng("overlap")
    for _ in range(ctx.n(300, 6000)):
        streams.append(("overlap",) + overlap_history(rng))
    rng = ctx.sub_rng("faults")
    for _ in range(ctx.n(200, 4000)):
        streams.append(("faults",) + fault_history(rng))
    rng = ctx.sub_rng("stuck")
    for _ in range(ctx.n(150, 3000)):
        streams.append(("stuck",) + stuck_history(rng))
    rng = ctx.sub_rng("conc")
    for _ in range(ctx.n(100, 2500)):
        streams.append(("conc",) + S.conc_history(rng))
    rng = ctx.sub_rng("config")
    streams = [(kind, c if kind == "corpus" else S.with_config(rng, c), o) for kind, c, o in streams]
    terms, metas, lock_terms, fterms, fmetas = [], [], [], [], []
    erng = ctx.sub_rng("epilogue")
    hangs = 0
    with S.patched() as env:
        for name, present in env.seams.items():
            res.count(f"seam:{name}:{'used' if present else 'absent'}")
        stream_s = {}
        for kind, cap, ops0 in streams:
            if hangs >= 3:
                res.count("not-run:after-three-hangs")
                continue
            t_h = _time.time()
            d, ops, obs, crash, bad, w, ep = evaluate(env, cap, ops0, erng)
            stream_s[kind] = stream_s.get(kind, 0.0) + _time.time() - t_h
            res.evaluations += 1
            res.count(f"stream:{kind}")
            # the replayable case of a failure is the history as executed (macros expanded, epilogue included)
            case = {"capacity": cap, "ops": (executed(ops) if bad else ops0), "stream": kind}
            if crash and crash[0] == "Hang":
                hangs += 1
            if d.watched_locks:
                res.count("locks-watched:" + ",".join(sorted(d.watched_locks)))
            if nontrivial(obs, w):
                res.nontrivial_keys.add(S.hist_key(cap, ops0))
            for k, v in w.stats.items():
                if v:
                    res.count(f"histories-with-{k}")
            res.count(f"epilogue:{ep.verdict}")
            for e in d.events:
                res.count("event:" + e[0])
            for k in d.conc:
                res.count("conc:" + k)
            for sig, what, i in ([b for b in bad if b[0] not in KNOWN] or bad)[:1]:
                if sig in KNOWN:
                    res.count("known-signature:" + sig)
                    if sig in listed:
                        res.fail(sig, what, case)
                else:
                    res.fail(sig, what, case)
            if len(res.samples) < 3 and kind == "readers" and nontrivial(obs, w):
                res.samples.append({"capacity": cap, "ops": ops[:14], "observations": obs[:14]})
            if crash is not None or len(obs) != len(ops):
                res.count("not-compared:crashed")
            elif d.unmodelled:
                res.count("not-compared:finer-than-the-model")        # oracle only
            elif d.fine:
                fterms.append(S.c_fcase(cap, ops, obs))
                fmetas.append(({"capacity": cap, "ops": ops, "stream": kind}, obs))
            else:
                terms.append(S.c_case(cap, ops, obs))
                metas.append(({"capacity": cap, "ops": ops, "stream": kind}, obs))
                if kind in ("corpus", "faults") or len(terms) % 8 == 0:
                    lt = lock_case(d, cap, ops, obs)
                    if lt is not None:
                        lock_terms.append(lt)
        # the witnesses of the _refuted theorems must still fail on the implementation
        for name, sig, idx in (("C09_bytes_preserved_refuted", SIG_READD, 6), ("C09_no_read_before_close_refuted", SIG_STALE_WRITER, 5),
                               ("C09_failed_pageout_under_stale_reader_refuted", SIG_STUCK, 8)):
            wcap, wops = corpus()[idx]
            d, ops, obs, crash, bad, w, ep = evaluate(env, wcap, wops, erng, with_epilogue=False)
            res.evaluations += 1
            if not any(b[0] == sig for b in bad):
                res.disagree(f"the witness of {name} ({sig}) no longer fails on the implementation: the model is out of date",
                             {"capacity": wcap, "ops": wops, "observations": obs})
        # the store as its clients reach it: the real cascade.shm.client run by several threads of one process
        t_cl = _time.time()
        cterms, cmetas = ([], []) if hangs >= 3 else CL.run_stream(ctx, res, env, ctx.n(260, 6000), ctx.n(20, 600))
        stream_s["clients"] = _time.time() - t_cl
    # the lock model (Shm/ManagerLocks.v) against the events seen on Manager.pageout_one.  Which sections a store takes is not part of
    # the property (only that nothing blocks, which the watchdog decides): a difference is recorded, it is not a verdict
    t_impl = _time.time()
    if lock_terms:
        lres, llogs = coq_results("C09", LOCK_HEADER, lock_terms, "check_locks", tag="locks", shard=250)
        same = sum(1 for r in lres if r is True)
        res.count("lock-events:histories-compared", len(lres))
        res.count("lock-events:as-in-the-model", same)
        if same != len(lres):
            res.count("lock-events:differ-from-the-model", len(lres) - same)
            ctx.notes.append(f"the acquire/release events of Manager.pageout_one differ from Shm/ManagerLocks.v in {len(lres) - same} of {len(lres)} "
                             "histories: the lock model (C09_handlers_never_block) no longer describes this code; hangs are still decided by the watchdog")
    else:
        res.count("lock-events:not-observable")
    results, logs = coq_results("C09", S.HEADER, terms, "check_case", tag="hist", shard=250)
    fresults, flogs = coq_results("C09", S.HEADER, fterms, "check_fcase", tag="fine", shard=250) if fterms else ([], [])
    res.count("compared:fine-grained-histories", len(fresults))
    CL.correspond(res, cterms, cmetas)
    res.extra["phase_s"] = {"implementation+oracle": round(t_impl - t_start, 1), "coq-correspondence": round(_time.time() - t_impl, 1),
                            "per-stream": {k: round(v, 1) for k, v in stream_s.items()}}
    results, logs, metas = results + fresults, logs + flogs, metas + fmetas
    res.corr_checked += len(results)
    for r, (case, obs) in zip(results, metas):
        if r is not True:
            res.disagree("Coq model (Shm.Manager.run) and the real shm server differ on an op list" +
                         ("" if r is False else " (cases file did not compile: " + (logs[0][-400:] if logs else "") + ")"),
                         {**case, "observations": obs})
            break


def search(ctx, res):
    first = [((d.get("case") or {}).get("capacity"), (d.get("case") or {}).get("ops")) for d in res.disagreements]
    first = [(c, o) for c, o in first if o]
    listed = {f["signature"] for f in load_findings().get("open", []) if f.get("property") == "C09"}

    def many():
        rng = ctx.sub_rng("search")
        for i in range(9000):
            c, o = [reader_history, S.pressure_history, S.gen_history, S.rewrite_history, S.midpurge_history, overlap_history,
                    fault_history, stuck_history, S.conc_history][i % 9](rng)
            yield S.with_config(rng, c), o
    if any((d.get("case") or {}).get("stream", "").startswith("clients") for d in res.disagreements):
        with S.patched() as env:
            found = CL.search(ctx, env)
        if found:
            return CL.shrink(ctx, found)
    with S.patched() as env:
        for cap, ops in itertools.chain(first, corpus(), many()):
            d, ops2, obs, crash, bad, w, ep = evaluate(env, cap, ops)
            bad = [b for b in bad if not (b[0] in KNOWN and b[0] in listed)]      # listed findings are not what the search is after
            if bad:
                return shrink(ctx, {"signature": bad[0][0], "what": bad[0][1], "case": {"capacity": cap, "ops": list(ops), "stream": "search"}})
    return None


def shrink(ctx, f):
    if str((f.get("case") or {}).get("stream", "")).startswith("clients"):
        return CL.shrink(ctx, f)
    cap, ops, sig = f["case"]["capacity"], list(f["case"]["ops"]), f["signature"]
    with S.patched() as env:
        def still(o):
            try:
                bad = evaluate(env, cap, o)[4]
            except Exception:
                return None
            for s, w, _ in bad:
                if s == sig:
                    return w
            return None
        what = still(ops)
        if what is None:
            return f
        changed = True
        while changed and len(ops) > 1:
            changed = False
            for i in range(len(ops) - 1, -1, -1):
                trial = ops[:i] + ops[i + 1:]
                w = still(trial)
                if w is not None:
                    ops, what, changed = trial, w, True
    return {"signature": sig, "what": what, "case": {"capacity": cap, "ops": ops, "stream": f["case"].get("stream", "?") + "+shrunk"}}


def replay(ctx, case):
    c = case.get("case") or (case.get("first_disagreement") or {}).get("case") or case
    if str(c.get("stream", "")).startswith("clients"):
        return CL.replay(ctx, c)
    ops, cap = c.get("ops"), c.get("capacity")
    if not ops:
        return {"fails": None, "note": "no op list in this replay file"}
    with S.patched() as env:
        d, ops2, obs, crash, bad, w, ep = evaluate(env, cap, ops)
    return {"fails": bool(bad), "failures": [{"signature": s, "what": w_} for s, w_, _ in bad[:5]], "ops_with_epilogue": ops2, "observations": obs,
            "crash": crash, "events": d.events, "epilogue": ep.verdict}
